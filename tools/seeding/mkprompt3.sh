#!/bin/bash
# round 3: like round 2 (lists every earlier change for the property) with own dirs and a different emphasis
id=$1
wt=/tmp/seed/wt3-$id; out=/tmp/seed/out3-$id
[ -d $wt ] || git -C /repo worktree add -q --detach $wt HEAD
mkdir -p $out
/tmp/seed/mkprompt2.sh $id | sed "s#/tmp/seed/wt2-$id#$wt#g; s#/tmp/seed/out2-$id#$out#g; s#ROUND 2 NOTE#NOTE ON EARLIER ROUNDS#"
git -C /repo worktree remove --force /tmp/seed/wt2-$id 2>/dev/null
rmdir /tmp/seed/out2-$id 2>/dev/null
cat <<P

ROUND 3 EMPHASIS. The earlier changes listed above were all caught in the end. Look for places they did not touch: less-travelled code paths that still serve this property (the other codec than the one used before; the unmarshal / builder side versus the marshal / iterator side; stream (io.Reader / io.Writer) entry points versus document ones; reusable objects versus one-shot functions; non-default configuration values; the largest / smallest legal sizes; features combined in one document such as markers + records + chunked arrays + comments). Prefer a change whose effect is a SMALL semantic difference (one value off, one element dropped, one flag lost, one error swallowed) over a crash. Before you settle on a change, make sure the unchanged tree really behaves correctly for your triggering input (the tree has known defects; a change that only re-exposes an existing defect does not count) - your demo passing on the unchanged tree shows that.
P
