#!/usr/bin/env python3
# keep.py <outdir> <n> <seed-id> <property> <detected-by (comma list or "none")> <needs text>
import sys, os, shutil, json, re
out, n, sid, prop, det, needs = sys.argv[1:7]
d = f"/verif/seeded/{sid}"
os.makedirs(d, exist_ok=True)
shutil.copy(f"{out}/patch{n}.diff", f"{d}/patch.diff")
demo = f"{out}/demo{n}_test.go"
if os.path.exists(demo): shutil.copy(demo, f"{d}/demo_test.go")
res = open(f"/tmp/seed/results/{sid}.txt").read() if os.path.exists(f"/tmp/seed/results/{sid}.txt") else ""
files = re.findall(r"^\+\+\+ b/(\S+)", open(f"{d}/patch.diff").read(), re.M)
meta = {
 "id": sid, "property": prop, "files_changed": files,
 "needs_to_manifest": needs,
 "confirmed": {
   "how": "scratch git worktree of /repo HEAD + scratch copy of /verif whose go.mod replace points at it (/tmp/seed/seedtest.sh): patch applied with git apply; `go test -vet=off -count=1 ./...` green with the patch; demo_test.go (placed in <repo>/verifdemo/) fails with the patch and passes without it; then `./vcheck <property> quick` (VERIF_SEED=1) on the patched tree",
   "suite_green_with_patch": "suite: green with patch" in res,
   "demo_fails_with_patch_passes_without": bool(re.search(r"with-patch rc=[1-9]\d* without-patch rc=0", res)),
 },
 "detected_by": [] if det == "none" else det.split(","),
 "check_results": [l for l in res.splitlines() if l.startswith("check ")],
 "author": "independent sub-agent given only the property text and its own worktree",
}
json.dump(meta, open(f"{d}/meta.json", "w"), indent=1)
print("kept", sid, meta["detected_by"], meta["confirmed"]["suite_green_with_patch"], meta["confirmed"]["demo_fails_with_patch_passes_without"])
