#!/bin/bash
# round 5: like round 4 for the properties that had three rounds so far; descriptions of earlier changes are cut before any remark about how they were found
id=$1
wt=/tmp/seed/wt5-$id; out=/tmp/seed/out5-$id
[ -d $wt ] || git -C /repo worktree add -q --detach $wt HEAD
mkdir -p $out
/tmp/seed/mkprompt4.sh $id | sed "s#/tmp/seed/wt4-$id#$wt#g; s#/tmp/seed/out4-$id#$out#g" | sed -E 's/[;.,]? ?(Found (after|by)|[Mm]issed (until|by)|Needs a reused|C[0-9][0-9] (quick )?(detects|catches|reports|runs|uses|itself)|caught by|- caught by).*$//'
git -C /repo worktree remove --force /tmp/seed/wt4-$id 2>/dev/null
rmdir /tmp/seed/out4-$id 2>/dev/null
