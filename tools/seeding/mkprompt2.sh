#!/bin/bash
# round 2: like mkprompt.sh but asks for subtler changes and lists what round 1 already produced for this property
id=$1
wt=/tmp/seed/wt2-$id; out=/tmp/seed/out2-$id
[ -d $wt ] || git -C /repo worktree add -q --detach $wt HEAD
mkdir -p $out
base=$(/tmp/seed/mkprompt.sh $id | sed "s#/tmp/seed/wt-$id#$wt#g; s#/tmp/seed/out-$id#$out#g")
git -C /repo worktree remove --force /tmp/seed/wt-$id 2>/dev/null
prev=$(for m in /verif/seeded/$id-*/meta.json; do jq -r '"- " + (.files_changed|join(", ")) + ": " + .needs_to_manifest' $m; done)
echo "$base"
cat <<P

ROUND 2 NOTE. An earlier round already produced the following changes for this property (do NOT repeat them or close variants of them; pick different code sites and different triggering conditions):
$prev
This time aim for SUBTLER changes: for example two cooperating sites that each look fine alone; behaviour that depends on a non-default configuration value; a defect that only shows on the second use of some state, on a particular combination of two features (e.g. a marker on a chunked array inside a record), at a rarely used width / length / depth boundary, or in the interaction of encoder and decoder sides (one side changed so that the library still round-trips its OWN output but no longer matches the documented format / the other codec). Avoid changes that break the property for most inputs.
P
