#!/bin/bash
# mkprompt.sh <Cxx> : creates worktree /tmp/seed/wt-<id>, out dir /tmp/seed/out-<id>, prints prompt
id=$1
wt=/tmp/seed/wt-$id; out=/tmp/seed/out-$id
[ -d $wt ] || git -C /repo worktree add -q --detach $wt HEAD
mkdir -p $out
prop=$(jq -r --arg id $id 'select(.id==$id) | "Title: \(.title)\nStatement: \(.statement)\nQuantifier: \(.quantifier.text)\nWhy the existing tests cannot settle it: \(.why_tests_cant)\nWhere it lives: \(.anchors.files|join(", "))\nMechanisms: \(.anchors.mechanism|map(.name+" ("+.where+")")|join("; "))"' /verif/properties.jsonl)
cat <<P
You are helping evaluate a verification framework by writing realistic *bugs* (mutations) for the Go library kstenerud/go-concise-encoding (reference implementation of Concise Encoding: binary CBE and text CTE codecs, an event "rules" validator, reflection-based marshal/unmarshal).

You have your own scratch git worktree of the library at $wt (work ONLY there and in $out; never touch /repo or /verif, and do not read anything under /verif). The sandbox is offline; prefix every shell command with:
  export GOFLAGS=-mod=mod GOPROXY=off GOSUMDB=off GOTOOLCHAIN=local
The existing test suite is run with:  cd $wt && go test -vet=off -count=1 ./...   (about 15 s, currently green).
Always run go test with an explicit -timeout (e.g. -timeout 120s); some library paths can spin forever on odd input.

The semantic property under study:
$prop

Task: produce TWO different, independent source changes to the library (each a small, realistic bug a maintainer could plausibly introduce: an off-by-one, a wrong receiver, a missing reset, a swapped field, a dropped check, a wrong comparison, …) such that EACH change, applied alone:
  1. compiles, and the whole existing test suite still passes unedited;
  2. BREAKS the property above (and preferably not much else);
  3. needs something specific to manifest — an unusual input, a particular value boundary, a multi-step sequence of calls, a particular split/chunking/position, or two cooperating sites that each look fine alone — NOT something ordinary use would expose immediately (e.g. do not break every integer or every string).
For each change write a demonstration: a small Go test file (package of your choice, placed in the worktree e.g. $wt/verifdemo/demo<N>_test.go, importing the library by its module path github.com/kstenerud/go-concise-encoding/...) that FAILS with the change applied and PASSES on the unchanged tree. Verify all of this yourself: suite green with the change, demo fails with the change, demo passes without.

Deliverables, in $out:
  patch1.diff, patch2.diff   — output of 'git diff' for the library change only (must NOT include the demo file), appliable with 'git apply' on the unchanged tree
  demo1_test.go, demo2_test.go — the demonstrations (self-contained; say in a top comment which directory inside the repo to put them in and the go test command to run)
  notes.md — for each change: what it does, which property clause it breaks, exactly what is needed for it to manifest, and the commands you ran with their results.
Make the two changes different in nature and in different code sites if you can. When you are done, leave the worktree clean (git checkout -- . ; remove your demo files from it). Reply with a short summary (a few lines per change).
P
