#!/bin/bash
# round 4: lists every earlier change; emphasis on shared infrastructure and second-order effects
id=$1
wt=/tmp/seed/wt4-$id; out=/tmp/seed/out4-$id
[ -d $wt ] || git -C /repo worktree add -q --detach $wt HEAD
mkdir -p $out
/tmp/seed/mkprompt2.sh $id | sed "s#/tmp/seed/wt2-$id#$wt#g; s#/tmp/seed/out2-$id#$out#g; s#ROUND 2 NOTE#NOTE ON EARLIER ROUNDS#"
git -C /repo worktree remove --force /tmp/seed/wt2-$id 2>/dev/null
rmdir /tmp/seed/out2-$id 2>/dev/null
cat <<P

ROUND 4 EMPHASIS. Every change listed above was caught in the end, so avoid those sites and their triggers. Ideas that have not been tried much: (a) code shared by several features (internal/, conversions/, the array helpers, escaping, identifier and media-type validation, the chunk / data-event bookkeeping) changed so that only ONE consumer misbehaves; (b) the difference between the ways of delivering the same thing (OnArray vs OnStringlikeArray vs chunked begin/chunk/data; document entry point vs io.Reader / io.Writer entry point; value vs pointer receiver; struct field vs map value vs list element vs top level); (c) second-order effects - what is returned TOGETHER with an error, what is left in a reused buffer or cache, what a later call on the same object sees; (d) off-by-one at a width, length or count that needs a value of exactly one size (not the obvious 15/16, 127/128, 2^63 ones - those are covered); (e) a default or non-default configuration value that is read in one place and ignored in its twin. Prefer a SMALL semantic difference (one element, one bit, one flag, one error swallowed) over a crash, and make sure the unchanged tree behaves correctly for your triggering input (the demo passing on the unchanged tree shows that).
P
