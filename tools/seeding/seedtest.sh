#!/bin/bash
# seedtest.sh <srcdir> <n> <label> <props...> : verify mutant n from srcdir (patch<n>.diff, demo<n>_test.go) and run the given quick checks on it.
# Uses a scratch worktree and a scratch copy of /verif (as on disk now) whose go.mod points at the worktree; never touches /repo.
export GOFLAGS=-mod=mod GOPROXY=off GOSUMDB=off GOTOOLCHAIN=local
src=$1; n=$2; label=$3; shift 3
wt=/var/tmp/mut/wt-$label; vv=/var/tmp/mut/v-$label
res=/tmp/seed/results/$label.txt; : > $res
cleanup(){ rm -rf $vv; git -C /repo worktree remove --force $wt 2>/dev/null; rm -rf $wt; git -C /repo worktree prune; }
cleanup
git -C /repo worktree add -q --detach $wt HEAD || exit 2
if ! git -C $wt apply $src/patch$n.diff; then echo "PATCH-DOES-NOT-APPLY" | tee -a $res; cleanup; exit 3; fi
(cd $wt && go build ./... ) >>$res 2>&1 || { echo "BUILD-FAIL" | tee -a $res; cleanup; exit 3; }
suite=$(cd $wt && go test -vet=off -count=1 -timeout 600s ./... 2>&1 | grep -v "no test files")
if echo "$suite" | grep -q "^FAIL\|^---\|panic"; then echo "SUITE-FAILS-WITH-PATCH" | tee -a $res; echo "$suite" | tail -20 >> $res; cleanup; exit 3; fi
echo "suite: green with patch" | tee -a $res
demo=$src/demo${n}_test.go
if [ -f $demo ]; then
  pkgdir=$(grep -o '<repo>/[A-Za-z0-9_/]*' $demo | head -1 | sed 's#<repo>/##; s#/[^/]*_test\(.go\)\?$##; s#/$##')
  [ -z "$pkgdir" ] && pkgdir=verifdemo
  case "$pkgdir" in *.go) pkgdir=$(dirname $pkgdir);; esac
  mkdir -p $wt/$pkgdir; cp $demo $wt/$pkgdir/
  (cd $wt && timeout 400 go test ${DEMO_RACE:+-race} -vet=off -count=1 -timeout 300s ./$pkgdir/ >/tmp/seed/results/$label.demo-with.log 2>&1); withrc=$?
  git -C $wt apply -R $src/patch$n.diff
  (cd $wt && timeout 400 go test ${DEMO_RACE:+-race} -vet=off -count=1 -timeout 300s ./$pkgdir/ >/tmp/seed/results/$label.demo-without.log 2>&1); worc=$?
  git -C $wt apply $src/patch$n.diff
  rm -f $wt/$pkgdir/$(basename $demo); 
  echo "demo: with-patch rc=$withrc without-patch rc=$worc (dir $pkgdir)" | tee -a $res
  if [ $withrc -eq 0 ] || [ $worc -ne 0 ]; then echo "DEMO-NOT-CONFIRMED" | tee -a $res; fi
else echo "no demo file" | tee -a $res; fi
rsync -a --exclude .git --exclude .work --exclude bin --exclude replays --exclude seeded /verif/ $vv/
sed -i "s#=> /repo#=> $wt#" $vv/go.mod
for p in "$@"; do
  start=$(date +%s)
  out=$(cd $vv && ./vcheck $p quick 2>&1); rc=$?
  end=$(date +%s)
  nv=$(echo "$out" | grep -c "^VIOLATION")
  echo "check $p: exit=$rc violations=$nv wall=$((end-start))s" | tee -a $res
  echo "$out" | grep -E "^(VIOLATION|REGRESSION-FAIL|SUMMARY)" | head -5 >> $res
  if [ $rc -eq 1 ]; then f=$(echo "$out" | grep "^VIOLATION" | head -1 | sed 's/.*replay=//'); [ -f "$f" ] && jq -r '.error' $f | head -12 | cut -c1-400 >> $res; fi
  echo "$out" > /tmp/seed/results/$label.$p.log
done
cleanup
