#!/usr/bin/env python3
"""Regenerates the generated tables of DESIGN.md (between <!-- BEGIN x --> / <!-- END x --> markers)
from known_findings.json and seeded/*/meta.json. Documentation tool only; no check depends on it."""
import json, glob, os, re, sys
root = os.path.dirname(os.path.dirname(os.path.abspath(__file__)))
kf = json.load(open(os.path.join(root, "known_findings.json")))["findings"]

def esc(s): return s.replace("|", "\\|").replace("\n", " ")

# ---- findings
rows_open, rows_fixed = [], []
seen = set()
for f in kf:
    key = (f["key"], f["status"], f.get("commit", ""))
    what = esc(f["what"])
    if len(what) > 330: what = what[:327] + "..."
    if f["status"] == "open":
        rows_open.append(f"| {f['key']} | {f['property']} | {what} | `{f.get('replay','')}` |")
    else:
        rows_fixed.append(f"| {f['key']} | {f['property']} | `{f.get('commit','')}` | {what} | `{f.get('replay','')}` |")
findings = ["**Open (recorded, excluded by construction, reported as KNOWN-FINDING on every run):**", "",
            "| key | property | what fails | stored failing input |", "|---|---|---|---|"] + rows_open + ["",
            "**Fixed in /repo (one `fix:` commit each; the stored input is replayed on every run and fails the check if the defect returns):**", "",
            "| key | property | commit | what failed | regression input |", "|---|---|---|---|---|"] + rows_fixed

# ---- seeded
rows = []
n_det = n_all = 0
for d in sorted(glob.glob(os.path.join(root, "seeded", "*"))):
    mp = os.path.join(d, "meta.json")
    if not os.path.exists(mp): continue
    m = json.load(open(mp))
    n_all += 1
    det = ", ".join(m["detected_by"]) if m["detected_by"] else "— (not detected)"
    if m["detected_by"]: n_det += 1
    res = "; ".join(r.replace("check ", "") for r in m.get("check_results", []))
    rows.append(f"| {m['id']} | {m['property']} | {', '.join(m['files_changed'])} | {esc(m['needs_to_manifest'])} | {det} | {esc(res)} |")
seeded = [f"{n_all} seeded changes, {n_det} detected by the quick tier of the check named in the last-but-one column.", "",
          "| seed | property | files changed | what it needs to manifest | detected by | quick-tier result on the seeded tree |", "|---|---|---|---|---|---|"] + rows

def replace(text, name, lines):
    b, e = f"<!-- BEGIN {name} -->", f"<!-- END {name} -->"
    i, j = text.index(b) + len(b), text.index(e)
    return text[:i] + "\n" + "\n".join(lines) + "\n" + text[j:]

p = os.path.join(root, "DESIGN.md")
t = open(p).read()
t = replace(t, "FINDINGS", findings)
t = replace(t, "SEEDED", seeded)
open(p, "w").write(t)
print("DESIGN.md tables regenerated:", len(rows_open), "open,", len(rows_fixed), "fixed,", n_all, "seeded")
