package main

import (
	"bufio"
	"encoding/json"
	"fmt"
	"os"
	"path/filepath"
	"sort"
	"strings"
)

// writeManifest regenerates MANIFEST.json from the spec table, so that it can never drift from what
// the driver actually runs.
func writeManifest() {
	// all property ids from properties.jsonl
	var ids []string
	f, err := os.Open(filepath.Join(root, "properties.jsonl"))
	if err != nil {
		die(2, "%v", err)
	}
	sc := bufio.NewScanner(f)
	sc.Buffer(make([]byte, 1<<20), 1<<20)
	for sc.Scan() {
		var p struct {
			ID string `json:"id"`
		}
		if json.Unmarshal(sc.Bytes(), &p) == nil && p.ID != "" {
			ids = append(ids, p.ID)
		}
	}
	f.Close()
	sort.Strings(ids)
	checks := []map[string]interface{}{}
	na := []map[string]string{}
	for _, id := range ids {
		s := specs[id]
		if s == nil {
			na = append(na, map[string]string{"property_id": id, "reason": notApplicable[id]})
			continue
		}
		tech := s.Technique
		if tech == "" {
			tech = "property-based testing (pgregory.net/rapid generators, explicit oracle, shrinking to a JSON replay)"
		}
		if s.FuzzTime > 0 && !strings.Contains(tech, "native") {
			if id == "C03" || id == "C07" || id == "C28" {
				tech += "; thorough tier adds coverage-guided native fuzzing (go test -fuzz) of the raw document bytes against the same oracle"
			} else {
				tech += "; thorough tier adds coverage-guided native fuzzing (go test -fuzz) through the same generator (rapid.MakeFuzz)"
			}
		}
		text := s.LevelText
		if text == "" {
			text = "generated-input search against an explicit oracle: the property held on every case explored in the run (counts, non-triviality rule and samples in the evidence file); it is not a proof of absence"
		}
		note := s.LevelNote
		if note == "" {
			note = "trusted: the reference model / oracle in /verif (listed in the evidence assumptions), Go's standard library, the helper modules go-compact-time / go-compact-float / go-uleb128 / apd; cases are bounded in size as stated in DESIGN.md"
		}
		c := map[string]interface{}{
			"property_id":         id,
			"quick_cmd":           fmt.Sprintf("./vcheck %s quick", id),
			"thorough_cmd":        fmt.Sprintf("./vcheck %s thorough", id),
			"evidence_file":       fmt.Sprintf("evidence/%s.json", id),
			"replay_cmd_template": "./vcheck replay {path}",
			"engine":              "vcheck",
			"level_claimed":       map[string]string{"category": s.Level, "text": text, "design_ref": "DESIGN.md §5 " + id},
			"level_note":          note,
			"technique":           tech,
		}
		checks = append(checks, c)
	}
	served := []string{}
	for _, c := range checks {
		served = append(served, c["property_id"].(string))
	}
	m := map[string]interface{}{
		"version":   1,
		"setup_cmd": "./vcheck setup",
		"hooks": map[string]interface{}{
			"guard":            "verif",
			"enable":           "no hooks are needed: checks compile /repo's working tree through the go.mod replace directive; nothing in /repo is instrumented",
			"baseline_off_cmd": "cd /repo && go test -vet=off -count=1 ./...",
			"source_commits":   []string{},
			"add_only":         true,
		},
		"engines": []map[string]interface{}{{
			"name": "vcheck", "path": "vcheck", "serves_properties": served,
			"kind_free_text": "Go driver (cmd/vdriver) that builds props/*.go against /repo, runs rapid-based property checks in parallel shards, replays known findings and regression inputs, merges statistics and writes evidence",
		}},
		"checks":         checks,
		"not_applicable": na,
		"notes":          "Every check is property-based testing / fuzzing: generated cases, an explicit oracle, shrinking, JSON replay files. Genuine defects found and repaired in /repo are listed in known_findings.json (status fixed) with the regression input that is replayed on every run.",
	}
	b, _ := json.MarshalIndent(m, "", " ")
	if err := os.WriteFile(filepath.Join(root, "MANIFEST.json"), append(b, '\n'), 0o644); err != nil {
		die(2, "%v", err)
	}
	fmt.Printf("MANIFEST.json: %d checks, %d not applicable\n", len(checks), len(na))
}

// reasons for properties without a registered check (kept current by hand while the build progresses)
var notApplicable = map[string]string{}

func init() {
	for _, id := range []string{} {
		notApplicable[id] = "not claimed yet: the property-based check for this property (designed in DESIGN.md §5) has not been built and validated at this commit"
	}
}
