package main

var specs = map[string]*propSpec{}

func reg(p *propSpec) {
	if p.Level == "" {
		p.Level = "exploration"
	}
	specs[p.ID] = p
}

func init() {
	reg(&propSpec{ID: "C15",
		Rule:        "cases: rules-valid event streams from the G-EV grammar (both alphabets, nil big numbers, NaN in float/decimal/big-decimal form, every array delivery form); non-trivial = stream with >=1 container, chunked array or numeric leaf outside the small-int range; distinct = FNV-64 of the serialised event list",
		Assumptions: []string{"the recorder deep-copies operands; strict equality compares floats by bits, big numbers by value and precision"},
		Quick:       tierSpec{Checks: 40000, Shards: 8, Timeout: 120},
		Thorough:    tierSpec{Checks: 1500000, Shards: 16, Timeout: 840}})
}
