package main

var specs = map[string]*propSpec{}

func reg(p *propSpec) {
	if p.Level == "" {
		p.Level = "exploration"
	}
	specs[p.ID] = p
}

func init() {
	reg(&propSpec{ID: "C15",
		Rule:        "cases: rules-valid event streams from the G-EV grammar (both alphabets, nil big numbers, NaN in float/decimal/big-decimal form, every array delivery form); non-trivial = stream with >=1 container, chunked array or numeric leaf outside the small-int range; distinct = FNV-64 of the serialised event list",
		Assumptions: []string{"the recorder deep-copies operands; strict equality compares floats by bits, big numbers by value and precision"},
		Quick:       tierSpec{Checks: 40000, Shards: 8, Timeout: 120},
		Thorough:    tierSpec{Checks: 1500000, Shards: 16, Timeout: 840}})
}

func init() {
	reg(&propSpec{ID: "C01",
		Rule: "cases: rules-valid event streams from the G-EV grammar (narrow alphabet; nesting, every scalar kind, all time-zone forms, every array type through whole/string-like/chunked delivery, markers+references, record types/records, nodes, edges, media, custom binary, comments, padding); non-trivial = >=1 container, chunked array or numeric leaf outside the small-int range; distinct = FNV-64 of the serialised event list",
		Assumptions: []string{"equivalence per DESIGN 3.2: ints/decimals by value, binary floats bit-exact, NaN kind only, non-float64 big floats within the decimal-conversion tolerance, comments dropped",
			"known-finding regions are excluded by construction and counted in excluded_by_known_finding"},
		Quick:    tierSpec{Checks: 60000, Shards: 12, Timeout: 150},
		Thorough: tierSpec{Checks: 3000000, Shards: 16, Timeout: 840}})
}

func init() {
	reg(&propSpec{ID: "C02",
		Rule: "cases: rules-valid event streams from the G-EV grammar with strings / resource IDs / custom text / comments over a deliberately nasty Unicode alphabet (controls, delimiters, nbsp, soft hyphen, combining marks, bidi and line separators, astral, noncharacters), comments at every grammar-allowed position, all numeric edge values and all time-zone forms (lat/long at every hundredth); non-trivial = as C01 or a string leaf needing an escape or a comment; distinct = FNV-64 of the serialised event list",
		Assumptions: []string{"equivalence per DESIGN 3.2, padding dropped, comments compared by kind and text, NaN elements of float arrays by kind only",
			"known-finding regions are excluded by construction and counted in excluded_by_known_finding"},
		Quick:    tierSpec{Checks: 40000, Shards: 16, Timeout: 150},
		Thorough: tierSpec{Checks: 1000000, Shards: 16, Timeout: 840}})
}
