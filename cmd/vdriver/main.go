// vdriver: builds the property test binary from /repo's current working tree, runs it in shards,
// merges statistics, writes evidence/<id>.json and prints VIOLATION / KNOWN-FINDING lines.
//
//	vdriver <Cxx> <quick|thorough>
//	vdriver replay <file>
//	vdriver setup
package main

import (
	"bufio"
	"bytes"
	"encoding/binary"
	"encoding/json"
	"fmt"
	"io"
	"os"
	"os/exec"
	"path/filepath"
	"runtime"
	"sort"
	"strconv"
	"strings"
	"sync"
	"syscall"
	"time"
)

type tierSpec struct {
	Checks  int // rapid cases in total (split over shards)
	Shards  int
	Timeout int // seconds: wall ceiling per shard (rapid stops gracefully before it)
}

type propSpec struct {
	ID          string
	Level       string
	Rule        string
	Assumptions []string
	Quick       tierSpec
	Thorough    tierSpec
	Race        bool
	Tags        string
	ExtraTags   []string // additional build-tag variants the whole check is repeated under
	LevelText   string
	LevelNote   string
	Technique   string
	Fuzz        []string // native fuzz targets (thorough only)
	FuzzTime    int
	RlimitAS    uint64 // bytes, 0 = none
}

var root string

func env() []string {
	e := os.Environ()
	out := e[:0:0]
	for _, kv := range e {
		if strings.HasPrefix(kv, "GOFLAGS=") || strings.HasPrefix(kv, "GOPROXY=") || strings.HasPrefix(kv, "GOSUMDB=") || strings.HasPrefix(kv, "GOTOOLCHAIN=") {
			continue
		}
		out = append(out, kv)
	}
	return append(out, "GOFLAGS=-mod=mod", "GOPROXY=off", "GOSUMDB=off", "GOTOOLCHAIN=local", "VERIF_ROOT="+root)
}

func die(code int, format string, a ...interface{}) {
	fmt.Fprintf(os.Stderr, "vdriver: "+format+"\n", a...)
	os.Exit(code)
}

func buildTestBinary(work string, spec *propSpec) string {
	bin := filepath.Join(work, "props.test")
	args := []string{"test", "-c", "-vet=off", "-o", bin}
	if spec != nil && spec.Race {
		args = append(args, "-race")
	}
	if spec != nil && spec.Tags != "" {
		args = append(args, "-tags", spec.Tags)
	}
	args = append(args, "./props")
	cmd := exec.Command("go", args...)
	cmd.Dir = root
	cmd.Env = env()
	var out bytes.Buffer
	cmd.Stdout, cmd.Stderr = &out, &out
	if err := cmd.Run(); err != nil {
		fmt.Fprintln(os.Stderr, out.String())
		die(2, "building the test binary from /repo's working tree failed: %v", err)
	}
	return bin
}

type shardResult struct {
	shard    int
	exit     int
	output   string
	timedOut bool
}

type mergedStats struct {
	Evaluations  int64
	NonTrivial   int64
	Labels       map[string]int64
	Excluded     map[string]int64
	Counters     map[string]int64
	Samples      []json.RawMessage
	Notes        []string
	Distinct     int
	Exhaustive   bool
	StoppedEarly bool
}

type shardStats struct {
	Evaluations  int64             `json:"evaluations"`
	NonTrivial   int64             `json:"nontrivial_evaluations"`
	Labels       map[string]int64  `json:"labels"`
	Excluded     map[string]int64  `json:"excluded_by_known_finding"`
	Counters     map[string]int64  `json:"counters"`
	Samples      []json.RawMessage `json:"samples"`
	Exhaustive   bool              `json:"exhaustive"`
	Notes        []string          `json:"notes"`
	StoppedEarly bool              `json:"stopped_early"`
	BulkDistinct int64             `json:"bulk_distinct"`
}

func mergeStats(work string, shards int) mergedStats {
	m := mergedStats{Labels: map[string]int64{}, Excluded: map[string]int64{}, Counters: map[string]int64{}}
	hashes := map[uint64]struct{}{}
	bulk := int64(0)
	for s := 0; s < shards; s++ {
		prefix := filepath.Join(work, fmt.Sprintf("s%d", s))
		b, err := os.ReadFile(prefix + ".stats.json")
		if err != nil {
			continue
		}
		var st shardStats
		if json.Unmarshal(b, &st) != nil {
			continue
		}
		m.Evaluations += st.Evaluations
		bulk += st.BulkDistinct
		m.NonTrivial += st.NonTrivial
		for k, v := range st.Labels {
			m.Labels[k] += v
		}
		for k, v := range st.Excluded {
			m.Excluded[k] += v
		}
		for k, v := range st.Counters {
			m.Counters[k] += v
		}
		if len(m.Samples) < 8 {
			for _, sm := range st.Samples {
				if len(m.Samples) < 8 && (s == 0 || len(m.Samples) >= 4 || true) {
					m.Samples = append(m.Samples, sm)
					if len(m.Samples) >= 2+s*2 {
						break
					}
				}
			}
		}
		m.Notes = append(m.Notes, st.Notes...)
		m.Exhaustive = m.Exhaustive || st.Exhaustive
		m.StoppedEarly = m.StoppedEarly || st.StoppedEarly
		if hb, err := os.ReadFile(prefix + ".stats.hashes"); err == nil {
			for i := 0; i+8 <= len(hb); i += 8 {
				hashes[binary.LittleEndian.Uint64(hb[i:])] = struct{}{}
			}
		}
	}
	m.Distinct = len(hashes) + int(bulk)
	return m
}

func copyFile(src, dst string) error {
	b, err := os.ReadFile(src)
	if err != nil {
		return err
	}
	os.MkdirAll(filepath.Dir(dst), 0o755)
	return os.WriteFile(dst, b, 0o644)
}

func runProcess(bin string, args []string, extraEnv []string, timeout time.Duration, rlimitAS uint64) (exit int, out string, timedOut bool) {
	var cmd *exec.Cmd
	if rlimitAS > 0 {
		// apply the address-space limit through the shell's ulimit (kB)
		sh := fmt.Sprintf("ulimit -v %d; exec \"$0\" \"$@\"", rlimitAS/1024)
		cmd = exec.Command("/bin/bash", append([]string{"-c", sh, bin}, args...)...)
	} else {
		cmd = exec.Command(bin, args...)
	}
	cmd.Dir = filepath.Dir(bin)
	cmd.Env = append(env(), extraEnv...)
	cmd.SysProcAttr = &syscall.SysProcAttr{Setpgid: true}
	var buf bytes.Buffer
	cmd.Stdout, cmd.Stderr = &buf, &buf
	if err := cmd.Start(); err != nil {
		return 2, err.Error(), false
	}
	done := make(chan error, 1)
	go func() { done <- cmd.Wait() }()
	select {
	case err := <-done:
		if err != nil {
			if ee, ok := err.(*exec.ExitError); ok {
				exit = ee.ExitCode()
				if exit < 0 {
					exit = 128
				}
			} else {
				exit = 2
			}
		}
	case <-time.After(timeout):
		syscall.Kill(-cmd.Process.Pid, syscall.SIGKILL)
		<-done
		return 124, buf.String(), true
	}
	return exit, buf.String(), false
}

// raceOrTail returns the race detector's report (first 60 lines of it) when there is one.
func raceOrTail(out string) string {
	if i := strings.Index(out, "WARNING: DATA RACE"); i >= 0 {
		lines := strings.Split(out[i:], "\n")
		if len(lines) > 60 {
			lines = lines[:60]
		}
		return strings.Join(lines, "\n")
	}
	return tail(out, 6)
}

func tail(s string, n int) string {
	lines := strings.Split(strings.TrimRight(s, "\n"), "\n")
	if len(lines) > n {
		lines = lines[len(lines)-n:]
	}
	return strings.Join(lines, "\n")
}

func main() {
	exe, _ := os.Executable()
	root = os.Getenv("VERIF_ROOT")
	if root == "" {
		root = filepath.Dir(filepath.Dir(exe)) // <root>/bin/vdriver
	}
	if len(os.Args) < 2 {
		die(2, "usage: vdriver <Cxx> <quick|thorough> | replay <file> | setup")
	}
	switch os.Args[1] {
	case "setup":
		work := filepath.Join(root, ".work", "setup")
		os.MkdirAll(work, 0o755)
		buildTestBinary(work, nil)
		os.RemoveAll(work)
		fmt.Println("setup ok")
		return
	case "manifest":
		writeManifest()
		return
	case "replay":
		if len(os.Args) < 3 {
			die(2, "usage: vdriver replay <file>")
		}
		os.Exit(replay(os.Args[2]))
	}
	id := os.Args[1]
	tier := "quick"
	if len(os.Args) > 2 {
		tier = os.Args[2]
	}
	if t := os.Getenv("VERIF_TIER"); t != "" && len(os.Args) <= 2 {
		tier = t
	}
	spec := specs[id]
	if spec == nil {
		die(2, "unknown property %q", id)
	}
	os.Exit(runCheck(spec, tier))
}

func replay(path string) int {
	abs, _ := filepath.Abs(path)
	var rf struct {
		Property string `json:"property"`
	}
	b, err := os.ReadFile(abs)
	if err != nil {
		die(2, "%v", err)
	}
	json.Unmarshal(b, &rf)
	spec := specs[rf.Property]
	work := filepath.Join(root, ".work", fmt.Sprintf("replay-%d", os.Getpid()))
	os.MkdirAll(work, 0o755)
	defer os.RemoveAll(work)
	bin := buildTestBinary(work, spec)
	exit, out, to := runProcess(bin, []string{"-test.run", "^TestReplay$", "-test.timeout", "120s"}, []string{"VERIF_REPLAY=" + abs}, 150*time.Second, 0)
	fmt.Println(tail(out, 40))
	if to {
		fmt.Printf("VIOLATION property=%s replay=%s\n", rf.Property, abs)
		return 1
	}
	if exit != 0 {
		fmt.Printf("VIOLATION property=%s replay=%s\n", rf.Property, abs)
		return 1
	}
	return 0
}

func seedOf() int {
	s, err := strconv.Atoi(os.Getenv("VERIF_SEED"))
	if err != nil {
		return 1
	}
	if s < 0 {
		s = -s
	}
	return s
}

func runCheck(spec *propSpec, tier string) int {
	start := time.Now()
	ts := spec.Quick
	if tier == "thorough" {
		ts = spec.Thorough
	}
	if ts.Shards <= 0 {
		ts.Shards = 1
	}
	if ts.Shards > runtime.NumCPU() {
		ts.Shards = runtime.NumCPU()
	}
	seed := seedOf()
	work := filepath.Join(root, ".work", fmt.Sprintf("%s-%s-%d", spec.ID, tier, os.Getpid()))
	os.RemoveAll(work)
	os.MkdirAll(work, 0o755)
	defer os.RemoveAll(work)
	os.RemoveAll(filepath.Join(root, "props", "testdata", "rapid")) // rapid replays these first; never wanted
	variants := append([]string{spec.Tags}, spec.ExtraTags...)
	bin := buildTestBinary(work, spec)
	replayDir := filepath.Join(root, "replays")
	os.MkdirAll(replayDir, 0o755)
	if old, _ := filepath.Glob(filepath.Join(replayDir, fmt.Sprintf("%s-%s-seed%d-s*.json", spec.ID, tier, seed))); len(old) > 0 {
		for _, f := range old {
			os.Remove(f)
		}
	}

	violations := []string{}
	known := []string{}
	infra := []string{}

	// 1. known findings + saved regression inputs, in their own process (reproduced hangs keep spinning there)
	{
		exit, out, to := runProcess(bin, []string{"-test.run", "^TestFindings$", "-test.timeout", "300s"},
			[]string{"VERIF_PROP=" + spec.ID, "VERIF_TIER=" + tier}, 330*time.Second, spec.RlimitAS)
		sc := bufio.NewScanner(strings.NewReader(out))
		sc.Buffer(make([]byte, 1<<20), 1<<20)
		for sc.Scan() {
			line := sc.Text()
			switch {
			case strings.HasPrefix(line, "KNOWN-FINDING:"):
				known = append(known, line)
			case strings.HasPrefix(line, "FINDING-NOT-REPRODUCED"):
				fmt.Println(line)
			case strings.HasPrefix(line, "REGRESSION-FAIL"):
				f := strings.Fields(line)
				path := ""
				for _, w := range f {
					if strings.HasPrefix(w, "file=") {
						path = strings.TrimPrefix(w, "file=")
					}
				}
				fmt.Println(line)
				violations = append(violations, path)
			}
		}
		if to || (exit != 0 && exit != 3) {
			// a crash while replaying findings: report, but do not fail the run for a reproduced known crash
			fmt.Printf("NOTE findings/regression replay process ended with exit=%d timeout=%v\n%s\n", exit, to, tail(out, 15))
			if !strings.Contains(out, "KNOWN-FINDING") && !strings.Contains(out, "REGRESSION-") && len(out) > 0 && exit == 2 {
				infra = append(infra, "findings replay process failed")
			}
		}
	}

	// 2. shards (repeated per build-tag variant; shard indices continue across variants)
	perShard := (ts.Checks + ts.Shards - 1) / ts.Shards
	shardsPerVariant := ts.Shards
	ts.Shards = shardsPerVariant * len(variants)
	results := make([]shardResult, ts.Shards)
	bins := make([]string, len(variants))
	bins[0] = bin
	for vi := 1; vi < len(variants); vi++ {
		vs := *spec
		vs.Tags = variants[vi]
		vwork := filepath.Join(work, fmt.Sprintf("variant%d", vi))
		os.MkdirAll(vwork, 0o755)
		bins[vi] = buildTestBinary(vwork, &vs)
	}
	var wg sync.WaitGroup
	for s := 0; s < ts.Shards; s++ {
		wg.Add(1)
		go func(s int) {
			defer wg.Done()
			bin := bins[s/shardsPerVariant]
			prefix := filepath.Join(work, fmt.Sprintf("s%d", s))
			rapidSeed := 1 + seed*1000 + s%shardsPerVariant
			args := []string{"-test.run", "^TestProp$", "-test.timeout", fmt.Sprintf("%ds", ts.Timeout),
				fmt.Sprintf("-rapid.checks=%d", perShard), fmt.Sprintf("-rapid.seed=%d", rapidSeed), "-rapid.nofailfile", "-rapid.shrinktime=20s"}
			e := []string{"VERIF_PROP=" + spec.ID, "VERIF_TIER=" + tier, "VERIF_OUT=" + prefix, fmt.Sprintf("VERIF_SHARD=%d", s%shardsPerVariant),
				fmt.Sprintf("VERIF_SHARDS=%d", shardsPerVariant), fmt.Sprintf("VERIF_SEED=%d", seed), fmt.Sprintf("VERIF_CHECKS=%d", perShard),
				"VERIF_BUILD_TAGS=" + variants[s/shardsPerVariant]}
			if spec.Race {
				// a detected data race ends the shard at once; the case in progress is in its journal
				e = append(e, "GORACE=halt_on_error=1 exitcode=66")
			}
			exit, out, to := runProcess(bin, args, e, time.Duration(ts.Timeout+90)*time.Second, spec.RlimitAS)
			results[s] = shardResult{shard: s, exit: exit, output: out, timedOut: to}
		}(s)
	}
	wg.Wait()

	for _, r := range results {
		prefix := filepath.Join(work, fmt.Sprintf("s%d", r.shard))
		dst := filepath.Join(replayDir, fmt.Sprintf("%s-%s-seed%d-s%d.json", spec.ID, tier, seed, r.shard))
		if r.exit == 0 && !r.timedOut {
			continue
		}
		if _, err := os.Stat(prefix + ".replay"); err == nil {
			copyFile(prefix+".replay", dst)
			violations = append(violations, dst)
			fmt.Printf("--- shard %d output (tail) ---\n%s\n", r.shard, tail(r.output, 12))
			continue
		}
		if strings.Contains(r.output, "panic: test timed out after") {
			// budget hit (the case in the journal is merely the one that was running): inconclusive, never a violation
			fmt.Printf("NOTE shard %d hit its time budget (inconclusive)\n", r.shard)
			continue
		}
		if jb, err := os.ReadFile(prefix + ".journal"); err == nil && len(jb) > 0 {
			// the process died (or was killed after wedging) while executing this case
			kind := "died"
			if r.timedOut {
				kind = "wedged"
			}
			rf := map[string]interface{}{"property": spec.ID, "kind": kind, "error": "process " + kind + " while executing this case: " + raceOrTail(r.output), "case": json.RawMessage(jb)}
			b, _ := json.MarshalIndent(rf, "", " ")
			os.WriteFile(dst, b, 0o644)
			violations = append(violations, dst)
			fmt.Printf("--- shard %d %s (tail) ---\n%s\n", r.shard, kind, tail(r.output, 25))
			continue
		}
		if strings.Contains(r.output, "test timed out") || r.timedOut {
			// budget hit outside a case: inconclusive, never a violation
			fmt.Printf("NOTE shard %d hit its time budget (inconclusive)\n", r.shard)
			continue
		}
		infra = append(infra, fmt.Sprintf("shard %d exit=%d: %s", r.shard, r.exit, tail(r.output, 20)))
	}

	// 3. coverage-guided native fuzzing (thorough tier only; cannot be seeded, so it is never part of quick)
	fuzzExecs, fuzzInteresting := int64(-1), int64(0)
	if tier == "thorough" && spec.FuzzTime > 0 && len(violations) == 0 {
		os.RemoveAll(filepath.Join(root, "props", "testdata", "fuzz"))
		// the fuzz target has one name for all properties: start from an empty cached corpus so that one
		// property's inputs are not replayed as another's
		if gc, err := exec.Command("go", "env", "GOCACHE").Output(); err == nil && strings.TrimSpace(string(gc)) != "" {
			os.RemoveAll(filepath.Join(strings.TrimSpace(string(gc)), "fuzz", "verif", "props", "FuzzProp"))
		}
		prefix := filepath.Join(work, "fuzz")
		args := []string{"test", "-vet=off", "-run", "^$", "-fuzz", "^FuzzProp$", "-fuzztime", fmt.Sprintf("%ds", spec.FuzzTime), "./props"}
		cmd := exec.Command("go", args...)
		cmd.Dir = root
		cmd.Env = append(env(), "VERIF_PROP="+spec.ID, "VERIF_TIER=thorough", "VERIF_OUT="+prefix, fmt.Sprintf("VERIF_SEED=%d", seed))
		cmd.SysProcAttr = &syscall.SysProcAttr{Setpgid: true}
		var buf bytes.Buffer
		cmd.Stdout, cmd.Stderr = &buf, &buf
		done := make(chan error, 1)
		if err := cmd.Start(); err == nil {
			go func() { done <- cmd.Wait() }()
			var werr error
			select {
			case werr = <-done:
			case <-time.After(time.Duration(spec.FuzzTime+420) * time.Second):
				syscall.Kill(-cmd.Process.Pid, syscall.SIGKILL)
				<-done
				fmt.Println("NOTE native fuzzing hit its time budget (inconclusive)")
			}
			out := buf.String()
			for _, line := range strings.Split(out, "\n") {
				if i := strings.Index(line, "execs: "); i >= 0 {
					var n, k, tot int64
					if _, e := fmt.Sscanf(line[i:], "execs: %d", &n); e == nil && n > fuzzExecs {
						fuzzExecs = n
					}
					if j := strings.Index(line, "new interesting: "); j >= 0 {
						if _, e := fmt.Sscanf(line[j:], "new interesting: %d (total: %d)", &k, &tot); e == nil {
							fuzzInteresting = tot
						}
					}
				}
			}
			if _, err := os.Stat(prefix + ".replay"); err == nil {
				dst := filepath.Join(replayDir, fmt.Sprintf("%s-%s-seed%d-fuzz.json", spec.ID, tier, seed))
				copyFile(prefix+".replay", dst)
				violations = append(violations, dst)
				fmt.Printf("--- native fuzzing found a failing input (tail) ---\n%s\n", tail(out, 15))
			} else if werr != nil && !strings.Contains(out, "context deadline exceeded") {
				// e.g. a fuzz worker that died or was killed: keep what the fuzzer saved and say what it said
				saved := 0
				if files, _ := filepath.Glob(filepath.Join(root, "props", "testdata", "fuzz", "FuzzProp", "*")); len(files) > 0 {
					for _, f := range files {
						copyFile(f, filepath.Join(replayDir, fmt.Sprintf("%s-%s-fuzz-input-%s", spec.ID, tier, filepath.Base(f))))
						saved++
					}
				}
				os.WriteFile(filepath.Join(work, "fuzz.log"), []byte(out), 0o644)
				fmt.Printf("NOTE native fuzzing ended with %v (no failing case recorded; %d raw fuzz inputs saved under replays/, full output in %s)\n%s\n", werr, saved, filepath.Join(work, "fuzz.log"), tail(out, 30))
			}
		}
		os.RemoveAll(filepath.Join(root, "props", "testdata", "fuzz"))
	}

	m := mergeStats(work, ts.Shards)
	if fuzzExecs >= 0 {
		m.Counters["native_fuzz_execs"] = fuzzExecs
		m.Counters["native_fuzz_interesting_inputs"] = fuzzInteresting
		m.Notes = append(m.Notes, fmt.Sprintf("coverage-guided native fuzzing (go test -fuzz FuzzProp, %ds; byte-level where the property has a byte form, otherwise through its generator with rapid.MakeFuzz): %d executions, corpus of %d interesting inputs", spec.FuzzTime, fuzzExecs, fuzzInteresting))
	}
	requested := int64(perShard * ts.Shards)
	if m.Evaluations < requested*9/10 && len(violations) == 0 {
		m.StoppedEarly = true
	}
	writeEvidence(spec, tier, seed, m, len(violations), time.Since(start).Seconds(), known)

	for _, k := range known {
		fmt.Println(k)
	}
	fmt.Printf("SUMMARY property=%s tier=%s seed=%d evaluations=%d distinct_nontrivial=%d wall=%.1fs violations=%d\n",
		spec.ID, tier, seed, m.Evaluations, m.Distinct, time.Since(start).Seconds(), len(violations))
	if len(violations) > 0 {
		sort.Strings(violations)
		for _, v := range violations {
			fmt.Printf("VIOLATION property=%s replay=%s\n", spec.ID, v)
		}
		return 1
	}
	if len(infra) > 0 {
		for _, i := range infra {
			fmt.Fprintln(os.Stderr, "INFRASTRUCTURE:", i)
		}
		return 2
	}
	return 0
}

func writeEvidence(spec *propSpec, tier string, seed int, m mergedStats, violations int, wall float64, known []string) {
	samples := make([]interface{}, 0, len(m.Samples))
	for _, s := range m.Samples {
		if json.Valid(s) {
			samples = append(samples, s) // verbatim (keeps 64-bit integers exact)
		}
	}
	cov := map[string]interface{}{
		"evaluations":               m.Evaluations,
		"distinct_nontrivial":       m.Distinct,
		"nontrivial_evaluations":    m.NonTrivial,
		"rule":                      spec.Rule,
		"samples":                   samples,
		"labels":                    m.Labels,
		"excluded_by_known_finding": m.Excluded,
		"counters":                  m.Counters,
		"stopped_early":             m.StoppedEarly,
		"known_findings_reported":   known,
	}
	if m.Exhaustive {
		cov["exhaustive"] = true
	}
	if len(m.Notes) > 0 {
		cov["notes"] = m.Notes
	}
	evd := map[string]interface{}{
		"property_id": spec.ID,
		"tier":        tier,
		"seed":        seed,
		"level":       spec.Level,
		"coverage":    cov,
		"assumptions": spec.Assumptions,
		"wall_s":      wall,
		"violations":  violations,
	}
	b, _ := json.MarshalIndent(evd, "", " ")
	os.MkdirAll(filepath.Join(root, "evidence"), 0o755)
	if err := os.WriteFile(filepath.Join(root, "evidence", spec.ID+".json"), b, 0o644); err != nil {
		die(2, "writing evidence: %v", err)
	}
}

var _ = io.EOF
