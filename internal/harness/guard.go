package harness

import (
	"bytes"
	"fmt"
	"runtime"
	"runtime/debug"
	"strings"
	"syscall"
	"time"
)

// Outcome of a guarded library call.
type Outcome struct {
	Panic    interface{} // non-nil if the call panicked
	Stack    string
	TimedOut bool
}

func (o Outcome) String() string {
	if o.TimedOut {
		return "did not return within the deadline"
	}
	if o.Panic != nil {
		return fmt.Sprintf("panic: %v\n%s", o.Panic, o.Stack)
	}
	return "returned"
}

// DefaultDeadline for a library call whose normal cost is far below 10 ms.
var DefaultDeadline = 10 * time.Second

// Guard runs f in its own goroutine, converting a panic into a value and enforcing a deadline.
// A goroutine that overruns cannot be killed; the caller is expected to stop the process soon
// (the runner does: see props.fatalHang).
//
// The deadline d is a wall-clock period only for the fast path. This sandbox runs checks at a load
// average of several times the core count (and fresh memory is expensive to touch), so wall time alone
// cannot tell a hang from starvation. After d has passed the call is polled, and it is called a hang
// only when one of these holds:
//   - busy hang: the process has burnt 6*d of CPU time since the call began (a spinning call on an
//     idle machine reaches that after about 6*d of wall time, as before);
//   - blocked hang: for 2*d of consecutive polls the goroutine of the call is parked (channel, lock,
//     wait group ...; a timed sleep is not parked) and no other goroutine of the process is running or runnable, i.e. nothing
//     in the process can ever wake it.
//
// A call that is merely starved keeps being waited for; the shard's own time budget ends that wait and
// is reported as inconclusive by the driver.
func Guard(d time.Duration, f func()) Outcome {
	done := make(chan Outcome, 1)
	gid := make(chan string, 1)
	cpu0 := processCPU()
	go func() {
		var o Outcome
		defer func() {
			if p := recover(); p != nil {
				o.Panic = p
				o.Stack = string(debug.Stack())
			}
			done <- o
		}()
		gid <- goroutineID()
		f()
	}()
	id := <-gid
	timer := time.NewTimer(d)
	defer timer.Stop()
	select {
	case o := <-done:
		return o
	case <-timer.C:
	}
	tick := time.NewTicker(250 * time.Millisecond)
	defer tick.Stop()
	var blockedSince time.Time
	for {
		select {
		case o := <-done:
			return o
		case <-tick.C:
		}
		if processCPU()-cpu0 >= 6*d {
			return Outcome{TimedOut: true}
		}
		if parkedForGood(id) {
			if blockedSince.IsZero() {
				blockedSince = time.Now()
			} else if time.Since(blockedSince) >= 2*d {
				return Outcome{TimedOut: true}
			}
		} else {
			blockedSince = time.Time{}
		}
	}
}

// processCPU is the user+system CPU time consumed by this process so far.
func processCPU() time.Duration {
	var ru syscall.Rusage
	if err := syscall.Getrusage(syscall.RUSAGE_SELF, &ru); err != nil {
		return 0
	}
	return time.Duration(ru.Utime.Nano() + ru.Stime.Nano())
}

// goroutineID returns the "goroutine N" prefix of the calling goroutine's stack header.
func goroutineID() string {
	buf := make([]byte, 64)
	buf = buf[:runtime.Stack(buf, false)]
	if i := bytes.IndexByte(buf, '['); i > 0 {
		return string(buf[:i]) // "goroutine 123 "
	}
	return ""
}

// parkedForGood reports whether goroutine id is parked and no goroutine other than the caller is
// running or runnable.
func parkedForGood(id string) bool {
	if id == "" {
		return false
	}
	buf := make([]byte, 1<<20)
	buf = buf[:runtime.Stack(buf, true)]
	me := goroutineID()
	target := false
	for _, g := range bytes.Split(buf, []byte("\n\n")) {
		if !bytes.HasPrefix(g, []byte("goroutine ")) {
			continue
		}
		open := bytes.IndexByte(g, '[')
		cl := bytes.IndexByte(g, ']')
		if open < 0 || cl < open {
			return false
		}
		head, state := string(g[:open]), string(g[open+1:cl])
		if head == me || bytes.Contains(g, []byte("os/signal.")) {
			continue
		}
		busy := false
		for _, s := range []string{"running", "runnable", "syscall", "sleep", "GC ", "IO wait", "preempted", "copystack", "dead", "idle", "waiting"} {
			if strings.HasPrefix(state, s) {
				busy = true
			}
		}
		if busy {
			return false
		}
		if head == id {
			target = true
		}
	}
	return target
}

// Call runs f inline and converts a panic into an Outcome (no deadline). For calls that cannot hang.
func Call(f func()) (o Outcome) {
	defer func() {
		if p := recover(); p != nil {
			o.Panic = p
			o.Stack = string(debug.Stack())
		}
	}()
	f()
	return
}
