package harness

import (
	"fmt"
	"runtime/debug"
	"time"
)

// Outcome of a guarded library call.
type Outcome struct {
	Panic    interface{} // non-nil if the call panicked
	Stack    string
	TimedOut bool
}

func (o Outcome) String() string {
	if o.TimedOut {
		return "did not return within the deadline"
	}
	if o.Panic != nil {
		return fmt.Sprintf("panic: %v\n%s", o.Panic, o.Stack)
	}
	return "returned"
}

// DefaultDeadline for a library call whose normal cost is far below 10 ms.
var DefaultDeadline = 10 * time.Second

// Guard runs f in its own goroutine, converting a panic into a value and enforcing a deadline.
// A goroutine that overruns cannot be killed; the caller is expected to stop the process soon
// (the runner does: see props.fatalHang).
func Guard(d time.Duration, f func()) Outcome {
	done := make(chan Outcome, 1)
	go func() {
		var o Outcome
		defer func() {
			if p := recover(); p != nil {
				o.Panic = p
				o.Stack = string(debug.Stack())
			}
			done <- o
		}()
		f()
	}()
	timer := time.NewTimer(d)
	defer timer.Stop()
	select {
	case o := <-done:
		return o
	case <-timer.C:
		// give it five more periods: on a heavily loaded machine (load average of several times the
		// core count while other checks run) a call that is merely slow - fresh memory is expensive to
		// touch in this sandbox - must not be called a hang. A call that really spins costs 60 s once.
		timer2 := time.NewTimer(5 * d)
		defer timer2.Stop()
		select {
		case o := <-done:
			return o
		case <-timer2.C:
			return Outcome{TimedOut: true}
		}
	}
}

// Call runs f inline and converts a panic into an Outcome (no deadline). For calls that cannot hang.
func Call(f func()) (o Outcome) {
	defer func() {
		if p := recover(); p != nil {
			o.Panic = p
			o.Stack = string(debug.Stack())
		}
	}()
	f()
	return
}
