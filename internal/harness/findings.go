package harness

import (
	"encoding/json"
	"os"
	"path/filepath"
)

// Finding is one entry of /verif/known_findings.json. The file is read-only at run time.
type Finding struct {
	Property string `json:"property"`
	Key      string `json:"key"`    // root-cause key, shared by every property the defect is visible under
	Status   string `json:"status"` // "open" | "fixed"
	What     string `json:"what"`
	Replay   string `json:"replay,omitempty"` // path relative to /verif of the stored failing case
	Commit   string `json:"commit,omitempty"` // for fixed entries
	Line     string `json:"line,omitempty"`   // for fixed entries: the "fixed: property=<id> <commit> <what failed>" record
}

type findingsFile struct {
	Findings []Finding `json:"findings"`
}

var loaded []Finding
var loadedOK bool

func Root() string {
	if r := os.Getenv("VERIF_ROOT"); r != "" {
		return r
	}
	return "/verif"
}

func Findings() []Finding {
	if !loadedOK {
		loadedOK = true
		b, err := os.ReadFile(filepath.Join(Root(), "known_findings.json"))
		if err == nil {
			var f findingsFile
			if err := json.Unmarshal(b, &f); err != nil {
				panic("known_findings.json: " + err.Error())
			}
			loaded = f.Findings
		}
	}
	return loaded
}

// Open reports whether a root-cause key is listed as open (for any property). Generators use it to
// steer away from exactly the matching region, counting what they excluded.
func Open(key string) bool {
	if os.Getenv("VERIF_IGNORE_FINDINGS") == "1" {
		return false
	}
	for _, f := range Findings() {
		if f.Key == key && f.Status == "open" {
			return true
		}
	}
	return false
}

func OpenFor(prop string) []Finding {
	var out []Finding
	for _, f := range Findings() {
		if f.Property == prop && f.Status == "open" {
			out = append(out, f)
		}
	}
	return out
}
