// Package harness: per-process statistics, watchdog, known-findings registry.
package harness

import (
	"encoding/binary"
	"encoding/json"
	"hash/fnv"
	"os"
	"sort"
	"sync"
)

// Stats is what one shard (process) measured. The driver merges shards.
type Stats struct {
	Property     string            `json:"property"`
	Evaluations  int64             `json:"evaluations"`
	NonTrivial   int64             `json:"nontrivial_evaluations"`
	Labels       map[string]int64  `json:"labels"`
	Excluded     map[string]int64  `json:"excluded_by_known_finding"`
	Counters     map[string]int64  `json:"counters"`
	Samples      []json.RawMessage `json:"samples"`
	Exhaustive   bool              `json:"exhaustive,omitempty"`
	Notes        []string          `json:"notes,omitempty"`
	StoppedEarly bool              `json:"stopped_early,omitempty"`
	// BulkDistinct counts non-trivial cases of an enumeration (distinct by construction, not hashed).
	BulkDistinct int64 `json:"bulk_distinct,omitempty"`

	mu          sync.Mutex
	hashes      map[uint64]struct{}
	sampleEvery int64
}

const maxSamples = 8

func NewStats(prop string) *Stats {
	return &Stats{Property: prop, Labels: map[string]int64{}, Excluded: map[string]int64{}, Counters: map[string]int64{}, hashes: map[uint64]struct{}{}, sampleEvery: 1}
}

func Hash(b []byte) uint64 {
	h := fnv.New64a()
	h.Write(b)
	return h.Sum64()
}

// Case records one evaluated case. caseJSON is the canonical serialisation of the generated case.
func (s *Stats) Case(caseJSON []byte, nontrivial bool, labels []string) {
	s.mu.Lock()
	defer s.mu.Unlock()
	s.Evaluations++
	for _, l := range labels {
		s.Labels[l]++
	}
	if nontrivial {
		s.NonTrivial++
		s.hashes[Hash(caseJSON)] = struct{}{}
		// keep a spread of samples: the first few, then exponentially rarer ones replace round-robin
		if len(caseJSON) < 6000 {
			if len(s.Samples) < maxSamples {
				s.Samples = append(s.Samples, append(json.RawMessage(nil), caseJSON...))
			} else if s.NonTrivial%s.sampleEvery == 0 {
				s.Samples[int(s.NonTrivial/s.sampleEvery)%maxSamples] = append(json.RawMessage(nil), caseJSON...)
				s.sampleEvery *= 2
			}
		}
	}
}

// Bulk records cases of a deterministic enumeration: every enumerated case is distinct by construction.
func (s *Stats) Bulk(evaluations, nontrivialDistinct int64) {
	s.mu.Lock()
	s.Evaluations += evaluations
	s.NonTrivial += nontrivialDistinct
	s.BulkDistinct += nontrivialDistinct
	s.mu.Unlock()
}

// AddSample stores a literal sample (any JSON-serialisable value) if there is room.
func (s *Stats) AddSample(v interface{}) {
	s.mu.Lock()
	defer s.mu.Unlock()
	if len(s.Samples) < maxSamples {
		if b, err := json.Marshal(v); err == nil {
			s.Samples = append(s.Samples, b)
		}
	}
}

func (s *Stats) SetExhaustive() {
	s.mu.Lock()
	s.Exhaustive = true
	s.mu.Unlock()
}

func (s *Stats) Exclude(key string) {
	s.mu.Lock()
	s.Excluded[key]++
	s.mu.Unlock()
}

func (s *Stats) Count(key string, n int64) {
	s.mu.Lock()
	s.Counters[key] += n
	s.mu.Unlock()
}

func (s *Stats) Note(n string) {
	s.mu.Lock()
	s.Notes = append(s.Notes, n)
	s.mu.Unlock()
}

// Dump writes <path>.json (counters) and <path>.hashes (sorted uint64 LE).
func (s *Stats) Dump(path string) error {
	s.mu.Lock()
	defer s.mu.Unlock()
	js, err := json.Marshal(s)
	if err != nil {
		return err
	}
	if err := os.WriteFile(path+".json", js, 0o644); err != nil {
		return err
	}
	hs := make([]uint64, 0, len(s.hashes))
	for h := range s.hashes {
		hs = append(hs, h)
	}
	sort.Slice(hs, func(i, j int) bool { return hs[i] < hs[j] })
	buf := make([]byte, 8*len(hs))
	for i, h := range hs {
		binary.LittleEndian.PutUint64(buf[i*8:], h)
	}
	return os.WriteFile(path+".hashes", buf, 0o644)
}
