package harness

import (
	"sync"
	"testing"
	"time"
)

func TestGuardBlocked(t *testing.T) {
	st := time.Now()
	o := Guard(200*time.Millisecond, func() { select {} })
	if !o.TimedOut {
		t.Fatal("blocked call not detected")
	}
	t.Log("blocked detected after", time.Since(st))
	var wg sync.WaitGroup
	wg.Add(1)
	o = Guard(200*time.Millisecond, func() { wg.Wait() })
	if !o.TimedOut {
		t.Fatal("waitgroup block not detected")
	}
}

func TestGuardSlowButReturns(t *testing.T) {
	o := Guard(100*time.Millisecond, func() { time.Sleep(900 * time.Millisecond) })
	if o.TimedOut {
		t.Fatal("a call that sleeps and returns is not a hang")
	}
}

func TestGuardPanic(t *testing.T) {
	o := Guard(time.Second, func() { panic("x") })
	if o.Panic == nil {
		t.Fatal("panic lost")
	}
}

func TestGuardZBusy(t *testing.T) {
	st := time.Now()
	o := Guard(200*time.Millisecond, func() {
		for {
		}
	})
	if !o.TimedOut {
		t.Fatal("spin not detected")
	}
	t.Log("spin detected after", time.Since(st))
}
