package model

import (
	"unicode"
	"unicode/utf8"

	"verif/internal/ev"
)

// M-MARK: reference model for marker / local-reference consistency over a whole event stream (C13).
// Accept iff: every identifier is valid (non-empty, <= maxIDLen bytes, characters from the identifier
// class); marker identifiers are unique; a marker is followed by a markable object (not a marker, a
// reference, a record type, a remote reference, nor the end of a container / document); every reference
// names a marker defined somewhere in the document; a reference in map-key position names a keyable
// object.

type MarkVerdict struct {
	Accept bool
	Reason string
	// features for labelling
	ForwardRefs int
	KeyRefs     int
	Markers     int
	Refs        int
}

// IdentifierValid: letters, marks, numbers, '_' '.' '-' and format characters (the CE identifier class).
func IdentifierValid(id []byte, maxLen int) bool {
	if len(id) == 0 || len(id) > maxLen {
		return false
	}
	if !utf8.Valid(id) {
		return false
	}
	for _, r := range string(id) {
		switch {
		case r == '_' || r == '.' || r == '-':
		case unicode.IsLetter(r) || unicode.IsMark(r) || unicode.IsNumber(r) || unicode.Is(unicode.Cf, r):
		default:
			return false
		}
	}
	return true
}

type mframe struct {
	kind  ev.Kind // List, Map, Edge, Node, Record, RecordType
	isKey bool    // for maps: next value is a key
}

type markedClass uint8

const (
	mcKeyable markedClass = iota
	mcNonKeyable
)

func CheckMarkers(evs []ev.Event, maxIDLen int) MarkVerdict {
	v := MarkVerdict{}
	reject := func(r string) MarkVerdict { v.Accept = false; v.Reason = r; return v }
	markers := map[string]markedClass{}
	type ref struct {
		id    string
		inKey bool
		pos   int
	}
	var refs []ref
	markerPos := map[string]int{}
	var stack []mframe
	pending := false
	pendingID := ""
	pendingInKey := false
	inArray := false
	arrayKeyable := false
	chunkMore := false
	chunkRem := uint64(0)
	// valueDone advances key/value alternation in the innermost map
	valueDone := func() {
		if len(stack) > 0 && stack[len(stack)-1].kind == ev.Map {
			stack[len(stack)-1].isKey = !stack[len(stack)-1].isKey
		}
	}
	inKeyPos := func() bool {
		return len(stack) > 0 && stack[len(stack)-1].kind == ev.Map && stack[len(stack)-1].isKey
	}
	// containers that were marked: remember to register the marker class (non-keyable) — registration at
	// begin is fine for the model (uniqueness and existence do not depend on the moment).
	mark := func(cls markedClass) string {
		if !pending {
			return ""
		}
		pending = false
		if _, dup := markers[pendingID]; dup {
			return "duplicate marker " + pendingID
		}
		markers[pendingID] = cls
		v.Markers++
		return ""
	}
	for i := range evs {
		e := &evs[i]
		if inArray {
			switch e.K {
			case ev.ArrayChunk:
				chunkRem = e.U
				chunkMore = e.B
				if e.U == 0 && !e.B {
					inArray = false
					valueDone()
				}
			case ev.ArrayData:
				// byte accounting is C11's business; assume well-formed chunks here
				_ = chunkRem
				if !chunkMore {
					// the array ends when the final chunk's data is complete; the generator delivers
					// complete chunks, so look ahead: next event not ArrayData/ArrayChunk ends it
					if i+1 >= len(evs) || (evs[i+1].K != ev.ArrayData && evs[i+1].K != ev.ArrayChunk) {
						inArray = false
						valueDone()
					}
				}
			default:
				return reject("non-array event inside array")
			}
			_ = arrayKeyable
			continue
		}
		switch e.K {
		case ev.BD, ev.Version, ev.ED, ev.Comment, ev.Padding, ev.Error:
			if pending && (e.K == ev.ED || e.K == ev.Comment) {
				return reject("marker not followed by an object")
			}
			continue
		case ev.Marker:
			if !IdentifierValid(e.Bs, maxIDLen) {
				return reject("invalid marker id")
			}
			if pending {
				return reject("marker on marker")
			}
			pending = true
			pendingID = string(e.Bs)
			pendingInKey = inKeyPos()
			markerPos[pendingID] = i
			continue
		case ev.RefLocal:
			if !IdentifierValid(e.Bs, maxIDLen) {
				return reject("invalid reference id")
			}
			if pending {
				return reject("marker on reference")
			}
			refs = append(refs, ref{string(e.Bs), inKeyPos(), i})
			v.Refs++
			valueDone()
			continue
		case ev.RecordType:
			if pending {
				return reject("marker on record type")
			}
			stack = append(stack, mframe{kind: ev.RecordType})
			continue
		case ev.End:
			if pending {
				return reject("marker not followed by an object")
			}
			if len(stack) == 0 {
				return reject("unbalanced end")
			}
			top := stack[len(stack)-1]
			stack = stack[:len(stack)-1]
			if top.kind != ev.RecordType {
				valueDone()
			}
			continue
		}
		// a value begins here
		cls := mcNonKeyable
		switch e.K {
		case ev.Int, ev.PInt, ev.NInt, ev.BigInt, ev.Boolean, ev.True, ev.False, ev.UID, ev.Time:
			cls = mcKeyable
			if e.K == ev.BigInt && e.Big == nil {
				cls = mcNonKeyable
			}
		case ev.Array, ev.StringArray, ev.ArrayBegin:
			if e.AT == 1 || e.AT == 2 { // string, resource id
				cls = mcKeyable
			}
			if e.AT == 3 && pending { // remote reference
				return reject("marker on remote reference")
			}
		}
		_ = pendingInKey
		if r := mark(cls); r != "" {
			return reject(r)
		}
		switch e.K {
		case ev.List, ev.Map, ev.Edge, ev.Node, ev.Record:
			stack = append(stack, mframe{kind: e.K, isKey: e.K == ev.Map})
		case ev.ArrayBegin, ev.MediaBegin, ev.CustomBegin:
			inArray = true
			chunkMore = true
		default:
			valueDone()
		}
	}
	for _, r := range refs {
		cls, ok := markers[r.id]
		if !ok {
			return reject("reference to unknown marker " + r.id)
		}
		if r.inKey {
			v.KeyRefs++
			if cls != mcKeyable {
				return reject("key reference to non-keyable object " + r.id)
			}
		}
		if markerPos[r.id] > r.pos {
			v.ForwardRefs++
		}
	}
	v.Accept = true
	return v
}
