// Package model holds the reference models (written from the property statements, not from the code).
package model

// M-RULES: reference push-down automaton for the structural well-formedness of an event sequence (C10).

type SymKind uint8

const (
	SBD SymKind = iota
	SVersion
	SED
	SNull
	SKeyable    // keyable scalar (KeyID tells its identity)
	SNonKeyable // non-keyable scalar or array (float, nan, typed array, media, ...)
	SList
	SMap
	SEdge
	SNode
	SEnd
	SRecordType
	SRecord
	SMarker // a marker (fresh identifier); transparent: the next symbol must be a value, which is then offered as usual
)

type Sym struct {
	Kind    SymKind
	Version uint64
	Name    string // record type / record name
	KeyID   string // identity for keyable values
}

type frameKind uint8

const (
	fList frameKind = iota
	fMapKey
	fMapValue
	fEdge
	fNode
	fRecord
	fRecType
)

type frame struct {
	kind  frameKind
	keys  map[string]bool
	pos   int // edge position 0..3; node: 0 = value pending, 1 = children; record: values so far
	arity int
	name  string
}

type phase uint8

const (
	pStart phase = iota
	pAwaitVersion
	pTop
	pAwaitEnd
	pDone
)

type Rules struct {
	phase         phase
	pendingMarker bool
	stack         []frame
	types         map[string]int
}

func NewRules() *Rules { return &Rules{types: map[string]int{}} }

func (r *Rules) Clone() *Rules {
	c := &Rules{phase: r.phase, pendingMarker: r.pendingMarker, types: make(map[string]int, len(r.types))}
	for k, v := range r.types {
		c.types[k] = v
	}
	c.stack = make([]frame, len(r.stack))
	for i, f := range r.stack {
		c.stack[i] = f
		if f.keys != nil {
			c.stack[i].keys = make(map[string]bool, len(f.keys))
			for k := range f.keys {
				c.stack[i].keys[k] = true
			}
		}
	}
	return c
}

func (r *Rules) Depth() int { return len(r.stack) }
func (r *Rules) Done() bool { return r.phase == pDone }

// TopFrame describes the innermost open container for generators ("" when none).
func (r *Rules) TopFrame() string {
	if len(r.stack) == 0 {
		switch r.phase {
		case pStart:
			return "start"
		case pAwaitVersion:
			return "version"
		case pTop:
			return "top"
		case pAwaitEnd:
			return "awaitend"
		}
		return "done"
	}
	f := r.stack[len(r.stack)-1]
	switch f.kind {
	case fList:
		return "list"
	case fMapKey:
		return "mapkey"
	case fMapValue:
		return "mapvalue"
	case fEdge:
		return [...]string{"edge0", "edge1", "edge2", "edge3"}[f.pos]
	case fNode:
		return [...]string{"node0", "node1"}[f.pos]
	case fRecord:
		if f.pos == f.arity {
			return "recordfull"
		}
		return "record"
	}
	return "rectype"
}

func (r *Rules) TypeNames() map[string]int { return r.types }
func (r *Rules) UsedKeys() map[string]bool {
	if len(r.stack) == 0 {
		return nil
	}
	return r.stack[len(r.stack)-1].keys
}

// Step offers one symbol; false = the sequence is invalid at this symbol.
func (r *Rules) Step(s Sym) bool {
	if r.pendingMarker {
		switch s.Kind {
		case SNull, SKeyable, SNonKeyable, SList, SMap, SEdge, SNode, SRecord:
			r.pendingMarker = false
		default:
			return false // a marker must be followed by the object it marks
		}
	}
	if s.Kind == SMarker {
		if r.phase != pTop {
			return false
		}
		if len(r.stack) > 0 {
			f := r.stack[len(r.stack)-1]
			if (f.kind == fEdge && f.pos >= 3) || (f.kind == fRecord && f.pos >= f.arity) || f.kind == fRecType {
				return false
			}
		}
		r.pendingMarker = true
		return true
	}
	switch s.Kind {
	case SBD:
		if r.phase != pStart {
			return false
		}
		r.phase = pAwaitVersion
		return true
	case SVersion:
		if r.phase != pAwaitVersion || s.Version != 0 {
			return false
		}
		r.phase = pTop
		return true
	case SED:
		if r.phase != pAwaitEnd || len(r.stack) != 0 {
			return false
		}
		r.phase = pDone
		return true
	case SEnd:
		return r.end()
	case SRecordType:
		if r.phase != pTop || len(r.stack) != 0 {
			return false
		}
		if _, dup := r.types[s.Name]; dup {
			return false
		}
		r.stack = append(r.stack, frame{kind: fRecType, keys: map[string]bool{}, name: s.Name})
		return true
	}
	// a value
	if r.phase != pTop {
		return false
	}
	if s.Kind == SRecord {
		if _, ok := r.types[s.Name]; !ok {
			return false
		}
	}
	if !r.acceptValue(s) {
		return false
	}
	switch s.Kind {
	case SList:
		r.stack = append(r.stack, frame{kind: fList})
	case SMap:
		r.stack = append(r.stack, frame{kind: fMapKey, keys: map[string]bool{}})
	case SEdge:
		r.stack = append(r.stack, frame{kind: fEdge})
	case SNode:
		r.stack = append(r.stack, frame{kind: fNode})
	case SRecord:
		r.stack = append(r.stack, frame{kind: fRecord, arity: r.types[s.Name]})
	default:
		if len(r.stack) > 0 {
			f := &r.stack[len(r.stack)-1]
			if f.kind == fMapKey || f.kind == fRecType {
				f.keys[s.KeyID] = true
			}
		}
		r.delivered()
	}
	return true
}

// acceptValue checks whether the current position can take this value (without advancing).
func (r *Rules) acceptValue(s Sym) bool {
	if len(r.stack) == 0 {
		return true // top level (phase checked by caller)
	}
	f := &r.stack[len(r.stack)-1]
	switch f.kind {
	case fList:
		return true
	case fMapKey, fRecType:
		if s.Kind != SKeyable {
			return false
		}
		if f.keys[s.KeyID] {
			return false
		}
		return true
	case fMapValue:
		return true
	case fEdge:
		switch f.pos {
		case 0, 2:
			return s.Kind != SNull
		case 1:
			return true
		}
		return false
	case fNode:
		return true
	case fRecord:
		return f.pos < f.arity
	}
	return false
}

// delivered advances the innermost frame after a complete value (scalar, or a container that just closed).
// For map-key / record-type frames the key identity was recorded by the caller via noteKey.
func (r *Rules) delivered() {
	if len(r.stack) == 0 {
		r.phase = pAwaitEnd
		return
	}
	f := &r.stack[len(r.stack)-1]
	switch f.kind {
	case fMapKey:
		f.kind = fMapValue
	case fMapValue:
		f.kind = fMapKey
	case fEdge:
		f.pos++
	case fNode:
		f.pos = 1
	case fRecord:
		f.pos++
	}
}

func (r *Rules) end() bool {
	if len(r.stack) == 0 {
		return false
	}
	f := r.stack[len(r.stack)-1]
	switch f.kind {
	case fMapValue:
		return false
	case fEdge:
		if f.pos != 3 {
			return false
		}
	case fNode:
		if f.pos != 1 {
			return false
		}
	case fRecord:
		if f.pos != f.arity {
			return false
		}
	}
	r.stack = r.stack[:len(r.stack)-1]
	if f.kind == fRecType {
		r.types[f.name] = len(f.keys)
		return true // phase stays pTop, not a value
	}
	r.delivered()
	return true
}
