// Package canon turns a (validator-accepted) event list into a document tree and defines the
// equivalence used by the round-trip properties (DESIGN §3.2).
package canon

import (
	"bytes"
	"fmt"
	"math"
	"math/big"
	"sort"

	"github.com/cockroachdb/apd/v2"
	compact_time "github.com/kstenerud/go-compact-time"
	"github.com/kstenerud/go-concise-encoding/ce/events"

	"verif/internal/ev"
)

type NodeKind uint8

const (
	KNull NodeKind = iota
	KBool
	KNum
	KUID
	KTime
	KList
	KMap
	KRecord
	KRecordType
	KEdge
	KNodeC // the CE "node" container
	KArray
	KMedia
	KCustom
	KRef
	KComment
	KPadding
	KDoc
)

var kindNames = [...]string{"null", "bool", "num", "uid", "time", "list", "map", "record", "recordtype", "edge", "node", "array", "media", "custom", "ref", "comment", "padding", "doc"}

func (k NodeKind) String() string { return kindNames[k] }

// NumClass classifies numeric leaves.
type NumClass uint8

const (
	NZero   NumClass = iota // Neg tells the sign
	NInf                    // Neg tells the sign
	NNan                    // Sig tells signalling
	NDec                    // integer or decimal float: (-1)^Neg * Coeff * 10^Exp, Coeff has no trailing zero
	NBin                    // binary float representable as float64: Bits
	NBigBin                 // binary big float not representable as float64: BF
)

type Num struct {
	Class NumClass
	Neg   bool
	Sig   bool
	Coeff *big.Int
	Exp   int64
	Bits  uint64
	BF    *big.Float
}

type Node struct {
	Kind     NodeKind
	Marker   []byte // non-nil if this object carries a marker
	Bool     bool
	Num      Num
	Bytes    []byte // UID, array data, identifier (record/recordtype/ref), comment text, media data
	Time     compact_time.Time
	AT       events.ArrayType
	Count    uint64 // array element count
	Str      string // media type
	Code     uint64 // custom type code
	Text     bool   // custom text vs binary; comment multiline
	Children []*Node
	// Unordered marks a map whose entry order carries no meaning (a Go map); used by callers that
	// normalise entry order before Diff. Diff itself ignores it.
	Unordered bool
	// Alt is an alternative form the expected side also accepts at this position (e.g. a registered
	// struct written as a map instead of a record). Only consulted on the first argument of Diff.
	Alt *Node
}

// ---------------------------------------------------------------------------------------------

var ten = big.NewInt(10)

func decFromBigInt(v *big.Int) Num {
	if v.Sign() == 0 {
		return Num{Class: NZero}
	}
	c := new(big.Int).Abs(v)
	exp := int64(0)
	q, r := new(big.Int), new(big.Int)
	for {
		q.QuoRem(c, ten, r)
		if r.Sign() != 0 {
			break
		}
		c, q = q, c
		exp++
	}
	return Num{Class: NDec, Neg: v.Sign() < 0, Coeff: c, Exp: exp}
}

func decFromCoeffExp(neg bool, coeff *big.Int, exp int64) Num {
	if coeff.Sign() == 0 {
		return Num{Class: NZero, Neg: neg}
	}
	n := decFromBigInt(coeff)
	n.Neg = neg
	n.Exp += exp
	return n
}

func numFromFloat64(f float64) Num {
	switch {
	case math.IsNaN(f):
		return Num{Class: NNan, Sig: math.Float64bits(f)&(1<<51) == 0}
	case math.IsInf(f, 0):
		return Num{Class: NInf, Neg: f < 0}
	case f == 0:
		return Num{Class: NZero, Neg: math.Signbit(f)}
	}
	return Num{Class: NBin, Bits: math.Float64bits(f)}
}

func NumOf(e *ev.Event) (Num, bool) {
	switch e.K {
	case ev.PInt:
		return decFromBigInt(new(big.Int).SetUint64(e.U)), true
	case ev.NInt:
		if e.U == 0 {
			return Num{Class: NZero, Neg: true}, true
		}
		v := new(big.Int).SetUint64(e.U)
		return decFromBigInt(v.Neg(v)), true
	case ev.Int:
		return decFromBigInt(big.NewInt(e.I)), true
	case ev.BigInt:
		return decFromBigInt(e.Big), true
	case ev.Float:
		return numFromFloat64(e.F), true
	case ev.BigFloat:
		v := e.BF
		if v.IsInf() {
			return Num{Class: NInf, Neg: v.Signbit()}, true
		}
		if v.Sign() == 0 {
			return Num{Class: NZero, Neg: v.Signbit()}, true
		}
		if f, acc := v.Float64(); acc == big.Exact {
			return numFromFloat64(f), true
		}
		return Num{Class: NBigBin, BF: v}, true
	case ev.DFloat:
		d := e.DF
		switch {
		case d.IsNan():
			return Num{Class: NNan, Sig: d.IsSignalingNan()}, true
		case d.IsInfinity():
			return Num{Class: NInf, Neg: d.IsNegativeInfinity()}, true
		case d.IsNegativeZero():
			return Num{Class: NZero, Neg: true}, true
		case d.IsZero():
			return Num{Class: NZero}, true
		}
		c := big.NewInt(d.Coefficient)
		neg := c.Sign() < 0
		c.Abs(c)
		return decFromCoeffExp(neg, c, int64(d.Exponent)), true
	case ev.BigDFloat:
		d := e.BDF
		switch d.Form {
		case apd.NaN:
			return Num{Class: NNan}, true
		case apd.NaNSignaling:
			return Num{Class: NNan, Sig: true}, true
		case apd.Infinite:
			return Num{Class: NInf, Neg: d.Negative}, true
		}
		return decFromCoeffExp(d.Negative, new(big.Int).Set(&d.Coeff), int64(d.Exponent)), true
	case ev.Nan:
		return Num{Class: NNan, Sig: e.B}, true
	}
	return Num{}, false
}

func (n Num) String() string {
	s := ""
	if n.Neg {
		s = "-"
	}
	switch n.Class {
	case NZero:
		return s + "0"
	case NInf:
		return s + "inf"
	case NNan:
		if n.Sig {
			return "snan"
		}
		return "nan"
	case NDec:
		return fmt.Sprintf("%s%se%d", s, n.Coeff.String(), n.Exp)
	case NBin:
		return fmt.Sprintf("bin(%x)", n.Bits)
	case NBigBin:
		return "bigbin(" + n.BF.Text('p', 0) + ")"
	}
	return "?"
}

// NumEqual: exact except for NBigBin where tol (decimal digits of agreement demanded) applies:
// an NBigBin may equal an NDec/NBigBin within relative error 10^(1-digits) where digits derives from
// the big float's precision. tolBig=false demands exactness for NBigBin too.
func NumEqual(a, b Num, tolBig bool) bool {
	if a.Class == NBigBin || b.Class == NBigBin {
		if a.Class == NBigBin && b.Class == NBigBin && !tolBig {
			return a.BF.Cmp(b.BF) == 0
		}
		if !tolBig {
			return false
		}
		ra, ok1 := a.rat()
		rb, ok2 := b.rat()
		if !ok1 || !ok2 {
			return false
		}
		prec := uint(0)
		if a.Class == NBigBin {
			prec = a.BF.Prec()
		}
		if b.Class == NBigBin && (prec == 0 || b.BF.Prec() < prec) {
			prec = b.BF.Prec()
		}
		digits := int(float64(prec)*0.30103) - 1
		if digits < 1 {
			digits = 1
		}
		diff := new(big.Rat).Sub(ra, rb)
		diff.Abs(diff)
		bound := new(big.Rat).Abs(ra)
		scale := new(big.Rat).SetFrac(big.NewInt(1), new(big.Int).Exp(ten, big.NewInt(int64(digits-1)), nil))
		bound.Mul(bound, scale)
		return diff.Cmp(bound) <= 0
	}
	if a.Class != b.Class {
		// A binary float whose value is an integer may come back as that integer (CTE prints 1.0 as
		// 0x1, which the grammar reads as an integer): same value, so equivalent. Fractions stay
		// bit-exact binary floats.
		bin, dec := a, b
		if bin.Class == NDec {
			bin, dec = b, a
		}
		if bin.Class == NBin && dec.Class == NDec && dec.Exp >= 0 && dec.Exp < 400 {
			rb, _ := bin.rat()
			rd, _ := dec.rat()
			return rb.Cmp(rd) == 0
		}
		return false
	}
	switch a.Class {
	case NZero, NInf:
		return a.Neg == b.Neg
	case NNan:
		return a.Sig == b.Sig
	case NDec:
		return a.Neg == b.Neg && a.Exp == b.Exp && a.Coeff.Cmp(b.Coeff) == 0
	case NBin:
		return a.Bits == b.Bits
	}
	return false
}

func (n Num) rat() (*big.Rat, bool) {
	switch n.Class {
	case NZero:
		return new(big.Rat), true
	case NDec:
		if n.Exp > 30000 || n.Exp < -30000 {
			return nil, false
		}
		r := new(big.Rat).SetInt(n.Coeff)
		p := new(big.Int).Exp(ten, big.NewInt(abs64(n.Exp)), nil)
		if n.Exp >= 0 {
			r.Mul(r, new(big.Rat).SetInt(p))
		} else {
			r.Quo(r, new(big.Rat).SetInt(p))
		}
		if n.Neg {
			r.Neg(r)
		}
		return r, true
	case NBin:
		r := new(big.Rat)
		r.SetFloat64(math.Float64frombits(n.Bits))
		return r, true
	case NBigBin:
		if e := n.BF.MantExp(nil); e > 20000 || e < -20000 {
			return nil, false
		}
		r, _ := n.BF.Rat(nil)
		return r, true
	}
	return nil, false
}

func abs64(v int64) int64 {
	if v < 0 {
		return -v
	}
	return v
}

// ---------------------------------------------------------------------------------------------
// Building

type builder struct {
	root    *Node
	stack   []*Node
	marker  []byte
	hasMark bool
	// array under construction
	arr       *Node
	arrMedia  bool
	chunkRem  uint64
	chunkMore bool
	inChunk   bool
	pend      uint64
	// bit arrays: every chunk's data is byte aligned on its own, the array is the bit-wise
	// concatenation of the chunks (a non-final chunk need not hold a multiple of 8 bits)
	bitLen    uint64
	chunkBits uint64
	chunkBuf  []byte
}

func (b *builder) top() *Node { return b.stack[len(b.stack)-1] }

func (b *builder) addValue(n *Node) {
	if b.hasMark && n.Kind != KComment && n.Kind != KPadding {
		n.Marker = b.marker
		if n.Marker == nil {
			n.Marker = []byte{}
		}
		b.hasMark = false
		b.marker = nil
	}
	t := b.top()
	t.Children = append(t.Children, n)
}

func (b *builder) push(n *Node) {
	b.addValue(n)
	b.stack = append(b.stack, n)
}

func elemBits(at events.ArrayType) uint64 { return uint64(at.ElementSize()) }

// Build parses events into a tree. It is tolerant of nothing: a malformed list yields an error
// (the callers only feed validator-accepted lists).
func Build(evs []ev.Event) (doc *Node, err error) {
	defer func() {
		if r := recover(); r != nil {
			err = fmt.Errorf("canon.Build: %v", r)
		}
	}()
	b := &builder{}
	b.root = &Node{Kind: KDoc}
	b.stack = []*Node{b.root}
	for i := range evs {
		e := &evs[i]
		if b.arr != nil {
			switch e.K {
			case ev.ArrayChunk:
				if b.inChunk && b.chunkRem != 0 {
					return nil, fmt.Errorf("event %d: chunk header inside unfinished chunk", i)
				}
				b.chunkRem = e.U
				b.chunkMore = e.B
				b.inChunk = true
				b.chunkBits, b.chunkBuf = e.U, b.chunkBuf[:0]
				if b.arr.Kind == KMedia || b.arr.Kind == KCustom || !b.arrMedia {
					b.arr.Count += e.U
				}
				if e.U == 0 {
					b.inChunk = false
					if !e.B {
						b.finishArray()
					}
				}
			case ev.ArrayData:
				if !b.inChunk {
					return nil, fmt.Errorf("event %d: array data outside chunk", i)
				}
				var got uint64
				if b.arr.Kind == KArray && b.arr.AT == events.ArrayTypeBit {
					b.chunkBuf = append(b.chunkBuf, e.Bs...)
					got = uint64(len(e.Bs)) * 8
					if got > b.chunkRem {
						got = b.chunkRem
					}
					if got == b.chunkRem { // chunk complete: append its bits to the array
						for i := uint64(0); i < b.chunkBits; i++ {
							pos := b.bitLen + i
							if pos/8 >= uint64(len(b.arr.Bytes)) {
								b.arr.Bytes = append(b.arr.Bytes, 0)
							}
							if b.chunkBuf[i/8]>>(i%8)&1 == 1 {
								b.arr.Bytes[pos/8] |= 1 << (pos % 8)
							}
						}
						b.bitLen += b.chunkBits
					}
				} else {
					b.arr.Bytes = append(b.arr.Bytes, e.Bs...)
					w := uint64(1)
					if b.arr.Kind == KArray {
						w = elemBits(b.arr.AT) / 8
					}
					// allow mid-element splits: count bytes
					b.chunkRemBytesConsume(uint64(len(e.Bs)), w)
					got = 0
				}
				if got > 0 {
					b.chunkRem -= got
				}
				if b.chunkRem == 0 {
					b.inChunk = false
					if !b.chunkMore {
						b.finishArray()
					}
				}
			default:
				return nil, fmt.Errorf("event %d: %v inside array", i, e)
			}
			continue
		}
		if n, ok := NumOf(e); ok {
			if (e.K == ev.BigInt && e.Big == nil) || (e.K == ev.BigFloat && e.BF == nil) || (e.K == ev.BigDFloat && e.BDF == nil) {
				b.addValue(&Node{Kind: KNull})
				continue
			}
			b.addValue(&Node{Kind: KNum, Num: n})
			continue
		}
		switch e.K {
		case ev.BD, ev.Version, ev.ED, ev.Error:
		case ev.Padding:
			b.addValue(&Node{Kind: KPadding})
		case ev.Comment:
			b.addValue(&Node{Kind: KComment, Text: e.B, Bytes: e.Bs})
		case ev.Null:
			b.addValue(&Node{Kind: KNull})
		case ev.Boolean:
			b.addValue(&Node{Kind: KBool, Bool: e.B})
		case ev.True:
			b.addValue(&Node{Kind: KBool, Bool: true})
		case ev.False:
			b.addValue(&Node{Kind: KBool, Bool: false})
		case ev.UID:
			b.addValue(&Node{Kind: KUID, Bytes: e.Bs})
		case ev.Time:
			if e.T.IsZeroValue() {
				b.addValue(&Node{Kind: KNull})
			} else {
				b.addValue(&Node{Kind: KTime, Time: e.T})
			}
		case ev.List:
			b.push(&Node{Kind: KList})
		case ev.Map:
			b.push(&Node{Kind: KMap})
		case ev.Edge:
			b.push(&Node{Kind: KEdge})
		case ev.Node:
			b.push(&Node{Kind: KNodeC})
		case ev.RecordType:
			b.push(&Node{Kind: KRecordType, Bytes: e.Bs})
		case ev.Record:
			b.push(&Node{Kind: KRecord, Bytes: e.Bs})
		case ev.End:
			if len(b.stack) <= 1 {
				return nil, fmt.Errorf("event %d: unbalanced end", i)
			}
			b.stack = b.stack[:len(b.stack)-1]
		case ev.Marker:
			if b.hasMark {
				return nil, fmt.Errorf("event %d: marker on marker", i)
			}
			b.hasMark = true
			b.marker = e.Bs
		case ev.RefLocal:
			b.addValue(&Node{Kind: KRef, Bytes: e.Bs})
		case ev.Array:
			b.addValue(&Node{Kind: KArray, AT: e.AT, Count: e.U, Bytes: e.Bs})
		case ev.StringArray:
			b.addValue(&Node{Kind: KArray, AT: e.AT, Count: uint64(len(e.S)), Bytes: []byte(e.S)})
		case ev.Media:
			b.addValue(&Node{Kind: KMedia, Str: e.S, Count: uint64(len(e.Bs)), Bytes: e.Bs})
		case ev.CustomBinary:
			b.addValue(&Node{Kind: KCustom, Code: e.U, Count: uint64(len(e.Bs)), Bytes: e.Bs})
		case ev.CustomText:
			b.addValue(&Node{Kind: KCustom, Text: true, Code: e.U, Count: uint64(len(e.S)), Bytes: []byte(e.S)})
		case ev.ArrayBegin:
			b.arr = &Node{Kind: KArray, AT: e.AT}
		case ev.MediaBegin:
			b.arr = &Node{Kind: KMedia, Str: e.S}
		case ev.CustomBegin:
			b.arr = &Node{Kind: KCustom, Code: e.U, Text: e.AT == events.ArrayTypeCustomText}
		default:
			return nil, fmt.Errorf("event %d: unexpected %v", i, e)
		}
	}
	if b.arr != nil {
		return nil, fmt.Errorf("unfinished array at end of events")
	}
	if len(b.stack) != 1 {
		return nil, fmt.Errorf("unclosed containers at end of events: %d", len(b.stack)-1)
	}
	return b.root, nil
}

// byte-counted consumption for non-bit arrays (w = element width in bytes)

func (b *builder) chunkRemBytesConsume(n uint64, w uint64) {
	total := b.pend + n
	el := total / w
	b.pend = total % w
	if el > b.chunkRem {
		panic(fmt.Sprintf("array data overruns chunk (%d elements left, got %d)", b.chunkRem, el))
	}
	b.chunkRem -= el
	if b.chunkRem == 0 {
		if b.pend != 0 {
			panic("array data overruns chunk by a partial element")
		}
	}
}

func (b *builder) finishArray() {
	b.pend = 0
	b.bitLen = 0
	n := b.arr
	b.arr = nil
	if n.Bytes == nil {
		n.Bytes = []byte{}
	}
	b.addValue(n)
}

// ---------------------------------------------------------------------------------------------
// Options / transformations

type Opts struct {
	DropComments bool
	DropPadding  bool
}

// Strip removes pseudo-nodes per opts (in place) and returns the node.
func Strip(n *Node, o Opts) *Node {
	if len(n.Children) > 0 {
		out := n.Children[:0:0]
		for _, c := range n.Children {
			if (o.DropComments && c.Kind == KComment) || (o.DropPadding && c.Kind == KPadding) {
				continue
			}
			out = append(out, Strip(c, o))
		}
		n.Children = out
	}
	return n
}

// ---------------------------------------------------------------------------------------------
// Equivalence

type EqOpts struct {
	TolBigFloat bool // allow the documented decimal rounding of non-float64 big floats (CBE leg)
	NanKindOnly bool // always true by the property text; kept for clarity
	// FloatArrayNaNKind compares float-array elements one by one and keeps only the quiet/signalling
	// kind of NaN elements (text formats cannot carry NaN payloads).
	FloatArrayNaNKind bool
	// FloatArrayNaNAny: a NaN element equals any NaN element (used where elements pass through Go
	// float conversions that quiet signalling NaNs, e.g. 16-bit floats built as []float32).
	FloatArrayNaNAny bool
}

func timeEq(a, b compact_time.Time) bool {
	if a.Type != b.Type {
		return false
	}
	tzEq := func() bool {
		x, y := a.Timezone, b.Timezone
		if x.Type != y.Type {
			return false
		}
		switch x.Type {
		case compact_time.TimezoneTypeAreaLocation:
			return x.LongAreaLocation == y.LongAreaLocation && x.ShortAreaLocation == y.ShortAreaLocation
		case compact_time.TimezoneTypeLatitudeLongitude:
			return x.LatitudeHundredths == y.LatitudeHundredths && x.LongitudeHundredths == y.LongitudeHundredths
		case compact_time.TimezoneTypeUTCOffset:
			return x.MinutesOffsetFromUTC == y.MinutesOffsetFromUTC
		}
		return true
	}
	switch a.Type {
	case compact_time.TimeTypeDate:
		return a.Year == b.Year && a.Month == b.Month && a.Day == b.Day
	case compact_time.TimeTypeTime:
		return a.Hour == b.Hour && a.Minute == b.Minute && a.Second == b.Second && a.Nanosecond == b.Nanosecond && tzEq()
	default:
		return a.Year == b.Year && a.Month == b.Month && a.Day == b.Day &&
			a.Hour == b.Hour && a.Minute == b.Minute && a.Second == b.Second && a.Nanosecond == b.Nanosecond && tzEq()
	}
}

func markerEq(a, b []byte) bool {
	if (a == nil) != (b == nil) {
		return false
	}
	return bytes.Equal(a, b)
}

// Diff returns "" when the trees are equivalent, else a description of the first difference.
func Diff(a, b *Node, o EqOpts) string { return diff(a, b, o, "$") }

func diff(a, b *Node, o EqOpts, path string) string {
	if a.Kind != b.Kind && a.Alt != nil {
		return diff(a.Alt, b, o, path)
	}
	if a.Kind != b.Kind {
		return fmt.Sprintf("%s: kind %v vs %v (%s vs %s)", path, a.Kind, b.Kind, a.Brief(), b.Brief())
	}
	if !markerEq(a.Marker, b.Marker) {
		return fmt.Sprintf("%s: marker %q vs %q", path, a.Marker, b.Marker)
	}
	switch a.Kind {
	case KBool:
		if a.Bool != b.Bool {
			return fmt.Sprintf("%s: bool %v vs %v", path, a.Bool, b.Bool)
		}
	case KNum:
		if !NumEqual(a.Num, b.Num, o.TolBigFloat) {
			return fmt.Sprintf("%s: number %v vs %v", path, a.Num, b.Num)
		}
	case KUID, KRef:
		if !bytes.Equal(a.Bytes, b.Bytes) {
			return fmt.Sprintf("%s: %v %x vs %x", path, a.Kind, a.Bytes, b.Bytes)
		}
	case KTime:
		if !timeEq(a.Time, b.Time) {
			return fmt.Sprintf("%s: time %v vs %v", path, (&ev.Event{K: ev.Time, T: a.Time}).String(), (&ev.Event{K: ev.Time, T: b.Time}).String())
		}
	case KArray:
		if a.AT != b.AT || a.Count != b.Count || !arrayBytesEq(a.AT, a.Bytes, b.Bytes, o) {
			return fmt.Sprintf("%s: array %s vs %s", path, a.Brief(), b.Brief())
		}
	case KMedia:
		if a.Str != b.Str || !bytes.Equal(a.Bytes, b.Bytes) {
			return fmt.Sprintf("%s: media %s vs %s", path, a.Brief(), b.Brief())
		}
	case KCustom:
		if a.Text != b.Text || a.Code != b.Code || !bytes.Equal(a.Bytes, b.Bytes) {
			return fmt.Sprintf("%s: custom %s vs %s", path, a.Brief(), b.Brief())
		}
	case KComment:
		if a.Text != b.Text || !bytes.Equal(a.Bytes, b.Bytes) {
			return fmt.Sprintf("%s: comment (%v,%q) vs (%v,%q)", path, a.Text, a.Bytes, b.Text, b.Bytes)
		}
	case KRecord, KRecordType:
		if !bytes.Equal(a.Bytes, b.Bytes) {
			return fmt.Sprintf("%s: %v name %q vs %q", path, a.Kind, a.Bytes, b.Bytes)
		}
	}
	if len(a.Children) != len(b.Children) {
		return fmt.Sprintf("%s: %v has %d children vs %d (%s vs %s)", path, a.Kind, len(a.Children), len(b.Children), a.Brief(), b.Brief())
	}
	for i := range a.Children {
		if d := diff(a.Children[i], b.Children[i], o, fmt.Sprintf("%s/%d", path, i)); d != "" {
			return d
		}
	}
	return ""
}

func clip(b []byte) string {
	if len(b) > 40 {
		return fmt.Sprintf("%q..(%d)", b[:40], len(b))
	}
	return fmt.Sprintf("%q", b)
}

// Brief renders a node on one line without recursion beyond a small depth.
func (n *Node) Brief() string { return n.brief(2) }

func (n *Node) brief(depth int) string {
	m := ""
	if n.Marker != nil {
		m = fmt.Sprintf("&%s:", n.Marker)
	}
	switch n.Kind {
	case KNull:
		return m + "null"
	case KBool:
		return fmt.Sprintf("%s%v", m, n.Bool)
	case KNum:
		return m + n.Num.String()
	case KUID:
		return fmt.Sprintf("%suid(%x)", m, n.Bytes)
	case KTime:
		return m + (&ev.Event{K: ev.Time, T: n.Time}).String()
	case KArray:
		return fmt.Sprintf("%s%v[%d]%s", m, n.AT, n.Count, clip(n.Bytes))
	case KMedia:
		return fmt.Sprintf("%smedia(%q,%s)", m, n.Str, clip(n.Bytes))
	case KCustom:
		return fmt.Sprintf("%scustom(text=%v,%d,%s)", m, n.Text, n.Code, clip(n.Bytes))
	case KRef:
		return fmt.Sprintf("$%s", n.Bytes)
	case KComment:
		return fmt.Sprintf("comment(%v,%s)", n.Text, clip(n.Bytes))
	case KPadding:
		return "pad"
	}
	s := m + n.Kind.String()
	if n.Kind == KRecord || n.Kind == KRecordType {
		s += fmt.Sprintf("<%s>", n.Bytes)
	}
	if depth == 0 {
		return s + fmt.Sprintf("(%d…)", len(n.Children))
	}
	s += "("
	for i, c := range n.Children {
		if i > 0 {
			s += " "
		}
		if i >= 12 {
			s += "…"
			break
		}
		s += c.brief(depth - 1)
	}
	return s + ")"
}

// Walk visits every node depth-first.
func Walk(n *Node, f func(*Node)) {
	f(n)
	for _, c := range n.Children {
		Walk(c, f)
	}
}

// SortKey gives a total order key for a (key) node, for multiset comparison of map entries.
func SortKey(n *Node) string { return n.brief(6) }

var _ = sort.Strings

func arrayBytesEq(at events.ArrayType, a, b []byte, o EqOpts) bool {
	if bytes.Equal(a, b) {
		return true
	}
	if !(o.FloatArrayNaNKind || o.FloatArrayNaNAny) || len(a) != len(b) {
		return false
	}
	var w int
	switch at {
	case events.ArrayTypeFloat16:
		w = 2
	case events.ArrayTypeFloat32:
		w = 4
	case events.ArrayTypeFloat64:
		w = 8
	default:
		return false
	}
	for i := 0; i+w <= len(a); i += w {
		x, y := a[i:i+w], b[i:i+w]
		if bytes.Equal(x, y) {
			continue
		}
		var nanX, nanY, quietX, quietY bool
		switch w {
		case 2: // bfloat16: sign(1) exp(8) mantissa(7)
			ux, uy := uint16(x[0])|uint16(x[1])<<8, uint16(y[0])|uint16(y[1])<<8
			nanX, quietX = ux&0x7f80 == 0x7f80 && ux&0x7f != 0, ux&0x40 != 0
			nanY, quietY = uy&0x7f80 == 0x7f80 && uy&0x7f != 0, uy&0x40 != 0
		case 4:
			ux := uint32(x[0]) | uint32(x[1])<<8 | uint32(x[2])<<16 | uint32(x[3])<<24
			uy := uint32(y[0]) | uint32(y[1])<<8 | uint32(y[2])<<16 | uint32(y[3])<<24
			nanX, quietX = ux&0x7f800000 == 0x7f800000 && ux&0x7fffff != 0, ux&0x400000 != 0
			nanY, quietY = uy&0x7f800000 == 0x7f800000 && uy&0x7fffff != 0, uy&0x400000 != 0
		case 8:
			var ux, uy uint64
			for k := 7; k >= 0; k-- {
				ux = ux<<8 | uint64(x[k])
				uy = uy<<8 | uint64(y[k])
			}
			nanX, quietX = ux&0x7ff0000000000000 == 0x7ff0000000000000 && ux&0xfffffffffffff != 0, ux&(1<<51) != 0
			nanY, quietY = uy&0x7ff0000000000000 == 0x7ff0000000000000 && uy&0xfffffffffffff != 0, uy&(1<<51) != 0
		}
		if !(nanX && nanY && (quietX == quietY || o.FloatArrayNaNAny)) {
			return false
		}
	}
	return true
}

// NumFromBigInt / NumFromFloat64 expose the numeric canonicalisation to reference models.
func NumFromBigInt(v *big.Int) Num { return decFromBigInt(v) }
func NumFromFloat64(f float64) Num { return numFromFloat64(f) }

// SortMapPairs sorts the (key, value) pairs of a map node by the key's SortKey. Pseudo-nodes must have
// been stripped.
func SortMapPairs(n *Node) {
	if n.Kind != KMap || len(n.Children)%2 != 0 {
		return
	}
	type pair struct{ k, v *Node }
	ps := make([]pair, 0, len(n.Children)/2)
	for i := 0; i+1 < len(n.Children); i += 2 {
		ps = append(ps, pair{n.Children[i], n.Children[i+1]})
	}
	sort.SliceStable(ps, func(i, j int) bool { return SortKey(ps[i].k) < SortKey(ps[j].k) })
	for i, p := range ps {
		n.Children[2*i], n.Children[2*i+1] = p.k, p.v
	}
}

// ResolveRefs returns a copy of the tree in which every local reference is replaced by (a copy of)
// the object carrying that marker and all markers are removed. References to unknown markers are kept.
// Expansion stops at maxDepth to stay finite on cyclic documents (ok=false then).
func ResolveRefs(root *Node, maxDepth int) (out *Node, ok bool) {
	marked := map[string]*Node{}
	Walk(root, func(n *Node) {
		if n.Marker != nil {
			marked[string(n.Marker)] = n
		}
	})
	ok = true
	var cp func(n *Node, depth int) *Node
	cp = func(n *Node, depth int) *Node {
		if depth > maxDepth {
			ok = false
			return &Node{Kind: KNull}
		}
		if n.Kind == KRef {
			if t, found := marked[string(n.Bytes)]; found {
				return cp(t, depth+1)
			}
		}
		c := *n
		c.Marker = nil
		c.Alt = nil
		c.Children = nil
		for _, ch := range n.Children {
			c.Children = append(c.Children, cp(ch, depth+1))
		}
		return &c
	}
	return cp(root, 0), ok
}

// RecordsToMaps rewrites every record into a map keyed by the field names of its record type and
// removes the record type definitions (in place on a copy).
func RecordsToMaps(root *Node) *Node {
	types := map[string][]*Node{}
	for _, c := range root.Children {
		if c.Kind == KRecordType {
			types[string(c.Bytes)] = c.Children
		}
	}
	var cp func(n *Node) *Node
	cp = func(n *Node) *Node {
		c := *n
		c.Children = nil
		for _, ch := range n.Children {
			if ch.Kind == KRecordType {
				continue
			}
			c.Children = append(c.Children, cp(ch))
		}
		if n.Kind == KRecord {
			keys := types[string(n.Bytes)]
			vals := c.Children
			c.Kind = KMap
			c.Bytes = nil
			c.Children = nil
			for i, v := range vals {
				if i < len(keys) {
					k := *keys[i]
					c.Children = append(c.Children, &k, v)
				}
			}
		}
		return &c
	}
	return cp(root)
}
