package ev

import (
	"bytes"
	"fmt"
	"math"
	"math/big"

	"github.com/cockroachdb/apd/v2"
	compact_float "github.com/kstenerud/go-compact-float"
	compact_time "github.com/kstenerud/go-compact-time"
	"github.com/kstenerud/go-concise-encoding/ce/events"
)

func cp(b []byte) []byte {
	if b == nil {
		return nil
	}
	c := make([]byte, len(b))
	copy(c, b)
	return c
}

func CopyBigInt(v *big.Int) *big.Int {
	if v == nil {
		return nil
	}
	return new(big.Int).Set(v)
}

func CopyBigFloat(v *big.Float) *big.Float {
	if v == nil {
		return nil
	}
	return new(big.Float).Copy(v)
}

func CopyAPD(v *apd.Decimal) *apd.Decimal {
	if v == nil {
		return nil
	}
	d := &apd.Decimal{Form: v.Form, Negative: v.Negative, Exponent: v.Exponent}
	d.Coeff.Set(&v.Coeff)
	return d
}

// Recorder implements events.DataEventReceiver and deep-copies every operand.
type Recorder struct {
	Events []Event
}

func NewRecorder() *Recorder { return &Recorder{} }

func (r *Recorder) add(e Event)                           { r.Events = append(r.Events, e) }
func (r *Recorder) OnBeginDocument()                      { r.add(Event{K: BD}) }
func (r *Recorder) OnEndDocument()                        { r.add(Event{K: ED}) }
func (r *Recorder) OnVersion(v uint64)                    { r.add(Event{K: Version, U: v}) }
func (r *Recorder) OnPadding()                            { r.add(Event{K: Padding}) }
func (r *Recorder) OnComment(m bool, c []byte)            { r.add(Event{K: Comment, B: m, Bs: cp(c)}) }
func (r *Recorder) OnNull()                               { r.add(Event{K: Null}) }
func (r *Recorder) OnBoolean(v bool)                      { r.add(Event{K: Boolean, B: v}) }
func (r *Recorder) OnTrue()                               { r.add(Event{K: True}) }
func (r *Recorder) OnFalse()                              { r.add(Event{K: False}) }
func (r *Recorder) OnPositiveInt(v uint64)                { r.add(Event{K: PInt, U: v}) }
func (r *Recorder) OnNegativeInt(v uint64)                { r.add(Event{K: NInt, U: v}) }
func (r *Recorder) OnInt(v int64)                         { r.add(Event{K: Int, I: v}) }
func (r *Recorder) OnBigInt(v *big.Int)                   { r.add(Event{K: BigInt, Big: CopyBigInt(v)}) }
func (r *Recorder) OnFloat(v float64)                     { r.add(Event{K: Float, F: v}) }
func (r *Recorder) OnBigFloat(v *big.Float)               { r.add(Event{K: BigFloat, BF: CopyBigFloat(v)}) }
func (r *Recorder) OnDecimalFloat(v compact_float.DFloat) { r.add(Event{K: DFloat, DF: v}) }
func (r *Recorder) OnBigDecimalFloat(v *apd.Decimal)      { r.add(Event{K: BigDFloat, BDF: CopyAPD(v)}) }
func (r *Recorder) OnUID(v []byte)                        { r.add(Event{K: UID, Bs: cp(v)}) }
func (r *Recorder) OnNan(s bool)                          { r.add(Event{K: Nan, B: s}) }
func (r *Recorder) OnTime(v compact_time.Time)            { r.add(Event{K: Time, T: v}) }
func (r *Recorder) OnList()                               { r.add(Event{K: List}) }
func (r *Recorder) OnMap()                                { r.add(Event{K: Map}) }
func (r *Recorder) OnRecordType(id []byte)                { r.add(Event{K: RecordType, Bs: cp(id)}) }
func (r *Recorder) OnRecord(id []byte)                    { r.add(Event{K: Record, Bs: cp(id)}) }
func (r *Recorder) OnEdge()                               { r.add(Event{K: Edge}) }
func (r *Recorder) OnNode()                               { r.add(Event{K: Node}) }
func (r *Recorder) OnEndContainer()                       { r.add(Event{K: End}) }
func (r *Recorder) OnMarker(id []byte)                    { r.add(Event{K: Marker, Bs: cp(id)}) }
func (r *Recorder) OnReferenceLocal(id []byte)            { r.add(Event{K: RefLocal, Bs: cp(id)}) }
func (r *Recorder) OnArray(at events.ArrayType, n uint64, d []byte) {
	r.add(Event{K: Array, AT: at, U: n, Bs: cp(d)})
}
func (r *Recorder) OnStringlikeArray(at events.ArrayType, d string) {
	r.add(Event{K: StringArray, AT: at, S: d})
}
func (r *Recorder) OnMedia(mt string, d []byte) { r.add(Event{K: Media, S: mt, Bs: cp(d)}) }
func (r *Recorder) OnCustomBinary(ct uint64, d []byte) {
	r.add(Event{K: CustomBinary, U: ct, Bs: cp(d)})
}
func (r *Recorder) OnCustomText(ct uint64, d string) { r.add(Event{K: CustomText, U: ct, S: d}) }
func (r *Recorder) OnArrayBegin(at events.ArrayType) { r.add(Event{K: ArrayBegin, AT: at}) }
func (r *Recorder) OnMediaBegin(mt string)           { r.add(Event{K: MediaBegin, S: mt}) }
func (r *Recorder) OnCustomBegin(at events.ArrayType, ct uint64) {
	r.add(Event{K: CustomBegin, AT: at, U: ct})
}
func (r *Recorder) OnArrayChunk(n uint64, more bool) { r.add(Event{K: ArrayChunk, U: n, B: more}) }
func (r *Recorder) OnArrayData(d []byte)             { r.add(Event{K: ArrayData, Bs: cp(d)}) }
func (r *Recorder) OnError()                         { r.add(Event{K: Error}) }

var _ events.DataEventReceiver = (*Recorder)(nil)

// Send delivers one event to a receiver. Operands that the interface declares volatile or that are
// pointers are passed as fresh copies so that the receiver can never alias the stored event.
func Send(e *Event, r events.DataEventReceiver) {
	switch e.K {
	case BD:
		r.OnBeginDocument()
	case ED:
		r.OnEndDocument()
	case Version:
		r.OnVersion(e.U)
	case Padding:
		r.OnPadding()
	case Comment:
		{
			b := cp(e.Bs)
			r.OnComment(e.B, b)
			poison(b)
		}
	case Null:
		r.OnNull()
	case Boolean:
		r.OnBoolean(e.B)
	case True:
		r.OnTrue()
	case False:
		r.OnFalse()
	case PInt:
		r.OnPositiveInt(e.U)
	case NInt:
		r.OnNegativeInt(e.U)
	case Int:
		r.OnInt(e.I)
	case BigInt:
		r.OnBigInt(CopyBigInt(e.Big))
	case Float:
		r.OnFloat(e.F)
	case BigFloat:
		r.OnBigFloat(CopyBigFloat(e.BF))
	case DFloat:
		r.OnDecimalFloat(e.DF)
	case BigDFloat:
		r.OnBigDecimalFloat(CopyAPD(e.BDF))
	case UID:
		{
			b := cp(e.Bs)
			r.OnUID(b)
			poison(b)
		}
	case Nan:
		r.OnNan(e.B)
	case Time:
		r.OnTime(e.T)
	case List:
		r.OnList()
	case Map:
		r.OnMap()
	case RecordType:
		{
			b := cp(e.Bs)
			r.OnRecordType(b)
			poison(b)
		}
	case Record:
		{
			b := cp(e.Bs)
			r.OnRecord(b)
			poison(b)
		}
	case Edge:
		r.OnEdge()
	case Node:
		r.OnNode()
	case End:
		r.OnEndContainer()
	case Marker:
		{
			b := cp(e.Bs)
			r.OnMarker(b)
			poison(b)
		}
	case RefLocal:
		{
			b := cp(e.Bs)
			r.OnReferenceLocal(b)
			poison(b)
		}
	case Array:
		{
			b := cp(e.Bs)
			r.OnArray(e.AT, e.U, b)
			poison(b)
		}
	case StringArray:
		r.OnStringlikeArray(e.AT, e.S)
	case Media:
		{
			b := cp(e.Bs)
			r.OnMedia(e.S, b)
			poison(b)
		}
	case CustomBinary:
		{
			b := cp(e.Bs)
			r.OnCustomBinary(e.U, b)
			poison(b)
		}
	case CustomText:
		r.OnCustomText(e.U, e.S)
	case ArrayBegin:
		r.OnArrayBegin(e.AT)
	case MediaBegin:
		r.OnMediaBegin(e.S)
	case CustomBegin:
		r.OnCustomBegin(e.AT, e.U)
	case ArrayChunk:
		r.OnArrayChunk(e.U, e.B)
	case ArrayData:
		{
			b := cp(e.Bs)
			r.OnArrayData(b)
			poison(b)
		}
	case Error:
		r.OnError()
	default:
		panic(fmt.Errorf("ev.Send: unknown kind %d", e.K))
	}
}

// poison overwrites a buffer that was lent to a receiver for the duration of one call: the event interface
// says that byte data must be copied if it is to be stored, and the library's own decoders do reuse their
// buffers, so a receiver that keeps the slice must show.
func poison(b []byte) {
	for i := range b {
		b[i] = 0xa5
	}
}

// Play sends the events one by one and converts a panic (the documented error channel of the
// low-level receivers) into (index of the event that panicked, error). index == -1 means all accepted.
func Play(evs []Event, r events.DataEventReceiver) (index int, err error) {
	index = -1
	i := 0
	defer func() {
		if p := recover(); p != nil {
			index = i
			if e, ok := p.(error); ok {
				err = e
			} else {
				err = fmt.Errorf("%v", p)
			}
		}
	}()
	for i = 0; i < len(evs); i++ {
		Send(&evs[i], r)
	}
	return
}

// ---------------------------------------------------------------------------------------------
// Strict equality (used by C15 and as the fast path elsewhere)

func bigIntEq(a, b *big.Int) bool {
	if a == nil || b == nil {
		return a == b
	}
	return a.Cmp(b) == 0
}

func BigFloatIdentical(a, b *big.Float) bool {
	if a == nil || b == nil {
		return a == b
	}
	if a.IsInf() || b.IsInf() {
		return a.IsInf() == b.IsInf() && a.Signbit() == b.Signbit()
	}
	return a.Prec() == b.Prec() && a.Signbit() == b.Signbit() && a.Cmp(b) == 0
}

func APDIdentical(a, b *apd.Decimal) bool {
	if a == nil || b == nil {
		return a == b
	}
	return a.Form == b.Form && a.Negative == b.Negative && a.Exponent == b.Exponent && a.Coeff.Cmp(&b.Coeff) == 0
}

// StrictEqual compares two events operand by operand (floats by bits).
func StrictEqual(a, b *Event) bool {
	if a.K != b.K {
		return false
	}
	switch a.K {
	case Boolean, Nan:
		return a.B == b.B
	case Comment:
		return a.B == b.B && bytes.Equal(a.Bs, b.Bs)
	case PInt, NInt, Version:
		return a.U == b.U
	case Int:
		return a.I == b.I
	case BigInt:
		return bigIntEq(a.Big, b.Big)
	case Float:
		return math.Float64bits(a.F) == math.Float64bits(b.F)
	case BigFloat:
		return BigFloatIdentical(a.BF, b.BF)
	case DFloat:
		return a.DF == b.DF
	case BigDFloat:
		return APDIdentical(a.BDF, b.BDF)
	case UID, RecordType, Record, Marker, RefLocal, ArrayData:
		return bytes.Equal(a.Bs, b.Bs)
	case Time:
		return a.T == b.T
	case Array:
		return a.AT == b.AT && a.U == b.U && bytes.Equal(a.Bs, b.Bs)
	case StringArray:
		return a.AT == b.AT && a.S == b.S
	case Media:
		return a.S == b.S && bytes.Equal(a.Bs, b.Bs)
	case CustomBinary:
		return a.U == b.U && bytes.Equal(a.Bs, b.Bs)
	case CustomText:
		return a.U == b.U && a.S == b.S
	case ArrayBegin:
		return a.AT == b.AT
	case MediaBegin:
		return a.S == b.S
	case CustomBegin:
		return a.AT == b.AT && a.U == b.U
	case ArrayChunk:
		return a.U == b.U && a.B == b.B
	}
	return true
}

// Clone deep-copies an event list.
func Clone(evs []Event) []Event {
	out := make([]Event, len(evs))
	for i, e := range evs {
		e.Bs = cp(e.Bs)
		e.Big = CopyBigInt(e.Big)
		e.BF = CopyBigFloat(e.BF)
		e.BDF = CopyAPD(e.BDF)
		out[i] = e
	}
	return out
}

// SendRaw is Send without the defensive copies: the receiver sees the event's own operands.
func SendRaw(e *Event, r events.DataEventReceiver) {
	switch e.K {
	case Comment:
		r.OnComment(e.B, e.Bs)
	case BigInt:
		r.OnBigInt(e.Big)
	case BigFloat:
		r.OnBigFloat(e.BF)
	case BigDFloat:
		r.OnBigDecimalFloat(e.BDF)
	case UID:
		r.OnUID(e.Bs)
	case RecordType:
		r.OnRecordType(e.Bs)
	case Record:
		r.OnRecord(e.Bs)
	case Marker:
		r.OnMarker(e.Bs)
	case RefLocal:
		r.OnReferenceLocal(e.Bs)
	case Array:
		r.OnArray(e.AT, e.U, e.Bs)
	case Media:
		r.OnMedia(e.S, e.Bs)
	case CustomBinary:
		r.OnCustomBinary(e.U, e.Bs)
	case ArrayData:
		r.OnArrayData(e.Bs)
	default:
		Send(e, r)
	}
}
