// Package ev holds a plain-value representation of every DataEventReceiver call,
// a deep-copying recorder and a player. It is the common currency of all checks.
package ev

import (
	"encoding/base64"
	"encoding/json"
	"fmt"
	"math"
	"math/big"
	"strconv"

	"github.com/cockroachdb/apd/v2"
	compact_float "github.com/kstenerud/go-compact-float"
	compact_time "github.com/kstenerud/go-compact-time"
	"github.com/kstenerud/go-concise-encoding/ce/events"
)

type Kind uint8

const (
	BD Kind = iota
	ED
	Version
	Padding
	Comment
	Null
	Boolean
	True
	False
	PInt
	NInt
	Int
	BigInt
	Float
	BigFloat
	DFloat
	BigDFloat
	UID
	Nan
	Time
	List
	Map
	RecordType
	Record
	Edge
	Node
	End
	Marker
	RefLocal
	Array
	StringArray
	Media
	CustomBinary
	CustomText
	ArrayBegin
	MediaBegin
	CustomBegin
	ArrayChunk
	ArrayData
	Error
	NumKinds
)

var kindNames = [...]string{"bd", "ed", "v", "pad", "com", "null", "b", "true", "false", "pi", "ni", "i", "bi", "f", "bf", "df", "bdf",
	"uid", "nan", "t", "l", "m", "rt", "rec", "edge", "node", "e", "mark", "ref", "arr", "sarr", "media", "cb", "ct",
	"ab", "mb", "cbeg", "ac", "ad", "err"}

func (k Kind) String() string {
	if int(k) < len(kindNames) {
		return kindNames[k]
	}
	return fmt.Sprintf("kind(%d)", k)
}

func KindFromString(s string) (Kind, bool) {
	for i, n := range kindNames {
		if n == s {
			return Kind(i), true
		}
	}
	return 0, false
}

// Event is one DataEventReceiver call with its operands.
type Event struct {
	K   Kind
	B   bool   // Boolean value, Comment multiline, Nan signaling, ArrayChunk moreChunksFollow
	U   uint64 // PInt/NInt value, Version, Array element count, ArrayChunk length, custom type code
	I   int64  // Int
	F   float64
	Big *big.Int
	BF  *big.Float
	DF  compact_float.DFloat
	BDF *apd.Decimal
	T   compact_time.Time
	AT  events.ArrayType
	Bs  []byte // array data, identifiers, comment contents, UID
	S   string // media type, stringlike data, custom text
}

// ---------------------------------------------------------------------------------------------
// JSON form (exact, human-readable enough for replay files and samples)

type jsonEvent struct {
	K   string  `json:"k"`
	B   *bool   `json:"b,omitempty"`
	U   *uint64 `json:"u,omitempty"`
	I   *int64  `json:"i,omitempty"`
	F   *string `json:"f,omitempty"`   // hex bits of float64
	Big *string `json:"big,omitempty"` // decimal text or "nil"
	BF  *string `json:"bf,omitempty"`  // "prec:text('p')" or "nil"
	DF  *string `json:"df,omitempty"`  // "exp:coeff"
	BDF *string `json:"bdf,omitempty"` // "form:neg:coeff:exp" or "nil"
	T   *jsonT  `json:"t,omitempty"`
	AT  *uint8  `json:"at,omitempty"`
	Bs  *string `json:"bs,omitempty"` // base64
	S   *string `json:"s,omitempty"`  // base64 (may be invalid UTF-8)
	Txt string  `json:"_,omitempty"`  // informational rendering, ignored on input
}

type jsonT struct {
	Type   uint8  `json:"type"`
	Y      int    `json:"y"`
	Mo     uint8  `json:"mo"`
	D      uint8  `json:"d"`
	H      uint8  `json:"h"`
	Mi     uint8  `json:"mi"`
	S      uint8  `json:"s"`
	Ns     uint32 `json:"ns"`
	TZType uint8  `json:"tz"`
	Short  string `json:"short,omitempty"` // base64
	Long   string `json:"long,omitempty"`  // base64
	Lat    int16  `json:"lat,omitempty"`
	Long_  int16  `json:"lng,omitempty"`
	Off    int16  `json:"off,omitempty"`
}

func b64(b []byte) *string { s := base64.StdEncoding.EncodeToString(b); return &s }
func unb64(s *string) []byte {
	if s == nil {
		return nil
	}
	b, err := base64.StdEncoding.DecodeString(*s)
	if err != nil {
		panic(err)
	}
	if b == nil {
		b = []byte{}
	}
	return b
}

func BigFloatToText(v *big.Float) string {
	if v == nil {
		return "nil"
	}
	return fmt.Sprintf("%d:%d:%s", v.Prec(), v.Mode(), v.Text('p', 0))
}

func BigFloatFromText(s string) *big.Float {
	if s == "nil" {
		return nil
	}
	var prec uint
	var mode int
	var txt string
	if _, err := fmt.Sscanf(s, "%d:%d:%s", &prec, &mode, &txt); err != nil {
		panic(fmt.Errorf("bad bigfloat %q: %v", s, err))
	}
	f := new(big.Float).SetPrec(prec).SetMode(big.RoundingMode(mode))
	if prec == 0 {
		return new(big.Float)
	}
	if _, _, err := f.Parse(txt, 0); err != nil {
		panic(fmt.Errorf("bad bigfloat %q: %v", s, err))
	}
	return f
}

func APDToText(v *apd.Decimal) string {
	if v == nil {
		return "nil"
	}
	return fmt.Sprintf("%d:%v:%s:%d", v.Form, v.Negative, v.Coeff.String(), v.Exponent)
}

func APDFromText(s string) *apd.Decimal {
	if s == "nil" {
		return nil
	}
	var form int
	var neg bool
	var coeff string
	var exp int32
	if _, err := fmt.Sscanf(s, "%d:%t:%s", &form, &neg, &coeff); err != nil {
		panic(fmt.Errorf("bad apd %q: %v", s, err))
	}
	// coeff scanned includes ":exp"
	for i := len(coeff) - 1; i >= 0; i-- {
		if coeff[i] == ':' {
			e, err := strconv.ParseInt(coeff[i+1:], 10, 32)
			if err != nil {
				panic(err)
			}
			exp = int32(e)
			coeff = coeff[:i]
			break
		}
	}
	d := &apd.Decimal{Form: apd.Form(form), Negative: neg, Exponent: exp}
	if _, ok := d.Coeff.SetString(coeff, 10); !ok {
		panic(fmt.Errorf("bad apd coeff %q", s))
	}
	return d
}

func (e Event) MarshalJSON() ([]byte, error) {
	j := jsonEvent{K: e.K.String(), Txt: e.String()}
	switch e.K {
	case Boolean, Nan:
		j.B = &e.B
	case Comment:
		j.B = &e.B
		j.Bs = b64(e.Bs)
	case PInt, NInt, Version:
		j.U = &e.U
	case Int:
		j.I = &e.I
	case BigInt:
		s := "nil"
		if e.Big != nil {
			s = e.Big.String()
		}
		j.Big = &s
	case Float:
		s := strconv.FormatUint(math.Float64bits(e.F), 16)
		j.F = &s
	case BigFloat:
		s := BigFloatToText(e.BF)
		j.BF = &s
	case DFloat:
		s := fmt.Sprintf("%d:%d", e.DF.Exponent, e.DF.Coefficient)
		j.DF = &s
	case BigDFloat:
		s := APDToText(e.BDF)
		j.BDF = &s
	case UID, RecordType, Record, Marker, RefLocal, ArrayData:
		j.Bs = b64(e.Bs)
	case Time:
		t := e.T
		j.T = &jsonT{Type: uint8(t.Type), Y: t.Year, Mo: t.Month, D: t.Day, H: t.Hour, Mi: t.Minute, S: t.Second, Ns: t.Nanosecond,
			TZType: uint8(t.Timezone.Type), Short: *b64([]byte(t.Timezone.ShortAreaLocation)), Long: *b64([]byte(t.Timezone.LongAreaLocation)),
			Lat: t.Timezone.LatitudeHundredths, Long_: t.Timezone.LongitudeHundredths, Off: t.Timezone.MinutesOffsetFromUTC}
	case Array:
		at := uint8(e.AT)
		j.AT = &at
		j.U = &e.U
		j.Bs = b64(e.Bs)
	case StringArray:
		at := uint8(e.AT)
		j.AT = &at
		j.S = b64([]byte(e.S))
	case Media:
		j.S = b64([]byte(e.S))
		j.Bs = b64(e.Bs)
	case CustomBinary:
		j.U = &e.U
		j.Bs = b64(e.Bs)
	case CustomText:
		j.U = &e.U
		j.S = b64([]byte(e.S))
	case ArrayBegin:
		at := uint8(e.AT)
		j.AT = &at
	case MediaBegin:
		j.S = b64([]byte(e.S))
	case CustomBegin:
		at := uint8(e.AT)
		j.AT = &at
		j.U = &e.U
	case ArrayChunk:
		j.U = &e.U
		j.B = &e.B
	}
	return json.Marshal(j)
}

func (e *Event) UnmarshalJSON(data []byte) error {
	var j jsonEvent
	if err := json.Unmarshal(data, &j); err != nil {
		return err
	}
	k, ok := KindFromString(j.K)
	if !ok {
		return fmt.Errorf("unknown event kind %q", j.K)
	}
	*e = Event{K: k}
	if j.B != nil {
		e.B = *j.B
	}
	if j.U != nil {
		e.U = *j.U
	}
	if j.I != nil {
		e.I = *j.I
	}
	if j.F != nil {
		bits, err := strconv.ParseUint(*j.F, 16, 64)
		if err != nil {
			return err
		}
		e.F = math.Float64frombits(bits)
	}
	if j.Big != nil && *j.Big != "nil" {
		v, ok := new(big.Int).SetString(*j.Big, 10)
		if !ok {
			return fmt.Errorf("bad big int %q", *j.Big)
		}
		e.Big = v
	}
	if j.BF != nil {
		e.BF = BigFloatFromText(*j.BF)
	}
	if j.DF != nil {
		if _, err := fmt.Sscanf(*j.DF, "%d:%d", &e.DF.Exponent, &e.DF.Coefficient); err != nil {
			return err
		}
	}
	if j.BDF != nil {
		e.BDF = APDFromText(*j.BDF)
	}
	if j.T != nil {
		t := j.T
		sh, lo := t.Short, t.Long
		e.T = compact_time.Time{Type: compact_time.TimeType(t.Type), Year: t.Y, Month: t.Mo, Day: t.D, Hour: t.H, Minute: t.Mi, Second: t.S, Nanosecond: t.Ns}
		e.T.Timezone = compact_time.Timezone{Type: compact_time.TimezoneType(t.TZType), ShortAreaLocation: string(unb64(&sh)), LongAreaLocation: string(unb64(&lo)),
			LatitudeHundredths: t.Lat, LongitudeHundredths: t.Long_, MinutesOffsetFromUTC: t.Off}
	}
	if j.AT != nil {
		e.AT = events.ArrayType(*j.AT)
	}
	if j.Bs != nil {
		e.Bs = unb64(j.Bs)
	}
	if j.S != nil {
		e.S = string(unb64(j.S))
	}
	return nil
}

func clip(b []byte) string {
	const max = 48
	if len(b) > max {
		return fmt.Sprintf("%q...(%d bytes)", b[:max], len(b))
	}
	return fmt.Sprintf("%q", b)
}

// String renders the event compactly (for samples and messages). Never follows user pointers cyclically.
func (e Event) String() string {
	switch e.K {
	case Boolean, Nan:
		return fmt.Sprintf("%v(%v)", e.K, e.B)
	case Comment:
		return fmt.Sprintf("com(%v,%s)", e.B, clip(e.Bs))
	case PInt, NInt, Version:
		return fmt.Sprintf("%v(%d)", e.K, e.U)
	case Int:
		return fmt.Sprintf("i(%d)", e.I)
	case BigInt:
		if e.Big == nil {
			return "bi(nil)"
		}
		s := e.Big.String()
		if len(s) > 60 {
			s = s[:60] + "..."
		}
		return "bi(" + s + ")"
	case Float:
		return fmt.Sprintf("f(%x=%v)", math.Float64bits(e.F), e.F)
	case BigFloat:
		return "bf(" + BigFloatToText(e.BF) + ")"
	case DFloat:
		return fmt.Sprintf("df(%de%d)", e.DF.Coefficient, e.DF.Exponent)
	case BigDFloat:
		return "bdf(" + APDToText(e.BDF) + ")"
	case UID:
		return fmt.Sprintf("uid(%x)", e.Bs)
	case RecordType, Record, Marker, RefLocal, ArrayData:
		return fmt.Sprintf("%v(%s)", e.K, clip(e.Bs))
	case Time:
		t := e.T
		return fmt.Sprintf("t(type=%d %d-%d-%d %d:%d:%d.%d tz=%d %q %q %d %d %d)", t.Type, t.Year, t.Month, t.Day, t.Hour, t.Minute, t.Second, t.Nanosecond,
			t.Timezone.Type, t.Timezone.ShortAreaLocation, t.Timezone.LongAreaLocation, t.Timezone.LatitudeHundredths, t.Timezone.LongitudeHundredths, t.Timezone.MinutesOffsetFromUTC)
	case Array:
		return fmt.Sprintf("arr(%v,%d,%s)", e.AT, e.U, clip(e.Bs))
	case StringArray:
		return fmt.Sprintf("sarr(%v,%s)", e.AT, clip([]byte(e.S)))
	case Media:
		return fmt.Sprintf("media(%s,%s)", clip([]byte(e.S)), clip(e.Bs))
	case CustomBinary:
		return fmt.Sprintf("cb(%d,%s)", e.U, clip(e.Bs))
	case CustomText:
		return fmt.Sprintf("ct(%d,%s)", e.U, clip([]byte(e.S)))
	case ArrayBegin:
		return fmt.Sprintf("ab(%v)", e.AT)
	case MediaBegin:
		return fmt.Sprintf("mb(%s)", clip([]byte(e.S)))
	case CustomBegin:
		return fmt.Sprintf("cbeg(%v,%d)", e.AT, e.U)
	case ArrayChunk:
		return fmt.Sprintf("ac(%d,%v)", e.U, e.B)
	}
	return e.K.String()
}

func ListString(evs []Event) string {
	s := ""
	for i, e := range evs {
		if i > 0 {
			s += " "
		}
		if i >= 80 {
			s += fmt.Sprintf("...(%d events)", len(evs))
			break
		}
		s += e.String()
	}
	return s
}
