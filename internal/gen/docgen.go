package gen

import (
	"fmt"
	"math/big"
	"unicode/utf8"

	"github.com/kstenerud/go-concise-encoding/ce/events"
	"pgregory.net/rapid"

	"verif/internal/ev"
)

// EvOpts selects which parts of the event vocabulary G-EV uses.
type EvOpts struct {
	Comments     bool
	OddComments  bool // comment text the CTE grammar cannot carry (labelled separately)
	Padding      bool
	CustomText   bool
	CustomBinary bool
	Media        bool
	Markers      bool
	MarkerHeavy  bool
	Records      bool
	RemoteRef    bool
	NilBig       bool // nil *big.Int / *big.Float / *apd.Decimal events
	NaNForms     bool // NaN delivered as float / decimal float / big decimal events
	FullUnicode  bool
	Chunked      bool
	MidCharSplit bool
	MidElemSplit bool
	WideBigFloat bool
	NegZeroKeys  bool
	URLRID       bool // resource IDs restricted to strings net/url round-trips
	NoEdge       bool
	NoNode       bool
	NoBitArray   bool
	NoUIDArray   bool
	NoMedia      bool
	TopContainer bool // top-level value is always a container
	MaxDepth     int
	MaxArr       int
	Budget       int
	// Avoid lists open known-finding keys whose region the generator must steer away from;
	// Excluded is called once per draw that was steered away.
	Avoid    map[string]bool
	Excluded func(key string)
}

type ctxKind int

const (
	ctxAny ctxKind = iota
	ctxKey
	ctxNonNull
)

type markerInfo struct {
	id      string
	keyable bool
	keyID   string // key identity of the marked value when keyable
}

type pendingFwd struct {
	id      string
	keyable bool
}

// G builds one event stream.
type G struct {
	t        *rapid.T
	o        EvOpts
	Ev       []ev.Event
	budget   int
	n        int // label counter
	markers  []markerInfo
	usedIDs  map[string]bool
	pending  []pendingFwd
	allowFwd bool
	recTypes []recType
	fwdSeq   int
	open     []string
	noChunk  bool
	// noMarkNext suppresses a marker on the next value only (noMarkThis while that value is drawn)
	noMarkNext bool
	noMarkThis bool
	noRefNext  bool
	noRefThis  bool
}

type recType struct {
	name  string
	arity int
}

func (g *G) l(s string) string { g.n++; return s }

// mk scales the marker / reference odds when MarkerHeavy is set.
func (g *G) mk(oneIn int) int {
	if g.o.MarkerHeavy {
		return 3
	}
	return oneIn
}

func (g *G) avoid(key string) bool {
	if g.o.Avoid[key] {
		if g.o.Excluded != nil {
			g.o.Excluded(key)
		}
		return true
	}
	return false
}

func (g *G) emit(e ev.Event) { g.Ev = append(g.Ev, e) }

func (g *G) intn(label string, lo, hi int) int { return rapid.IntRange(lo, hi).Draw(g.t, label) }
func (g *G) chance(label string, oneIn int) bool {
	return rapid.IntRange(0, oneIn-1).Draw(g.t, label) == 0
}

// Document draws a complete rules-valid event stream.
func Document(t *rapid.T, o EvOpts) []ev.Event {
	if o.MaxDepth == 0 {
		o.MaxDepth = 4
	}
	if o.MaxArr == 0 {
		o.MaxArr = 40
	}
	if o.Budget == 0 {
		o.Budget = 30
	}
	g := &G{t: t, o: o, usedIDs: map[string]bool{}}
	g.budget = rapid.IntRange(1, o.Budget).Draw(t, "budget")
	g.emit(ev.Event{K: ev.BD})
	g.emit(ev.Event{K: ev.Version, U: 0})
	g.pseudo("pre")
	if o.Records && g.chance("hasRecTypes", 3) {
		for i, n := 0, g.intn("nRecTypes", 1, 3); i < n; i++ {
			g.recordType()
			g.pseudo("postrt")
		}
	}
	g.topLevel()
	g.emit(ev.Event{K: ev.ED})
	return g.Ev
}

// pseudo emits comments / padding at a position where both the validator and the CTE grammar allow them.
func (g *G) pseudo(where string) {
	if g.o.Comments && g.chance("com."+where, 6) {
		for i, n := 0, g.intn("ncom", 1, 2); i < n; i++ {
			g.comment()
		}
	}
	if g.o.Padding && g.chance("pad."+where, 8) {
		for i, n := 0, g.intn("npad", 1, 3); i < n; i++ {
			g.emit(ev.Event{K: ev.Padding})
		}
	}
}

func (g *G) comment() {
	multi := rapid.Bool().Draw(g.t, "com.multi")
	var text string
	if g.o.OddComments && g.chance("com.odd", 10) {
		text = rapid.SampledFrom([]string{"*/", "a\nb", "/*", "x\r\ny", "\x01", "*/ 1 /*"}).Draw(g.t, "com.oddtext")
	} else {
		text = UTF8String(g.t, "com.text", 12, false)
		text = sanitizeComment(text, multi)
		if multi && g.chance("com.nested", 5) {
			text += "/* nested " + sanitizeComment(UTF8String(g.t, "com.inner", 5, false), true) + " */"
		}
	}
	g.emit(ev.Event{K: ev.Comment, B: multi, Bs: []byte(text)})
}

// sanitizeComment keeps "ordinary" comment text: no CR/LF in line comments, no comment delimiters in
// block comments other than balanced nested ones (added by the caller).
func sanitizeComment(s string, multi bool) string {
	b := []byte{}
	for _, r := range s {
		switch {
		case r == '\n' || r == '\r':
			if multi {
				b = utf8.AppendRune(b, r)
			}
		case r == '/' || r == '*':
			if !multi {
				b = utf8.AppendRune(b, r)
			}
		case r < 0x20 && r != '\t':
		default:
			b = utf8.AppendRune(b, r)
		}
	}
	return string(b)
}

func (g *G) newID(label string) string {
	for i := 0; ; i++ {
		id := Identifier(g.t, label, 8)
		if i > 5 {
			id = fmt.Sprintf("%s%d", id, len(g.usedIDs))
		}
		if !g.usedIDs[id] {
			g.usedIDs[id] = true
			return id
		}
	}
}

func (g *G) recordType() {
	name := g.newID("rt.name")
	g.emit(ev.Event{K: ev.RecordType, Bs: []byte(name)})
	arity := g.intn("rt.arity", 0, 4)
	keys := map[string]bool{}
	for i := 0; i < arity; i++ {
		g.pseudo("rtk")
		g.key(keys, true)
	}
	g.pseudo("rte")
	g.emit(ev.Event{K: ev.End})
	g.recTypes = append(g.recTypes, recType{name, arity})
}

func (g *G) topLevel() {
	// decide whether forward references are possible: only inside a top-level list / map / node
	kind := g.intn("top.kind", 0, 9)
	if g.o.TopContainer && kind > 5 {
		kind = kind % 3
	}
	switch {
	case kind <= 2 && g.o.MaxDepth > 0: // list
		g.allowFwd = g.o.Markers
		g.withMarker(func() {
			g.fwdOK()
			g.emit(ev.Event{K: ev.List})
			g.listBody(1)
			g.flushPending(false)
			g.emit(ev.Event{K: ev.End})
		})
	case kind == 3 && g.o.MaxDepth > 0: // map
		g.allowFwd = g.o.Markers
		g.withMarker(func() {
			g.fwdOK()
			g.emit(ev.Event{K: ev.Map})
			keys := g.mapBody(1)
			g.flushPendingMap(keys)
			g.emit(ev.Event{K: ev.End})
		})
	default:
		g.value(ctxAny, 0)
	}
}

// fwdOK switches forward references off when the top-level container itself is marked and
// markers inside marked containers are to be avoided.
func (g *G) fwdOK() {
	if len(g.open) > 0 && g.avoid("S36-marker-inside-marked-container") {
		g.allowFwd = false
	}
}

// maybeMarker emits a marker in front of a container / scalar the caller is about to emit.
// Returns the marker record index or -1. The caller completes keyable info via setMarkerKey.
func (g *G) maybeMarker(c ctxKind, leafKeyable bool) int {
	if !g.o.Markers || !g.chance("mark", g.mk(7)) {
		return -1
	}
	if g.noMarkThis {
		return -1
	}
	if len(g.open) > 0 && g.avoid("S36-marker-inside-marked-container") {
		return -1
	}
	id := g.newID("mark.id")
	g.emit(ev.Event{K: ev.Marker, Bs: []byte(id)})
	g.markers = append(g.markers, markerInfo{id: id, keyable: false})
	return len(g.markers) - 1
}

func (g *G) flushPending(inMap bool) {
	for len(g.pending) > 0 {
		p := g.pending[0]
		g.pending = g.pending[1:]
		g.emit(ev.Event{K: ev.Marker, Bs: []byte(p.id)})
		g.fwdTarget(p, ctxAny)
	}
}

func (g *G) flushPendingMap(keys map[string]bool) {
	for len(g.pending) > 0 {
		p := g.pending[0]
		g.pending = g.pending[1:]
		g.key(keys, false)
		g.emit(ev.Event{K: ev.Marker, Bs: []byte(p.id)})
		g.fwdTarget(p, ctxAny)
	}
}

// fwdTarget emits the leaf a forward reference points to. Keyable targets are unique strings that no
// other generator can produce, so key identity stays distinct.
func (g *G) fwdTarget(p pendingFwd, c ctxKind) {
	if p.keyable {
		g.emitArray(events.ArrayTypeString, 0, []byte("fwd-"+p.id))
		return
	}
	g.leaf(c, true)
}

func (g *G) listBody(depth int) {
	n := g.intn("list.n", 0, 5)
	for i := 0; i < n && g.budget > 0; i++ {
		g.pseudo("le")
		g.value(ctxAny, depth)
	}
	g.pseudo("lend")
}

func (g *G) mapBody(depth int) map[string]bool {
	keys := map[string]bool{}
	n := g.intn("map.n", 0, 4)
	for i := 0; i < n && g.budget > 0; i++ {
		g.pseudo("mk")
		g.key(keys, false)
		g.pseudo("mv")
		g.value(ctxAny, depth)
	}
	g.pseudo("mend")
	return keys
}

// key emits one keyable value whose identity is not yet in keys.
func (g *G) key(keys map[string]bool, recordType bool) {
	g.budget--
	for try := 0; ; try++ {
		mark := len(g.Ev)
		nMarkers := len(g.markers)
		nPending := len(g.pending)
		id := g.keyValue(recordType, try > 3)
		if id != "" && !keys[id] {
			keys[id] = true
			return
		}
		g.Ev = g.Ev[:mark]
		for _, m := range g.markers[nMarkers:] {
			delete(g.usedIDs, m.id)
		}
		g.markers = g.markers[:nMarkers]
		g.pending = g.pending[:nPending]
	}
}

// keyValue emits a keyable value and returns its identity ("" = retry).
func (g *G) keyValue(recordType bool, forceUnique bool) string {
	if forceUnique {
		g.fwdSeq++
		s := fmt.Sprintf("k%d", g.fwdSeq)
		g.emitArray(events.ArrayTypeString, 0, []byte(s))
		return "s:" + s
	}
	// references / markers in key position
	if g.o.Markers && !recordType {
		if g.chance("key.ref", g.mk(10)) && !g.avoid("S35-key-reference") {
			var cands []markerInfo
			for _, m := range g.markers {
				if m.keyable {
					cands = append(cands, m)
				}
			}
			if len(cands) > 0 {
				m := cands[g.intn("key.refidx", 0, len(cands)-1)]
				g.emit(ev.Event{K: ev.RefLocal, Bs: []byte(m.id)})
				return m.keyID
			}
			if g.allowFwd {
				id := g.newID("key.fwd")
				g.pending = append(g.pending, pendingFwd{id: id, keyable: true})
				g.emit(ev.Event{K: ev.RefLocal, Bs: []byte(id)})
				return "s:fwd-" + id
			}
		}
	}
	mi := -1
	if g.o.Markers && !recordType && g.chance("key.mark", g.mk(10)) && !(len(g.open) > 0 && g.avoid("S36-marker-inside-marked-container")) {
		id := g.newID("key.markid")
		g.emit(ev.Event{K: ev.Marker, Bs: []byte(id)})
		g.markers = append(g.markers, markerInfo{id: id})
		mi = len(g.markers) - 1
	}
	if mi >= 0 && g.avoid("S37-marked-chunked-key") {
		g.noChunk = true
	}
	kid := g.keyableLeaf()
	g.noChunk = false
	if mi >= 0 {
		g.markers[mi].keyable = true
		g.markers[mi].keyID = kid
	}
	return kid
}

// keyableLeaf emits a keyable scalar / string / rid and returns its key identity.
func (g *G) keyableLeaf() string {
	switch g.intn("kl.kind", 0, 9) {
	case 0, 1, 2, 3:
		s := UTF8String(g.t, "kl.str", 6, g.o.FullUnicode)
		g.emitArray(events.ArrayTypeString, 0, []byte(s))
		return "s:" + s
	case 4, 5:
		v := BigIntValue(g.t, "kl.int")
		g.intEvent(v, false)
		return "i:" + v.String()
	case 6:
		b := rapid.Bool().Draw(g.t, "kl.bool")
		g.boolEvent(b)
		return fmt.Sprintf("b:%v", b)
	case 7:
		u := rapid.SliceOfN(rapid.Byte(), 16, 16).Draw(g.t, "kl.uid")
		g.emit(ev.Event{K: ev.UID, Bs: u})
		return fmt.Sprintf("u:%x", u)
	case 8:
		tv := TimeValue(g.t, "kl.time")
		g.emit(ev.Event{K: ev.Time, T: tv})
		return "t:" + tv.String()
	default:
		s := g.ridText("kl.rid")
		g.emitArray(events.ArrayTypeResourceID, 0, []byte(s))
		return "r:" + s
	}
}

func (g *G) ridText(label string) string {
	if g.o.URLRID {
		return rapid.SampledFrom([]string{"http://example.com/a?b=c#d", "https://x.y/z", "mailto:me@example.com", "urn:isbn:0451450523", "file:///tmp/x", "a:b", "scheme://host:8080/path/to"}).Draw(g.t, label+".url") +
			rapid.StringMatching("[a-z0-9]{0,4}").Draw(g.t, label+".sfx")
	}
	return UTF8String(g.t, label, 8, g.o.FullUnicode)
}

func (g *G) boolEvent(b bool) {
	if rapid.Bool().Draw(g.t, "bool.form") {
		g.emit(ev.Event{K: ev.Boolean, B: b})
	} else if b {
		g.emit(ev.Event{K: ev.True})
	} else {
		g.emit(ev.Event{K: ev.False})
	}
}

var maxU64 = new(big.Int).SetUint64(^uint64(0))

// intEvent emits the integer through a randomly chosen event form that can express it.
func (g *G) intEvent(v *big.Int, allowNegZero bool) {
	var forms []int
	if v.IsInt64() {
		forms = append(forms, 0)
	}
	if v.Sign() >= 0 && v.IsUint64() {
		forms = append(forms, 1)
	}
	if v.Sign() < 0 && new(big.Int).Neg(v).IsUint64() {
		forms = append(forms, 2)
	}
	forms = append(forms, 3)
	if allowNegZero && v.Sign() == 0 && g.chance("int.negzero", 4) {
		g.emit(ev.Event{K: ev.NInt, U: 0})
		return
	}
	switch forms[g.intn("int.form", 0, len(forms)-1)] {
	case 0:
		g.emit(ev.Event{K: ev.Int, I: v.Int64()})
	case 1:
		g.emit(ev.Event{K: ev.PInt, U: v.Uint64()})
	case 2:
		g.emit(ev.Event{K: ev.NInt, U: new(big.Int).Neg(v).Uint64()})
	default:
		g.emit(ev.Event{K: ev.BigInt, Big: new(big.Int).Set(v)})
	}
}

// value emits one value (possibly a container) valid in the given context.
func (g *G) value(c ctxKind, depth int) {
	g.budget--
	g.noMarkThis = g.noMarkNext
	g.noMarkNext = false
	g.noRefThis = g.noRefNext
	g.noRefNext = false
	defer func() { g.noMarkThis, g.noRefThis = false, false }()
	// references
	if g.o.Markers && c != ctxNonNull && !g.noRefThis && g.chance("val.ref", g.mk(9)) {
		if len(g.markers) > 0 && rapid.Bool().Draw(g.t, "val.refback") {
			// backward reference to a completed marker: every entry in g.markers whose object is complete.
			var cands []markerInfo
			for _, m := range g.markers {
				if m.id != "" && !g.openMarker(m.id) {
					cands = append(cands, m)
				}
			}
			if len(cands) > 0 {
				m := cands[g.intn("val.refidx", 0, len(cands)-1)]
				g.emit(ev.Event{K: ev.RefLocal, Bs: []byte(m.id)})
				return
			}
		} else if g.allowFwd {
			id := g.newID("val.fwd")
			g.pending = append(g.pending, pendingFwd{id: id})
			g.emit(ev.Event{K: ev.RefLocal, Bs: []byte(id)})
			return
		}
	}
	// opportunistically place a pending forward-reference target
	if len(g.pending) > 0 && c != ctxKey && !g.noMarkThis && g.chance("val.placefwd", 3) && !(len(g.open) > 0 && g.avoid("S36-marker-inside-marked-container")) {
		p := g.pending[0]
		g.pending = g.pending[1:]
		g.emit(ev.Event{K: ev.Marker, Bs: []byte(p.id)})
		g.fwdTarget(p, c)
		return
	}
	container := depth < g.o.MaxDepth && g.budget > 0 && g.chance("val.container", 3)
	if container {
		g.container(c, depth)
		return
	}
	g.leaf(c, false)
}

// open markers: markers whose marked container is still being generated
var _ = 0

func (g *G) openMarker(id string) bool {
	for _, o := range g.open {
		if o == id {
			return true
		}
	}
	return false
}

func (g *G) withMarker(f func()) {
	mi := g.maybeMarker(ctxAny, false)
	if mi >= 0 {
		id := g.markers[mi].id
		g.open = append(g.open, id)
		f()
		g.open = g.open[:len(g.open)-1]
		return
	}
	f()
}

func (g *G) container(c ctxKind, depth int) {
	kinds := []int{0, 0, 0, 1, 1}
	if !g.o.NoEdge {
		kinds = append(kinds, 2)
	}
	if !g.o.NoNode {
		kinds = append(kinds, 3)
	}
	if len(g.recTypes) > 0 {
		kinds = append(kinds, 4, 4)
	}
	switch kinds[g.intn("cont.kind", 0, len(kinds)-1)] {
	case 0:
		g.withMarker(func() {
			g.emit(ev.Event{K: ev.List})
			g.listBody(depth + 1)
			g.emit(ev.Event{K: ev.End})
		})
	case 1:
		g.withMarker(func() {
			g.emit(ev.Event{K: ev.Map})
			g.mapBody(depth + 1)
			g.emit(ev.Event{K: ev.End})
		})
	case 2:
		g.withMarker(func() {
			g.emit(ev.Event{K: ev.Edge})
			g.pseudo("es")
			g.value(ctxNonNull, depth+1)
			g.pseudo("ed")
			g.value(ctxAny, depth+1)
			g.pseudo("et")
			g.value(ctxNonNull, depth+1)
			g.pseudo("ee")
			g.emit(ev.Event{K: ev.End})
		})
	case 3:
		g.withMarker(func() {
			g.emit(ev.Event{K: ev.Node})
			g.pseudo("nv")
			g.noMarkNext = g.avoid("S59-marked-node-value")
			g.noRefNext = g.avoid("S34-reference-in-node")
			g.value(ctxAny, depth+1)
			n := g.intn("node.n", 0, 3)
			for i := 0; i < n && g.budget > 0; i++ {
				g.pseudo("nc")
				g.noRefNext = g.avoid("S34-reference-in-node")
				g.value(ctxAny, depth+1)
			}
			g.pseudo("ne")
			g.emit(ev.Event{K: ev.End})
		})
	case 4:
		rt := g.recTypes[g.intn("rec.type", 0, len(g.recTypes)-1)]
		g.withMarker(func() {
			g.emit(ev.Event{K: ev.Record, Bs: []byte(rt.name)})
			for i := 0; i < rt.arity; i++ {
				g.pseudo("rv")
				g.value(ctxAny, depth+1)
			}
			g.pseudo("re")
			g.emit(ev.Event{K: ev.End})
		})
	}
}

// leaf emits a non-container value. noMarker suppresses an additional marker (used for fwd targets).
func (g *G) leaf(c ctxKind, noMarker bool) {
	if !noMarker {
		if mi := g.maybeMarker(c, false); mi >= 0 {
			_ = mi
		}
	}
	for {
		k := g.intn("leaf.kind", 0, 27)
		switch k {
		case 0:
			if c == ctxNonNull {
				continue
			}
			g.emit(ev.Event{K: ev.Null})
		case 1:
			g.boolEvent(rapid.Bool().Draw(g.t, "leaf.bool"))
		case 2, 3, 4:
			g.intEvent(BigIntValue(g.t, "leaf.int"), true)
		case 5, 6:
			g.emit(ev.Event{K: ev.Float, F: Float64NonNaN(g.t, "leaf.f")})
		case 7:
			g.emit(ev.Event{K: ev.BigFloat, BF: BigFloatValue(g.t, "leaf.bf", g.o.WideBigFloat)})
		case 8, 9:
			g.emit(ev.Event{K: ev.DFloat, DF: DFloatValue(g.t, "leaf.df", g.o.NaNForms)})
		case 10:
			g.emit(ev.Event{K: ev.BigDFloat, BDF: APDValue(g.t, "leaf.bdf", g.o.NaNForms)})
		case 11:
			sig := rapid.Bool().Draw(g.t, "leaf.nansig")
			if g.o.NaNForms && rapid.Bool().Draw(g.t, "leaf.nanfloat") {
				g.emit(ev.Event{K: ev.Float, F: Float64NaN(g.t, "leaf.nanf", sig)})
			} else {
				g.emit(ev.Event{K: ev.Nan, B: sig})
			}
		case 12:
			g.emit(ev.Event{K: ev.UID, Bs: rapid.SliceOfN(rapid.Byte(), 16, 16).Draw(g.t, "leaf.uid")})
		case 13, 14:
			g.emit(ev.Event{K: ev.Time, T: TimeValue(g.t, "leaf.time")})
		case 15, 16, 17:
			s := UTF8String(g.t, "leaf.str", g.strMax(), g.o.FullUnicode)
			if g.o.MaxArr >= 34 && g.chance("str.longplain", 12) {
				// a long string that needs no escape, around the sizes at which the encoders' scratch buffers grow
				n := rapid.SampledFrom([]int{31, 32, 33, 34, 63, 64, 65, 100, 130}).Draw(g.t, "str.plainlen")
				if n > g.o.MaxArr {
					n = 34
				}
				b := make([]byte, n)
				for i := range b {
					b[i] = "abcdefghijklmnopqrstuvwxyz0123456789"[(i*7+n)%36]
				}
				s = string(b)
			}
			g.emitArray(events.ArrayTypeString, 0, []byte(s))
		case 18:
			g.emitArray(events.ArrayTypeResourceID, 0, []byte(g.ridText("leaf.rid")))
		case 19, 20, 24, 25, 26, 27:
			g.typedArray()
		case 21:
			if !g.o.Media || g.o.NoMedia {
				continue
			}
			g.media()
		case 22:
			if !g.o.CustomBinary && !g.o.CustomText {
				continue
			}
			g.custom()
		case 23:
			if g.o.NilBig {
				switch g.intn("leaf.nil", 0, 2) {
				case 0:
					g.emit(ev.Event{K: ev.BigInt})
				case 1:
					g.emit(ev.Event{K: ev.BigFloat})
				default:
					g.emit(ev.Event{K: ev.BigDFloat})
				}
				if c == ctxNonNull {
					g.Ev = g.Ev[:len(g.Ev)-1]
					continue
				}
			} else if g.o.RemoteRef {
				if len(g.Ev) > 0 && g.Ev[len(g.Ev)-1].K == ev.Marker {
					continue // remote references are not markable
				}
				g.emitArray(events.ArrayTypeReferenceRemote, 0, []byte(g.ridText("leaf.rref")))
			} else {
				continue
			}
		}
		return
	}
}

func (g *G) strMax() int {
	if g.chance("str.long", 6) {
		return g.o.MaxArr
	}
	return 10
}

var typedArrayTypes = []events.ArrayType{
	events.ArrayTypeUint8, events.ArrayTypeUint16, events.ArrayTypeUint32, events.ArrayTypeUint64,
	events.ArrayTypeInt8, events.ArrayTypeInt16, events.ArrayTypeInt32, events.ArrayTypeInt64,
	events.ArrayTypeFloat16, events.ArrayTypeFloat32, events.ArrayTypeFloat64, events.ArrayTypeUID, events.ArrayTypeBit,
}

func (g *G) arrLen() int {
	switch g.intn("arr.lenclass", 0, 5) {
	case 0:
		return 0
	case 1:
		return g.intn("arr.len15", 13, 17)
	case 2:
		return g.intn("arr.lenbig", 0, g.o.MaxArr)
	default:
		return g.intn("arr.lensmall", 1, 6)
	}
}

func (g *G) typedArray() {
	for {
		at := typedArrayTypes[g.intn("arr.type", 0, len(typedArrayTypes)-1)]
		if (at == events.ArrayTypeBit && g.o.NoBitArray) || (at == events.ArrayTypeUID && g.o.NoUIDArray) {
			continue
		}
		n := g.arrLen()
		if at == events.ArrayTypeBit {
			nbytes := (n + 7) / 8
			b := rapid.SliceOfN(rapid.Byte(), nbytes, nbytes).Draw(g.t, "arr.bits")
			if n%8 != 0 {
				b[nbytes-1] &= byte(1<<uint(n%8)) - 1
			}
			g.emitArray(at, uint64(n), b)
			return
		}
		w := at.ElementSize() / 8
		b := rapid.SliceOfN(rapid.Byte(), n*w, n*w).Draw(g.t, "arr.bytes")
		if top, ok := floatSpecialTops[at]; ok && n > 0 && g.chance("arr.fspecial", 3) {
			// float elements that text spells as words (inf, -inf, nan, snan) or as signed zeros: random bytes
			// reach one exact bit pattern about once in 2^16 .. 2^64 elements
			for k := g.intn("arr.fspecial.n", 1, 3); k > 0; k-- {
				i := g.intn("arr.fspecial.at", 0, n-1)
				v := top[g.intn("arr.fspecial.v", 0, len(top)-1)]
				for j := 0; j < w; j++ {
					b[i*w+j] = 0
				}
				b[i*w+w-2], b[i*w+w-1] = byte(v), byte(v>>8)
			}
		}
		g.emitArray(at, uint64(n), b)
		return
	}
}

// the two most significant bytes of +inf, -inf, quiet NaN, signaling NaN, +0 and -0 (all other bytes zero), per float width
var floatSpecialTops = map[events.ArrayType][]uint16{
	events.ArrayTypeFloat16: {0x7f80, 0xff80, 0x7fe0, 0x7fa0, 0x0000, 0x8000},
	events.ArrayTypeFloat32: {0x7f80, 0xff80, 0x7fe0, 0x7fa0, 0x0000, 0x8000},
	events.ArrayTypeFloat64: {0x7ff0, 0xfff0, 0x7ffc, 0x7ff4, 0x0000, 0x8000},
}

func (g *G) media() {
	mt := MediaType(g.t, "media.type")
	n := g.arrLen()
	data := rapid.SliceOfN(rapid.Byte(), n, n).Draw(g.t, "media.data")
	if !g.o.Chunked || g.chance("media.whole", 2) {
		g.emit(ev.Event{K: ev.Media, S: mt, Bs: data})
		return
	}
	g.emit(ev.Event{K: ev.MediaBegin, S: mt})
	g.chunks(events.ArrayTypeUint8, uint64(n), data, false)
}

func (g *G) custom() {
	code := uint64(g.intn("custom.code", 0, 300))
	if g.chance("custom.bigcode", 5) {
		code = uint64(rapid.Uint32().Draw(g.t, "custom.code32"))
	}
	text := g.o.CustomText && (!g.o.CustomBinary || rapid.Bool().Draw(g.t, "custom.text"))
	if text {
		s := UTF8String(g.t, "custom.str", 10, g.o.FullUnicode)
		if !g.o.Chunked || g.chance("custom.whole", 2) {
			g.emit(ev.Event{K: ev.CustomText, U: code, S: s})
			return
		}
		g.emit(ev.Event{K: ev.CustomBegin, AT: events.ArrayTypeCustomText, U: code})
		g.chunks(events.ArrayTypeString, uint64(len(s)), []byte(s), true)
		return
	}
	n := g.arrLen()
	data := rapid.SliceOfN(rapid.Byte(), n, n).Draw(g.t, "custom.data")
	if !g.o.Chunked || g.chance("custom.whole", 2) {
		g.emit(ev.Event{K: ev.CustomBinary, U: code, Bs: data})
		return
	}
	g.emit(ev.Event{K: ev.CustomBegin, AT: events.ArrayTypeCustomBinary, U: code})
	g.chunks(events.ArrayTypeUint8, uint64(n), data, false)
}

func isStringy(at events.ArrayType) bool {
	return at == events.ArrayTypeString || at == events.ArrayTypeResourceID || at == events.ArrayTypeReferenceRemote || at == events.ArrayTypeCustomText
}

// emitArray delivers an array through a randomly chosen form. For string-likes count is ignored (bytes).
func (g *G) emitArray(at events.ArrayType, count uint64, data []byte) {
	str := isStringy(at)
	if str {
		count = uint64(len(data))
	}
	form := g.intn("arr.form", 0, 5)
	switch {
	case g.o.Chunked && form >= 4 && !g.noChunk:
		g.emit(ev.Event{K: ev.ArrayBegin, AT: at})
		g.chunks(at, count, data, str)
	case str && form >= 2:
		g.emit(ev.Event{K: ev.StringArray, AT: at, S: string(data)})
	default:
		g.emit(ev.Event{K: ev.Array, AT: at, U: count, Bs: data})
	}
}

// chunks emits chunk headers and data events for an array whose begin event was already emitted.
func (g *G) chunks(at events.ArrayType, count uint64, data []byte, str bool) {
	EmitChunks(g.t, &g.Ev, at, count, data, str, g.o.MidCharSplit, g.o.MidElemSplit)
}

// cutPoints returns sorted cut offsets in [0,n] (k-1 interior cuts, duplicates allowed -> empty pieces)
func cutPoints(t *rapid.T, label string, n int, k int, valid func(int) int) []int {
	cuts := make([]int, 0, k+1)
	cuts = append(cuts, 0)
	prev := 0
	for i := 1; i < k; i++ {
		c := rapid.IntRange(prev, n).Draw(t, label)
		c = valid(c)
		if c < prev {
			c = prev
		}
		cuts = append(cuts, c)
		prev = c
	}
	cuts = append(cuts, n)
	return cuts
}

// EmitChunks appends ArrayChunk / ArrayData events delivering data as 1..4 chunks, each as 1..3 data
// events. Chunk boundaries respect what the format requires: element boundary; character boundary for
// string-likes; multiples of 8 bits for non-final bit-array chunks. Data-event boundaries are
// element/character aligned unless midChar / midElem is set.
// UnalignedBitChunks lets EmitChunks end a non-final bit-array chunk inside a byte.
var UnalignedBitChunks = true

// EmitEmptyData makes EmitChunks sometimes put a zero-length data event in front of a chunk's data
// (a receiver must take it: the interface does not forbid it, and the validator accepts it while the
// chunk still has bytes outstanding). Set by the properties that look at raw events (C15).
var EmitEmptyData bool

func EmitChunks(t *rapid.T, out *[]ev.Event, at events.ArrayType, count uint64, data []byte, str bool, midChar bool, midElem bool) {
	bit := at == events.ArrayTypeBit && !str
	w := 1
	if !str && !bit {
		w = at.ElementSize() / 8
	}
	nUnits := int(count) // chunk-boundary units: elements (bytes for strings), bits for bit arrays
	k := rapid.IntRange(1, 4).Draw(t, "chunks.k")
	alignChunk := func(c int) int {
		switch {
		case bit:
			// every chunk's data is byte aligned on its own and the array is the bit-wise
			// concatenation of the chunks (tests/suites/general/arrays.cte has a 3-bit chunk followed
			// by a 1-bit chunk as a "must succeed" case): mostly aligned, sometimes not
			if UnalignedBitChunks && c%3 == 0 {
				return c
			}
			return c - c%8
		case str:
			for c > 0 && c < len(data) && !utf8.RuneStart(data[c]) {
				c--
			}
			return c
		}
		return c
	}
	cuts := cutPoints(t, "chunks.cut", nUnits, k, alignChunk)
	for i := 0; i+1 < len(cuts); i++ {
		lo, hi := cuts[i], cuts[i+1]
		last := i+2 == len(cuts)
		*out = append(*out, ev.Event{K: ev.ArrayChunk, U: uint64(hi - lo), B: !last})
		if hi == lo {
			continue
		}
		var chunk []byte
		if bit {
			// the chunk's bits [lo, hi) repacked from bit 0 of its own first byte, trailing bits cleared
			chunk = make([]byte, (hi-lo+7)/8)
			for i := lo; i < hi; i++ {
				if data[i/8]>>(uint(i)%8)&1 == 1 {
					chunk[(i-lo)/8] |= 1 << (uint(i-lo) % 8)
				}
			}
		} else {
			chunk = data[lo*w : hi*w]
		}
		j := rapid.IntRange(1, 3).Draw(t, "chunks.j")
		alignData := func(c int) int {
			switch {
			case str && !midChar:
				for c > 0 && c < len(chunk) && !utf8.RuneStart(chunk[c]) {
					c--
				}
				return c
			case !str && !bit && !midElem:
				return c - c%w
			}
			return c
		}
		dcuts := cutPoints(t, "chunks.dcut", len(chunk), j, alignData)
		emptyAt := -1
		if EmitEmptyData && rapid.IntRange(0, 3).Draw(t, "chunks.empty") == 0 {
			emptyAt = rapid.IntRange(0, len(dcuts)-2).Draw(t, "chunks.emptyAt")
		}
		for d := 0; d+1 < len(dcuts); d++ {
			if d == emptyAt && dcuts[d] < len(chunk) {
				*out = append(*out, ev.Event{K: ev.ArrayData, Bs: []byte{}})
			}
			if dcuts[d+1] == dcuts[d] {
				continue
			}
			*out = append(*out, ev.Event{K: ev.ArrayData, Bs: append([]byte(nil), chunk[dcuts[d]:dcuts[d+1]]...)})
		}
	}
}

// Rechunk re-delivers every whole array of evs through a random form (whole, string-like, or chunked
// with random chunk / data-event boundaries). Non-array events are copied.
func Rechunk(t *rapid.T, evs []ev.Event, midChar, midElem bool) []ev.Event {
	out := make([]ev.Event, 0, len(evs)+8)
	for _, e := range evs {
		switch e.K {
		case ev.Array, ev.StringArray:
			data := e.Bs
			count := e.U
			if e.K == ev.StringArray {
				data = []byte(e.S)
				count = uint64(len(data))
			}
			str := isStringy(e.AT)
			switch rapid.IntRange(0, 3).Draw(t, "re.form") {
			case 0:
				out = append(out, ev.Event{K: ev.Array, AT: e.AT, U: count, Bs: data})
			case 1:
				if str {
					out = append(out, ev.Event{K: ev.StringArray, AT: e.AT, S: string(data)})
				} else {
					out = append(out, ev.Event{K: ev.Array, AT: e.AT, U: count, Bs: data})
				}
			default:
				out = append(out, ev.Event{K: ev.ArrayBegin, AT: e.AT})
				EmitChunks(t, &out, e.AT, count, data, str, midChar, midElem)
			}
		case ev.Media:
			if rapid.Bool().Draw(t, "re.media") {
				out = append(out, e)
			} else {
				out = append(out, ev.Event{K: ev.MediaBegin, S: e.S})
				EmitChunks(t, &out, events.ArrayTypeUint8, uint64(len(e.Bs)), e.Bs, false, midChar, midElem)
			}
		case ev.CustomBinary:
			if rapid.Bool().Draw(t, "re.cb") {
				out = append(out, e)
			} else {
				out = append(out, ev.Event{K: ev.CustomBegin, AT: events.ArrayTypeCustomBinary, U: e.U})
				EmitChunks(t, &out, events.ArrayTypeUint8, uint64(len(e.Bs)), e.Bs, false, midChar, midElem)
			}
		case ev.CustomText:
			if rapid.Bool().Draw(t, "re.ct") {
				out = append(out, e)
			} else {
				out = append(out, ev.Event{K: ev.CustomBegin, AT: events.ArrayTypeCustomText, U: e.U})
				EmitChunks(t, &out, events.ArrayTypeString, uint64(len(e.S)), []byte(e.S), true, midChar, midElem)
			}
		default:
			out = append(out, e)
		}
	}
	return out
}
