// Package gen holds the rapid generators shared by the properties. All randomness comes from rapid draws.
package gen

import (
	"math"
	"math/big"
	"time"
	"unicode/utf8"

	"github.com/cockroachdb/apd/v2"
	compact_float "github.com/kstenerud/go-compact-float"
	compact_time "github.com/kstenerud/go-compact-time"
	"pgregory.net/rapid"
)

// ---------------------------------------------------------------------------------------------
// Integers

var intBoundaries = func() []*big.Int {
	var out []*big.Int
	add := func(v *big.Int) {
		for d := int64(-2); d <= 2; d++ {
			out = append(out, new(big.Int).Add(v, big.NewInt(d)))
		}
	}
	add(big.NewInt(0))
	add(big.NewInt(100))
	for _, sh := range []uint{7, 8, 15, 16, 24, 31, 32, 40, 48, 53, 56, 63, 64, 65, 72, 127, 128, 200} {
		add(new(big.Int).Lsh(big.NewInt(1), sh))
	}
	return out
}()

// BigIntMagnitude draws a non-negative integer, biased to encoding-width boundaries.
func BigIntMagnitude(t *rapid.T, label string) *big.Int {
	switch rapid.IntRange(0, 9).Draw(t, label+".class") {
	case 0, 1, 2:
		return new(big.Int).Set(intBoundaries[rapid.IntRange(0, len(intBoundaries)-1).Draw(t, label+".b")])
	case 3, 4:
		return big.NewInt(int64(rapid.IntRange(0, 300).Draw(t, label+".small")))
	case 5, 6:
		return new(big.Int).SetUint64(rapid.Uint64().Draw(t, label+".u64"))
	case 7:
		bits := rapid.IntRange(1, 64).Draw(t, label+".bits")
		v := rapid.Uint64().Draw(t, label+".u")
		if bits < 64 {
			v &= (1 << uint(bits)) - 1
		}
		return new(big.Int).SetUint64(v)
	default:
		n := rapid.IntRange(9, 40).Draw(t, label+".nbytes")
		b := rapid.SliceOfN(rapid.Byte(), n, n).Draw(t, label+".bytes")
		if b[0] == 0 {
			b[0] = 1
		}
		return new(big.Int).SetBytes(b)
	}
}

// BigIntValue draws a signed integer (sign-magnitude, boundary biased). Magnitudes < 0 clipped to 0.
func BigIntValue(t *rapid.T, label string) *big.Int {
	m := BigIntMagnitude(t, label)
	if m.Sign() < 0 {
		m.SetInt64(0)
	}
	if rapid.Bool().Draw(t, label+".neg") {
		m.Neg(m)
	}
	return m
}

// ---------------------------------------------------------------------------------------------
// Binary floats

var floatSpecials = []uint64{
	0x0000000000000001,                     // min subnormal
	0x000fffffffffffff,                     // max subnormal
	0x0010000000000000,                     // min normal
	0x7fefffffffffffff,                     // max
	0x3ff0000000000000,                     // 1
	0x3ff8000000000000,                     // 1.5
	0x3fb999999999999a,                     // 0.1
	0x4340000000000000,                     // 2^53
	0x43e0000000000000,                     // 2^63
	0x43f0000000000000,                     // 2^64
	0x36a0000000000000,                     // float32 min subnormal
	0x47efffffe0000000,                     // float32 max
	0x3810000000000000,                     // float32 min normal
	0x3ff0000020000000, 0x3ff0000010000000, // float32 / float64-only neighbours of 1
	0x3ff0100000000000, 0x3ff0080000000000, // bfloat16 / float32-only neighbours
}

// Float64NonNaN draws a finite or infinite float64 (no NaN), biased to width boundaries.
func Float64NonNaN(t *rapid.T, label string) float64 {
	var bits uint64
	switch rapid.IntRange(0, 9).Draw(t, label+".class") {
	case 0:
		bits = 0
	case 1:
		bits = floatSpecials[rapid.IntRange(0, len(floatSpecials)-1).Draw(t, label+".sp")]
	case 2:
		bits = 0x7ff0000000000000
	case 3, 4: // bfloat16-exact
		bits = uint64(rapid.Uint16().Draw(t, label+".bf16")) << 16
		bits = math.Float64bits(float64(math.Float32frombits(uint32(bits))))
	case 5, 6: // float32-exact
		bits = math.Float64bits(float64(math.Float32frombits(rapid.Uint32().Draw(t, label+".f32"))))
	case 7:
		bits = math.Float64bits(float64(rapid.IntRange(-100000, 100000).Draw(t, label+".int")) / float64(rapid.SampledFrom([]int{1, 2, 4, 8, 10, 100, 3}).Draw(t, label+".div")))
	default:
		bits = rapid.Uint64().Draw(t, label+".f64")
	}
	if rapid.Bool().Draw(t, label+".neg") {
		bits ^= 1 << 63
	}
	f := math.Float64frombits(bits)
	if math.IsNaN(f) {
		return math.Float64frombits(bits&^(0x7ff<<52) | (0x3ff << 52))
	}
	return f
}

// Float64NaN draws a NaN with a random payload; sig selects signalling (quiet bit clear).
func Float64NaN(t *rapid.T, label string, sig bool) float64 {
	payload := rapid.Uint64().Draw(t, label+".payload") & ((1 << 51) - 1)
	bits := uint64(0x7ff)<<52 | payload
	if rapid.Bool().Draw(t, label+".neg") {
		bits |= 1 << 63
	}
	if sig {
		if payload == 0 {
			bits |= 1
		}
	} else {
		bits |= 1 << 51
	}
	return math.Float64frombits(bits)
}

// BigFloatValue draws a *big.Float: mostly float64-representable, sometimes wider precision.
func BigFloatValue(t *rapid.T, label string, allowWide bool) *big.Float {
	return BigFloatValueMax(t, label, allowWide, 200)
}

// BigFloatValueMax is BigFloatValue with an explicit ceiling for the precision of the wide values.
func BigFloatValueMax(t *rapid.T, label string, allowWide bool, maxPrec int) *big.Float {
	switch rapid.IntRange(0, 5).Draw(t, label+".class") {
	case 0:
		f := new(big.Float)
		if rapid.Bool().Draw(t, label+".negzero") {
			f.Neg(f)
		}
		return f
	case 1:
		return new(big.Float).SetInf(rapid.Bool().Draw(t, label+".neginf"))
	case 2, 3:
		prec := uint(rapid.SampledFrom([]int{24, 53, 64, 100}).Draw(t, label+".prec"))
		return new(big.Float).SetPrec(prec).SetFloat64(Float64NonNaN(t, label+".f"))
	default:
		if !allowWide {
			return new(big.Float).SetFloat64(Float64NonNaN(t, label+".f"))
		}
		if rapid.Bool().Draw(t, label+".quotient") {
			// a quotient uses every mantissa bit of any precision (also beyond what the default
			// MaxFloatCoefficientDigitCount of 100 digits = 334 bits can carry)
			precs := []int{54, 64, 67, 68, 113, 128, 200}
			if maxPrec > 200 {
				precs = append(precs, 256, 333, 334, 335, 336, 400, 440, 448, 449, 512, 1200)
			}
			prec := uint(rapid.SampledFrom(precs).Draw(t, label+".qprec"))
			num := int64(rapid.IntRange(1, 1000).Draw(t, label+".num"))
			den := int64(rapid.SampledFrom([]int{3, 7, 10, 11, 1000003}).Draw(t, label+".den"))
			f := new(big.Float).SetPrec(prec).Quo(new(big.Float).SetPrec(prec).SetInt64(num), new(big.Float).SetPrec(prec).SetInt64(den))
			f.SetMantExp(f, rapid.IntRange(-300, 300).Draw(t, label+".qexp"))
			if rapid.Bool().Draw(t, label+".qneg") {
				f.Neg(f)
			}
			return f
		}
		prec := uint(rapid.IntRange(54, 200).Draw(t, label+".wprec"))
		mant := BigIntMagnitude(t, label+".mant")
		if mant.Sign() <= 0 {
			mant.SetInt64(3)
		}
		f := new(big.Float).SetPrec(prec).SetInt(mant)
		exp := rapid.IntRange(-300, 300).Draw(t, label+".exp")
		f.SetMantExp(f, exp)
		if rapid.Bool().Draw(t, label+".neg") {
			f.Neg(f)
		}
		return f
	}
}

// ---------------------------------------------------------------------------------------------
// Decimal floats

func DFloatValue(t *rapid.T, label string, allowNaN bool) compact_float.DFloat {
	hi := 9
	if allowNaN {
		hi = 11
	}
	switch rapid.IntRange(0, hi).Draw(t, label+".class") {
	case 0:
		return compact_float.Zero()
	case 1:
		return compact_float.NegativeZero()
	case 2:
		if rapid.Bool().Draw(t, label+".neginf") {
			return compact_float.NegativeInfinity()
		}
		return compact_float.Infinity()
	case 10:
		return compact_float.QuietNaN()
	case 11:
		return compact_float.SignalingNaN()
	}
	var coeff int64
	switch rapid.IntRange(0, 3).Draw(t, label+".cclass") {
	case 0:
		coeff = int64(rapid.IntRange(-1000, 1000).Draw(t, label+".csmall"))
	case 1:
		coeff = rapid.Int64().Draw(t, label+".c64")
		if coeff == math.MinInt64 {
			coeff++ // compact_float negates the coefficient; MinInt64 is outside its domain
		}
	default:
		m := BigIntMagnitude(t, label+".cb")
		if m.IsInt64() {
			coeff = m.Int64()
		} else {
			coeff = int64(m.Uint64() >> 1)
		}
		if rapid.Bool().Draw(t, label+".cneg") {
			coeff = -coeff
		}
	}
	var exp int32
	switch rapid.IntRange(0, 2).Draw(t, label+".eclass") {
	case 0:
		exp = int32(rapid.IntRange(-10, 10).Draw(t, label+".esmall"))
	default:
		exp = int32(rapid.IntRange(-400, 400).Draw(t, label+".e"))
	}
	if coeff == 0 {
		return compact_float.Zero()
	}
	if rapid.IntRange(0, 4).Draw(t, label+".raw") == 0 {
		return compact_float.DFloat{Exponent: exp, Coefficient: coeff} // non-minimised representation
	}
	return compact_float.DFloatValue(exp, coeff)
}

func APDValue(t *rapid.T, label string, allowNaN bool) *apd.Decimal {
	hi := 8
	if allowNaN {
		hi = 10
	}
	switch rapid.IntRange(0, hi).Draw(t, label+".class") {
	case 0:
		return &apd.Decimal{Negative: rapid.Bool().Draw(t, label+".negzero")}
	case 1:
		return &apd.Decimal{Form: apd.Infinite, Negative: rapid.Bool().Draw(t, label+".neginf")}
	case 9:
		return &apd.Decimal{Form: apd.NaN}
	case 10:
		return &apd.Decimal{Form: apd.NaNSignaling}
	}
	d := &apd.Decimal{}
	d.Coeff.Set(BigIntMagnitude(t, label+".coeff"))
	if d.Coeff.Sign() < 0 {
		d.Coeff.SetInt64(7)
	}
	d.Negative = rapid.Bool().Draw(t, label+".neg")
	switch rapid.IntRange(0, 2).Draw(t, label+".eclass") {
	case 0:
		d.Exponent = int32(rapid.IntRange(-10, 10).Draw(t, label+".esmall"))
	default:
		d.Exponent = int32(rapid.IntRange(-400, 400).Draw(t, label+".e"))
	}
	return d
}

// ---------------------------------------------------------------------------------------------
// Strings

var runeClasses = [][]rune{
	[]rune("abcXYZ019 "),                         // plain
	[]rune("\"\\/*`|~!#$%&'()+,;<=>?@[]^_{}:.-"), // punctuation / delimiters
	{'\t', '\n', '\r'},                           // whitespace controls
	{0x00, 0x01, 0x07, 0x08, 0x0b, 0x0c, 0x1b, 0x1f, 0x7f, 0x80, 0x85, 0x9f},              // other controls
	{0xa0, 0xad, 0xe9, 0xdf, 0xff},                                                        // Latin-1 incl. nbsp, soft hyphen
	{0x416, 0x4e2d, 0x663, 0x5d0, 0x3b1},                                                  // letters
	{0x301, 0x20dd, 0x200b, 0x200d, 0x2028, 0x2029, 0xfeff, 0x202e},                       // marks, format, separators
	{0x1f600, 0x1d11e, 0x10000, 0x10ffff, 0xfffd, 0xfffe, 0xffff, 0xe000, 0xf8ff, 0xd7ff}, // astral, specials
}

type StringOpts struct {
	MaxRunes int
	Classes  int // number of rune classes to use (1..len(runeClasses)); 0 = all
	Controls bool
}

// UTF8String draws a valid UTF-8 string over a deliberately nasty alphabet.
func UTF8String(t *rapid.T, label string, maxRunes int, full bool) string {
	n := rapid.IntRange(0, maxRunes).Draw(t, label+".n")
	buf := make([]byte, 0, n*2)
	for i := 0; i < n; i++ {
		var r rune
		if full {
			cls := runeClasses[rapid.IntRange(0, len(runeClasses)-1).Draw(t, label+".cls")]
			r = cls[rapid.IntRange(0, len(cls)-1).Draw(t, label+".r")]
		} else {
			cls := runeClasses[rapid.SampledFrom([]int{0, 0, 1, 4, 5, 7}).Draw(t, label+".cls")]
			r = cls[rapid.IntRange(0, len(cls)-1).Draw(t, label+".r")]
			if r == 0xfffe || r == 0xffff {
				r = 'x'
			}
		}
		buf = utf8.AppendRune(buf, r)
	}
	return string(buf)
}

var identRunes = []rune("abcdefXYZ0189_.-")
var identUnicode = []rune{0xe9, 0x416, 0x4e2d, 0x663, 0x301}

// WideNames makes Identifier / MediaType / Timezone draw, part of the time, from everything the
// validator might accept rather than from what both formats are known to spell (C03 only: there the gap
// between the binary and the text side is the point).
var WideNames bool

var identWide = []rune{0xad, 0x200d, 0xfeff, 0x10000, 0x1d400, 0x1e900, 0xaa, 0xb5, 0x2160, 0x3007, 0x0903, 0x20e3, 0xff10, 0x1f1e6, 0x2028, 0xb2, 0xbc, 0x5f, 0x2d, 0x2e}

// Identifier draws a marker / record identifier from the alphabet both formats can spell.
func Identifier(t *rapid.T, label string, maxLen int) string {
	if WideNames && rapid.IntRange(0, 3).Draw(t, label+".wide") == 0 {
		n := rapid.IntRange(1, 4).Draw(t, label+".wn")
		var buf []byte
		for i := 0; i < n; i++ {
			buf = utf8.AppendRune(buf, identWide[rapid.IntRange(0, len(identWide)-1).Draw(t, label+".wr")])
		}
		return string(buf)
	}
	n := rapid.IntRange(1, maxLen).Draw(t, label+".n")
	buf := make([]byte, 0, n)
	for i := 0; i < n; i++ {
		if rapid.IntRange(0, 9).Draw(t, label+".u") == 0 {
			buf = utf8.AppendRune(buf, identUnicode[rapid.IntRange(0, len(identUnicode)-1).Draw(t, label+".ur")])
		} else {
			buf = append(buf, byte(identRunes[rapid.IntRange(0, len(identRunes)-1).Draw(t, label+".r")]))
		}
	}
	return string(buf)
}

const mediaFirst = "abzAZ"
const mediaNext = "abzAZ09!#$%&'*+.^_`|~{}-"

// MediaType draws from the MEDIA_TYPE fragment of the CTE lexer.
func MediaType(t *rapid.T, label string) string {
	if WideNames && rapid.IntRange(0, 3).Draw(t, label+".wide") == 0 {
		return rapid.SampledFrom([]string{"a b/c", "é/x", "a/b c", "/", "a/", "/b", "text/plain; charset=utf-8", "a", "", "A/B", "a//b", "a/b/c", "0a/b", "a/b\"", "a/b[", "a/b]",
			"a/\n", "a/b\\", "application/x.тип", "a/@", "a/b,c", "a/b=c", "a/(b)", "a/<b>", "a/b?", "a/b:c", "a/b;c", "-a/b", "a/b\x00"}).Draw(t, label+".w")
	}
	if rapid.IntRange(0, 2).Draw(t, label+".common") == 0 {
		return rapid.SampledFrom([]string{"text/plain", "application/x-sh", "image/png", "a/b", "application/vnd.api+json"}).Draw(t, label+".c")
	}
	pick := func(set string, l string) byte { return set[rapid.IntRange(0, len(set)-1).Draw(t, l)] }
	b := []byte{pick(mediaFirst, label+".f")}
	for i, n := 0, rapid.IntRange(0, 6).Draw(t, label+".n1"); i < n; i++ {
		b = append(b, pick(mediaNext, label+".a"))
	}
	b = append(b, '/')
	for i, n := 0, rapid.IntRange(1, 6).Draw(t, label+".n2"); i < n; i++ {
		b = append(b, pick(mediaNext, label+".b"))
	}
	return string(b)
}

// ---------------------------------------------------------------------------------------------
// Times

var areaLocations = []string{"Europe/Berlin", "America/Vancouver", "Asia/Tokyo", "E/Paris", "M/New_York", "Etc/GMT+5", "Z", "L", "Local",
	"Etc/UTC", "Zulu", "America/Argentina/Buenos_Aires", "Antarctica/Troll", "Xyz/Q", "Abc", "A/b.c-d_e+f", "Indian/Maldives", "F/Cairo"}

const areaFirst = "AEMZX"
const areaNext = "abzAZ09_-./+"

// NoUTCOffsetZones makes Timezone skip UTC-offset zones (set by properties that must steer away from
// a known finding about fixed-offset zones).
var NoUTCOffsetZones func() bool

func Timezone(t *rapid.T, label string) compact_time.Timezone {
	k := rapid.IntRange(0, 5).Draw(t, label+".tz")
	if k == 5 && NoUTCOffsetZones != nil && NoUTCOffsetZones() {
		k = 3
	}
	switch k {
	case 0:
		return compact_time.TZAtUTC()
	case 1:
		return compact_time.TZLocal()
	case 2:
		if WideNames && rapid.IntRange(0, 3).Draw(t, label+".wide") == 0 {
			return compact_time.TZAtAreaLocation(rapid.SampledFrom([]string{"europe/berlin", "Europe/Zürich", "A b", "1/2", "E/Paris/", "Europe/Berlin ", "a", "Éire", "A/b\"c", "A\n", "A/[b]",
				"A/b,c", "A/b:c", "A//b", "/A", "Asia/Ho_Chi_Minh", "America/Port-au-Prince", "A/b@c", "Etc/GMT-14", "M/a", "A/" + string(make([]byte, 0)) + "b~"}).Draw(t, label+".warea"))
		}
		if rapid.IntRange(0, 2).Draw(t, label+".rnd") == 0 {
			b := []byte{areaFirst[rapid.IntRange(0, len(areaFirst)-1).Draw(t, label+".af")]}
			n := rapid.IntRange(0, 12).Draw(t, label+".an")
			switch rapid.IntRange(0, 5).Draw(t, label+".along") {
			case 0, 1:
				// long names: the encoded time crosses the encoders' initial buffer sizes (32, 64 bytes)
				n = rapid.IntRange(13, 62).Draw(t, label+".an2")
			case 2:
				n = rapid.IntRange(63, 126).Draw(t, label+".an3") // 127 characters is the maximum
			}
			for i := 0; i < n; i++ {
				b = append(b, areaNext[rapid.IntRange(0, len(areaNext)-1).Draw(t, label+".ac")])
			}
			return compact_time.TZAtAreaLocation(string(b))
		}
		return compact_time.TZAtAreaLocation(areaLocations[rapid.IntRange(0, len(areaLocations)-1).Draw(t, label+".area")])
	case 3, 4:
		lat := rapid.IntRange(-9000, 9000).Draw(t, label+".lat")
		long := rapid.IntRange(-18000, 18000).Draw(t, label+".long")
		return compact_time.TZAtLatLong(lat, long)
	default:
		return compact_time.TZWithMiutesOffsetFromUTC(rapid.IntRange(-1439, 1439).Draw(t, label+".off"))
	}
}

var daysIn = []int{0, 31, 29, 31, 30, 31, 30, 31, 31, 30, 31, 30, 31}

func year(t *rapid.T, label string) int {
	var y int
	switch rapid.IntRange(0, 3).Draw(t, label+".yc") {
	case 0:
		y = rapid.IntRange(1990, 2030).Draw(t, label+".y")
	case 1:
		y = rapid.SampledFrom([]int{1, -1, 2000, 1999, 2001, 9999, 10000, -9999, 100000, -100000, 2000 + 64, 2000 - 64, 2000 + 8192, 2000 - 8192, 2000 + 1048576}).Draw(t, label+".yb")
	default:
		y = rapid.IntRange(-200000, 200000).Draw(t, label+".yr")
	}
	if y == 0 {
		y = 1
	}
	return y
}

func nanos(t *rapid.T, label string) int {
	switch rapid.IntRange(0, 4).Draw(t, label+".nc") {
	case 0:
		return 0
	case 1:
		return rapid.IntRange(0, 999).Draw(t, label+".ms") * 1000000
	case 2:
		return rapid.IntRange(0, 999999).Draw(t, label+".us") * 1000
	case 3:
		return rapid.SampledFrom([]int{1, 10, 100, 999999999, 100000000, 5, 50000}).Draw(t, label+".nb")
	default:
		return rapid.IntRange(0, 999999999).Draw(t, label+".ns")
	}
}

// StrictCalendar restricts TimeValue to values time.Time can hold unchanged: no leap second 60, no
// February 29th outside leap years (compact_time's Validate accepts both), no local time inside a
// daylight-saving gap of its area/location.
var StrictCalendar bool

func realDate(y, m, d int) bool {
	if m != 2 || d < 29 {
		return true
	}
	return y%4 == 0 && (y%100 != 0 || y%400 == 0)
}

// TimeValue draws a valid compact time (date, time or timestamp) built only through the constructors.
func TimeValue(t *rapid.T, label string) compact_time.Time {
	for {
		var v compact_time.Time
		kind := rapid.IntRange(0, 2).Draw(t, label+".kind")
		mo := rapid.IntRange(1, 12).Draw(t, label+".mo")
		d := rapid.IntRange(1, daysIn[mo]).Draw(t, label+".d")
		h := rapid.IntRange(0, 23).Draw(t, label+".h")
		mi := rapid.IntRange(0, 59).Draw(t, label+".mi")
		s := rapid.IntRange(0, 60).Draw(t, label+".s")
		switch kind {
		case 0:
			v = compact_time.NewDate(year(t, label), mo, d)
		case 1:
			v = compact_time.NewTime(h, mi, s, nanos(t, label), Timezone(t, label))
		default:
			v = compact_time.NewTimestamp(year(t, label), mo, d, h, mi, s, nanos(t, label), Timezone(t, label))
		}
		if StrictCalendar && (v.Second > 59 || (v.Type != compact_time.TimeTypeTime && !realDate(v.Year, int(v.Month), int(v.Day)))) {
			continue
		}
		if StrictCalendar && v.Type == compact_time.TimeTypeTimestamp && v.Timezone.Type == compact_time.TimezoneTypeAreaLocation {
			// a local time inside a daylight-saving gap (1999-04-04 02:03 in America/Vancouver) does not
			// exist: time.Time normalises it to another wall-clock time
			if loc, err := time.LoadLocation(v.Timezone.LongAreaLocation); err == nil {
				g := time.Date(v.Year, time.Month(v.Month), int(v.Day), int(v.Hour), int(v.Minute), int(v.Second), int(v.Nanosecond), loc)
				if g.Hour() != int(v.Hour) || g.Minute() != int(v.Minute) || g.Day() != int(v.Day) {
					continue
				}
			}
		}
		if v.Validate() == nil && !v.IsZeroValue() {
			return v
		}
	}
}
