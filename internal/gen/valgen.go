package gen

import (
	"fmt"
	"math"
	"math/big"
	"reflect"

	"pgregory.net/rapid"

	"verif/internal/ev"
)

// ValOpts steers G-VAL.
type ValOpts struct {
	MaxDepth   int
	MaxElems   int  // container width
	MaxTyped   int  // typed-array length
	Iface      bool // interface{} positions
	Special    bool // time, compact time, big numbers, dfloat, url, uid, media
	NodeEdge   bool
	Tags       bool // random ce tags on struct fields (C21)
	Embedded   bool
	FixedZone  bool // time.Time in FixedZone locations
	BigPtrBias bool // bias towards pointer-held big numbers (C18)
	// WideBigFloat: big.Float values of any precision (up to 1200 bits, every mantissa bit in use), not
	// only the float64-exact ones (C18: nothing is asserted about the marshaled document there)
	WideBigFloat bool
	// HandBuiltTimes: some compact times with an area/location zone carry the long name only, as a struct
	// filled in by hand (it passes Validate) rather than through a constructor does (C18 only: what the
	// codecs make of such a value is not asserted anywhere)
	HandBuiltTimes bool
	// IfaceContainers lets interface{} positions hold structs, pointers to structs, slices and maps
	// (marshal-side properties only: unmarshaling cannot restore the dynamic type)
	IfaceContainers bool
	NoNaN           bool
	// YearZero: now and then a time.Time in Go's astronomical year 0 (1 BC), which the format cannot express:
	// only for checks that know the marshaler must refuse it
	YearZero bool
	// FieldsAlwaysWritten: struct fields are written even when empty (records write every declared field), so
	// a nil map / slice field is a null in the document like in any other position
	FieldsAlwaysWritten bool
	Avoid               map[string]bool
	Excluded            func(string)

	inStructField bool // the value being drawn is directly a struct field (omitted when empty)
}

func (o *ValOpts) avoid(key string) bool {
	if o.Avoid[key] {
		if o.Excluded != nil {
			o.Excluded(key)
		}
		return true
	}
	return false
}

// Named struct types that can be embedded (reflect.StructOf cannot embed unnamed struct types portably).
type EmbA struct {
	EmbInt  int
	EmbName string
}
type EmbB struct {
	EmbFlag  bool
	EmbBytes []byte
}

// Three levels of embedding: Emb1 embeds Emb2 embeds Emb3 (index paths of length 4 from an embedding struct).
type Emb3 struct {
	EmbP int
	EmbQ string
	EmbR int16
}
type Emb2 struct {
	Emb3
	EmbM uint8
}
type Emb1 struct {
	Emb2
	EmbN bool
}

// EmbT: an embeddable struct whose own fields carry omit tags (they must survive whatever the
// configured default omit behaviour does to the untagged embedding field).
type EmbT struct {
	EmbKept  int    `ce:"omit_never"`
	EmbNZ    int16  `ce:"omit_zero"`
	EmbNE    []byte `ce:"omit_empty"`
	EmbPlain string
}

var embTSpec = &TypeSpec{K: "struct", Named: "EmbT", Fields: []FieldSpec{
	{Name: "EmbKept", Tag: `ce:"omit_never"`, Type: &TypeSpec{K: "int"}},
	{Name: "EmbNZ", Tag: `ce:"omit_zero"`, Type: &TypeSpec{K: "int16"}},
	{Name: "EmbNE", Tag: `ce:"omit_empty"`, Type: &TypeSpec{K: "slice", Elem: &TypeSpec{K: "uint8"}}},
	{Name: "EmbPlain", Type: &TypeSpec{K: "string"}}}}

var emb3Spec = &TypeSpec{K: "struct", Named: "Emb3", Fields: []FieldSpec{{Name: "EmbP", Type: &TypeSpec{K: "int"}}, {Name: "EmbQ", Type: &TypeSpec{K: "string"}}, {Name: "EmbR", Type: &TypeSpec{K: "int16"}}}}
var emb2Spec = &TypeSpec{K: "struct", Named: "Emb2", Fields: []FieldSpec{{Name: "Emb3", Embedded: true, Type: emb3Spec}, {Name: "EmbM", Type: &TypeSpec{K: "uint8"}}}}
var emb1Spec = &TypeSpec{K: "struct", Named: "Emb1", Fields: []FieldSpec{{Name: "Emb2", Embedded: true, Type: emb2Spec}, {Name: "EmbN", Type: &TypeSpec{K: "bool"}}}}

// NamedSpec returns the specification of a predeclared embeddable struct type.
func NamedSpec(name string) *TypeSpec { return namedSpecs[name] }

var namedSpecs = map[string]*TypeSpec{
	"Emb1": emb1Spec, "Emb2": emb2Spec, "Emb3": emb3Spec, "EmbT": embTSpec,
	"EmbA": {K: "struct", Named: "EmbA", Fields: []FieldSpec{{Name: "EmbInt", Type: &TypeSpec{K: "int"}}, {Name: "EmbName", Type: &TypeSpec{K: "string"}}}},
	"EmbB": {K: "struct", Named: "EmbB", Fields: []FieldSpec{{Name: "EmbFlag", Type: &TypeSpec{K: "bool"}}, {Name: "EmbBytes", Type: &TypeSpec{K: "slice", Elem: &TypeSpec{K: "uint8"}}}}},
}
var namedTypes = map[string]reflect.Type{"EmbA": reflect.TypeOf(EmbA{}), "EmbB": reflect.TypeOf(EmbB{}),
	"Emb1": reflect.TypeOf(Emb1{}), "Emb2": reflect.TypeOf(Emb2{}), "Emb3": reflect.TypeOf(Emb3{}), "EmbT": reflect.TypeOf(EmbT{})}

var intKinds = []string{"int", "int8", "int16", "int32", "int64", "uint", "uint8", "uint16", "uint32", "uint64"}
var scalarKinds = append([]string{"bool", "float32", "float64", "string", "string"}, intKinds...)
var typedElemKinds = []string{"uint8", "uint8", "uint16", "uint32", "uint64", "uint", "int8", "int16", "int32", "int64", "int", "float32", "float64", "bool", "bool"}
var specialKinds = []string{"time", "ctime", "bigint", "bigfloat", "apd", "dfloat", "url", "uid", "media"}
var keyKinds = []string{"string", "string", "int", "int8", "int16", "int32", "int64", "uint", "uint8", "uint16", "uint32", "uint64", "bool", "uid"}
var fieldNames = []string{"A", "B", "C", "Name", "Value", "Count", "FirstName", "UserID", "Data", "X1", "Flag", "Items", "Inner", "When", "Big"}

func pick(t *rapid.T, label string, xs []string) string {
	return xs[rapid.IntRange(0, len(xs)-1).Draw(t, label)]
}

// GenType draws a type spec.
func GenType(t *rapid.T, o *ValOpts, depth int) *TypeSpec {
	leafOnly := depth >= o.MaxDepth
	for {
		k := rapid.IntRange(0, 19).Draw(t, "type.class")
		switch {
		case k <= 5:
			return &TypeSpec{K: pick(t, "type.scalar", scalarKinds)}
		case k <= 8: // typed slices / arrays
			elem := &TypeSpec{K: pick(t, "type.telem", typedElemKinds)}
			if (elem.K == "int" || elem.K == "uint" || elem.K == "bool") && o.avoid("S47-platform-int-and-bool-arrays-unbuildable") {
				continue
			}
			if rapid.IntRange(0, 3).Draw(t, "type.tarr") == 0 {
				return &TypeSpec{K: "array", Elem: elem, Len: rapid.IntRange(0, 20).Draw(t, "type.tlen")}
			}
			return &TypeSpec{K: "slice", Elem: elem}
		case k <= 10:
			if !o.Special {
				continue
			}
			s := &TypeSpec{K: pick(t, "type.special", specialKinds)}
			wantPtr := rapid.IntRange(0, 3).Draw(t, "type.sptr") == 0
			if o.BigPtrBias && (s.K == "bigint" || s.K == "bigfloat" || s.K == "apd" || s.K == "ctime" || s.K == "time" || s.K == "url") {
				wantPtr = rapid.IntRange(0, 3).Draw(t, "type.bptr") != 0
			}
			if wantPtr {
				return &TypeSpec{K: "ptr", Elem: s}
			}
			return s
		case k == 11:
			if !o.Iface {
				continue
			}
			return &TypeSpec{K: "iface"}
		case k == 12:
			if !o.NodeEdge {
				continue
			}
			if rapid.Bool().Draw(t, "type.node") || o.avoid("S4-edge-iterator-no-end") {
				return &TypeSpec{K: "node"}
			}
			return &TypeSpec{K: "edge"}
		case leafOnly:
			continue
		case k <= 14:
			elem := GenType(t, o, depth+1)
			if (elem.K == "int" || elem.K == "uint" || elem.K == "bool") && o.avoid("S47-platform-int-and-bool-arrays-unbuildable") {
				continue
			}
			if rapid.IntRange(0, 4).Draw(t, "type.arr") == 0 {
				return &TypeSpec{K: "array", Elem: elem, Len: rapid.IntRange(0, 4).Draw(t, "type.alen")}
			}
			return &TypeSpec{K: "slice", Elem: elem}
		case k == 15:
			return &TypeSpec{K: "map", Key: &TypeSpec{K: pick(t, "type.key", keyKinds)}, Elem: GenType(t, o, depth+1)}
		case k == 16:
			return &TypeSpec{K: "ptr", Elem: GenType(t, o, depth+1)}
		default:
			return genStruct(t, o, depth)
		}
	}
}

func genStruct(t *rapid.T, o *ValOpts, depth int) *TypeSpec {
	n := rapid.IntRange(1, 6).Draw(t, "struct.n")
	s := &TypeSpec{K: "struct"}
	used := map[string]bool{}
	for i := 0; i < n; i++ {
		if o.Embedded && rapid.IntRange(0, 5).Draw(t, "struct.emb") == 0 {
			name := pick(t, "struct.embname", []string{"EmbA", "EmbB", "Emb1", "Emb2", "EmbT"})
			if (name == "Emb1" || name == "Emb2") && (used["Emb1"] || used["Emb2"]) {
				name = "EmbA" // Emb1 and Emb2 promote the same field names
			}
			if !used[name] {
				used[name] = true
				s.Fields = append(s.Fields, FieldSpec{Name: name, Embedded: true, Type: namedSpecs[name]})
				continue
			}
		}
		name := pick(t, "struct.fname", fieldNames)
		if used[name] {
			name = fmt.Sprintf("%s%d", name, i)
		}
		used[name] = true
		s.Fields = append(s.Fields, FieldSpec{Name: name, Type: GenType(t, o, depth+1)})
	}
	return s
}

// ---------------------------------------------------------------------------------------------

func genInt(t *rapid.T, label string, bits int) int64 {
	var v int64
	switch rapid.IntRange(0, 4).Draw(t, label+".c") {
	case 0:
		v = int64(rapid.IntRange(-3, 3).Draw(t, label+".small"))
	case 1:
		v = rapid.SampledFrom([]int64{100, 101, -100, -101, 127, 128, -128, -129, 255, 256, 32767, 32768, -32768, -32769, 65535, 65536, 1 << 31, 1<<31 - 1, -(1 << 31), -(1 << 31) - 1,
			1<<32 - 1, 1 << 32, 1 << 40, 1 << 48, 1 << 53, 1<<53 + 1, 1 << 56, math.MaxInt64, math.MinInt64, math.MaxInt64 - 1, math.MinInt64 + 1}).Draw(t, label+".b")
	default:
		v = rapid.Int64().Draw(t, label+".r")
	}
	if bits < 64 {
		sh := uint(64 - bits)
		v = v << sh >> sh
	}
	return v
}

func genUint(t *rapid.T, label string, bits int) uint64 {
	var v uint64
	switch rapid.IntRange(0, 4).Draw(t, label+".c") {
	case 0:
		v = uint64(rapid.IntRange(0, 3).Draw(t, label+".small"))
	case 1:
		v = rapid.SampledFrom([]uint64{100, 101, 127, 128, 255, 256, 65535, 65536, 1<<31 - 1, 1 << 31, 1<<32 - 1, 1 << 32, 1 << 48, 1 << 53, 1<<63 - 1, 1 << 63, 1<<63 + 1, 1<<63 + 5, math.MaxUint64, math.MaxUint64 - 1}).Draw(t, label+".b")
	default:
		v = rapid.Uint64().Draw(t, label+".r")
	}
	if bits < 64 {
		v &= 1<<uint(bits) - 1
	}
	return v
}

var kindBits = map[string]int{"int": 64, "int8": 8, "int16": 16, "int32": 32, "int64": 64, "uint": 64, "uint8": 8, "uint16": 16, "uint32": 32, "uint64": 64}

var urlPool = []string{"http://example.com/a?b=c#d", "https://x.y/z", "mailto:me@example.com", "urn:isbn:0451450523", "file:///tmp/x", "a:b", "scheme://host:8080/path/to", "http://example.com/%C3%A9"}

var ianaZones = []string{"Europe/Berlin", "America/New_York", "Asia/Tokyo", "Australia/Sydney", "America/Argentina/Buenos_Aires", "Asia/Kolkata",
	// 26 - 32 characters: with the date fields in front of it such a name brings the binary encoding of the time to
	// the sizes at which an encoder's scratch buffer has to grow (31, 32, 33 bytes)
	"America/Indiana/Petersburg", "America/Kentucky/Monticello", "America/Indiana/Indianapolis", "America/North_Dakota/New_Salem", "America/Argentina/ComodRivadavia"}

func genTimeSpec(t *rapid.T, label string, o *ValOpts) *TimeSpec {
	ts := &TimeSpec{}
	switch rapid.IntRange(0, 3).Draw(t, label+".sc") {
	case 0:
		ts.Sec = rapid.Int64Range(0, 2000000000).Draw(t, label+".sec")
	case 1:
		ts.Sec = rapid.Int64Range(-62135596800+86400*366, 253402300799-86400*366).Draw(t, label+".wide") // years 2..9998
		if rapid.IntRange(0, 3).Draw(t, label+".ancient") == 0 {
			// years -300..2 in Go's astronomical numbering: year 1, year 0 (= 1 BC) and before
			ts.Sec = rapid.Int64Range(-71600000000, -62135596800+86400*800).Draw(t, label+".bc")
		}
	default:
		ts.Sec = rapid.Int64Range(1500000000, 1800000000).Draw(t, label+".near")
	}
	ts.Nsec = nanos(t, label)
	z := rapid.IntRange(0, 9).Draw(t, label+".zone")
	switch {
	case z <= 3:
		ts.Loc = "UTC"
	case z <= 5:
		ts.Loc = "Local"
	case z <= 8 || !o.FixedZone || o.avoid("S28-fixed-zone-offset-lost"):
		ts.Loc = ianaZones[rapid.IntRange(0, len(ianaZones)-1).Draw(t, label+".iana")]
	default:
		ts.Loc = "fixed"
		ts.Name = rapid.SampledFrom([]string{"", "CET", "X"}).Draw(t, label+".fname")
		ts.Off = rapid.IntRange(-14*60, 14*60).Draw(t, label+".foff") * 60
	}
	// Go's year 0 (1 BC) has no counterpart in the format (there is no year 0, and negative years are taken
	// over as they are): such a time is refused when marshaling, so it is outside every round-trip domain
	if ts.Time().Year() == 0 {
		ts.Sec += 2 * 366 * 86400
	}
	if o.YearZero && rapid.IntRange(0, 11).Draw(t, label+".year0") == 0 {
		ts.Sec = rapid.Int64Range(-62167219200+86400, -62135596800-86400).Draw(t, label+".year0sec")
	}
	return ts
}

// GenVal draws a value for the type.
func GenVal(t *rapid.T, o *ValOpts, s *TypeSpec, depth int) *Val {
	switch s.K {
	case "bool":
		return &Val{B: rapid.Bool().Draw(t, "v.bool")}
	case "int", "int8", "int16", "int32", "int64":
		return &Val{I: genInt(t, "v.int", kindBits[s.K])}
	case "uint", "uint8", "uint16", "uint32", "uint64":
		return &Val{U: genUint(t, "v.uint", kindBits[s.K])}
	case "float32":
		var f float32
		if !o.NoNaN && rapid.IntRange(0, 15).Draw(t, "v.f32nan") == 0 {
			f = math.Float32frombits(0x7fc00000 | uint32(rapid.IntRange(0, 1).Draw(t, "v.f32sig"))<<0)
			if rapid.Bool().Draw(t, "v.f32snan") && !o.avoid("S44-float32-snan-quieted") {
				f = math.Float32frombits(0x7f800001)
			}
		} else {
			f = float32(Float64NonNaN(t, "v.f32"))
			if math.IsInf(float64(f), 0) && rapid.Bool().Draw(t, "v.f32noinf") {
				f = 1.25
			}
		}
		return &Val{F: uint64(math.Float32bits(f))}
	case "float64":
		if !o.NoNaN && rapid.IntRange(0, 15).Draw(t, "v.f64nan") == 0 {
			return &Val{F: math.Float64bits(Float64NaN(t, "v.nan", rapid.Bool().Draw(t, "v.nansig")))}
		}
		return &Val{F: math.Float64bits(Float64NonNaN(t, "v.f64"))}
	case "string":
		if rapid.IntRange(0, 9).Draw(t, "v.strlong") == 0 {
			// a long string that needs no escape, at and around the sizes at which the encoders' scratch buffers grow
			n := rapid.SampledFrom([]int{31, 32, 33, 34, 63, 64, 65, 100, 130}).Draw(t, "v.strlen")
			b := make([]byte, n)
			for i := range b {
				b[i] = "abcdefghijklmnopqrstuvwxyz0123456789"[(i*7+n)%36]
			}
			return &Val{S: b}
		}
		return &Val{S: []byte(UTF8String(t, "v.str", 12, rapid.Bool().Draw(t, "v.strfull")))}
	case "slice", "array":
		n := s.Len
		typed := false
		for _, k := range typedElemKinds {
			if s.Elem.K == k {
				typed = true
			}
		}
		nilOK := o.inStructField
		o.inStructField = false
		if s.K == "slice" {
			if rapid.IntRange(0, 7).Draw(t, "v.slnil") == 0 && (typed || nilOK || !o.avoid("S48-null-into-map")) {
				return &Val{Nil: true}
			}
			if typed {
				switch rapid.IntRange(0, 4).Draw(t, "v.tlenc") {
				case 0:
					n = rapid.IntRange(13, 18).Draw(t, "v.tlen15")
				case 1:
					n = rapid.IntRange(0, o.MaxTyped).Draw(t, "v.tlenbig")
				default:
					n = rapid.IntRange(0, 9).Draw(t, "v.tlen")
				}
			} else {
				n = rapid.IntRange(0, o.MaxElems).Draw(t, "v.slen")
			}
		}
		v := &Val{}
		for i := 0; i < n; i++ {
			v.Elems = append(v.Elems, GenVal(t, o, s.Elem, depth+1))
		}
		return v
	case "map":
		nilOK := o.inStructField
		o.inStructField = false
		if rapid.IntRange(0, 7).Draw(t, "v.mnil") == 0 && (nilOK || !o.avoid("S48-null-into-map")) {
			return &Val{Nil: true}
		}
		n := rapid.IntRange(0, o.MaxElems).Draw(t, "v.mlen")
		v := &Val{}
		seen := map[string]bool{}
		for i := 0; i < n; i++ {
			k := GenVal(t, o, s.Key, depth+1)
			id := fmt.Sprintf("%v|%d|%d|%x", k.B, k.I, k.U, k.S)
			if seen[id] {
				continue
			}
			seen[id] = true
			v.Keys = append(v.Keys, k)
			v.Elems = append(v.Elems, GenVal(t, o, s.Elem, depth+1))
		}
		return v
	case "ptr":
		if rapid.IntRange(0, 5).Draw(t, "v.pnil") == 0 {
			return &Val{Nil: true}
		}
		return &Val{P: GenVal(t, o, s.Elem, depth+1)}
	case "struct":
		v := &Val{}
		for _, f := range s.Fields {
			o.inStructField = (f.Type.K == "map" || f.Type.K == "slice") && !o.FieldsAlwaysWritten
			v.Elems = append(v.Elems, GenVal(t, o, f.Type, depth+1))
			o.inStructField = false
		}
		return v
	case "iface":
		return genIfaceVal(t, o, depth, true)
	case "time":
		return &Val{T: genTimeSpec(t, "v.time", o)}
	case "ctime":
		tv := TimeValue(t, "v.ctime")
		if o.HandBuiltTimes && tv.Timezone.LongAreaLocation != "" && rapid.IntRange(0, 2).Draw(t, "v.ctime.handbuilt") == 0 {
			tv.Timezone.ShortAreaLocation = ""
		}
		return &Val{CT: &ev.Event{K: ev.Time, T: tv}}
	case "bigint":
		return &Val{Num: BigIntValue(t, "v.bigint").String()}
	case "bigfloat":
		f := BigFloatValueMax(t, "v.bigfloat", o.WideBigFloat, 1200)
		if o.WideBigFloat && f != nil && rapid.IntRange(0, 2).Draw(t, "v.bigfloat.hasmode") == 0 {
			// a rounding mode other than the default is part of the caller's value too
			f.SetMode(big.RoundingMode(rapid.IntRange(1, 5).Draw(t, "v.bigfloat.mode")))
		}
		return &Val{Num: ev.BigFloatToText(f)}
	case "apd":
		return &Val{Num: ev.APDToText(APDValue(t, "v.apd", false))}
	case "dfloat":
		d := DFloatValue(t, "v.dfloat", false)
		return &Val{DF: [2]int64{int64(d.Exponent), d.Coefficient}}
	case "url":
		return &Val{S: []byte(pick(t, "v.url", urlPool))}
	case "uid":
		return &Val{S: rapid.SliceOfN(rapid.Byte(), 16, 16).Draw(t, "v.uid")}
	case "media":
		n := rapid.IntRange(0, 20).Draw(t, "v.medialen")
		return &Val{Num: MediaType(t, "v.mediatype"), S: rapid.SliceOfN(rapid.Byte(), n, n).Draw(t, "v.media")}
	case "node":
		v := &Val{P: genIfaceVal(t, o, depth+1, true)}
		for i, n := 0, rapid.IntRange(0, 3).Draw(t, "v.nodechildren"); i < n; i++ {
			v.Elems = append(v.Elems, genIfaceVal(t, o, depth+1, true))
		}
		return v
	case "edge":
		return &Val{Elems: []*Val{genIfaceVal(t, o, depth+1, false), genIfaceVal(t, o, depth+1, true), genIfaceVal(t, o, depth+1, false)}}
	}
	panic("GenVal: unknown kind " + s.K)
}

// genIfaceVal draws the content of an interface{} position: nil or a dynamic value of a kind whose
// dynamic type (up to the documented numeric widening) survives a round trip.
func genIfaceVal(t *rapid.T, o *ValOpts, depth int, allowNil bool) *Val {
	if allowNil && rapid.IntRange(0, 5).Draw(t, "if.nil") == 0 {
		return &Val{}
	}
	if o.IfaceContainers && depth < o.MaxDepth && rapid.IntRange(0, 2).Draw(t, "if.container") == 0 {
		no := *o
		no.NoNaN = true
		var dyn *TypeSpec
		switch rapid.IntRange(0, 3).Draw(t, "if.ckind") {
		case 0:
			dyn = genStruct(t, &no, depth+1)
		case 1:
			dyn = &TypeSpec{K: "ptr", Elem: genStruct(t, &no, depth+1)}
		case 2:
			dyn = &TypeSpec{K: "slice", Elem: &TypeSpec{K: "string"}}
		default:
			dyn = &TypeSpec{K: "map", Key: &TypeSpec{K: "string"}, Elem: &TypeSpec{K: "int64"}}
		}
		return &Val{Dyn: dyn, P: GenVal(t, &no, dyn, depth+1)}
	}
	kinds := []string{"bool", "int", "int64", "uint64", "int8", "uint16", "float64", "string", "string"}
	dyn := &TypeSpec{K: pick(t, "if.kind", kinds)}
	if dyn.K == "float64" {
		// keep interface floats away from integral values (they legitimately come back as integers)
		f := Float64NonNaN(t, "if.f")
		if f == math.Trunc(f) && !math.IsInf(f, 0) {
			f += 0.5
		}
		return &Val{Dyn: dyn, P: &Val{F: math.Float64bits(f)}}
	}
	no := *o
	no.NoNaN = true
	return &Val{Dyn: dyn, P: GenVal(t, &no, dyn, depth+1)}
}

var _ = big.NewInt
