package gen

import (
	"pgregory.net/rapid"
)

// G-MUT: byte-level mutators and hostile document families for the robustness / cost properties.

// HostileULEB are length / count fields that declare far more than any document holds.
var HostileULEB = [][]byte{
	{0x7f}, {0xff, 0x01}, {0xff, 0x7f}, {0xff, 0xff, 0x03}, {0xff, 0xff, 0xff, 0x07}, {0xff, 0xff, 0xff, 0xff, 0x0f},
	{0xff, 0xff, 0xff, 0xff, 0xff, 0xff, 0xff, 0xff, 0x7f}, {0xff, 0xff, 0xff, 0xff, 0xff, 0xff, 0xff, 0xff, 0xff, 0x01},
	{0x80, 0x80, 0x80, 0x80, 0x80, 0x80, 0x80, 0x80, 0x80, 0x80, 0x80, 0x80, 0x01}, {0x80}, {0x00}, {0x01}, {0xfe, 0xff, 0xff, 0xff, 0x1f},
}

var cbeOpeners = []byte{0x9a, 0x99, 0x98, 0x97, 0x96}
var cbeInteresting = []byte{0x00, 0x01, 0x64, 0x65, 0x66, 0x67, 0x6e, 0x6f, 0x76, 0x77, 0x7a, 0x7b, 0x7c, 0x7d, 0x7e, 0x7f, 0x80, 0x8f, 0x90, 0x91, 0x92, 0x93, 0x94, 0x95,
	0x96, 0x97, 0x98, 0x99, 0x9a, 0x9b, 0x9c, 0xe0, 0xe2, 0xea, 0xf0, 0xf1, 0xf2, 0xf3, 0xff}

var cteTokens = []string{"[", "]", "{", "}", "(", ")", "@(", "<", ">", "=", "null", "true", "false", "1", "-1", "0x1p5", "1.5e300", "inf", "-inf", "nan", "snan",
	"\"a\"", "\"", "\\", "\\.", "\\[41]", "\\n", "&a:", "$a", "&", "$", ":", "@", "@\"x\"", "@u8x[", "@i16[", "@f32[", "@b[", "@uid[", "@a<", "@a{", "@application/x[", "1 2 3", "ff", "0101",
	"|", "|x 1|", "|t \"", "//", "/*", "*/", "\n", " ", "\t", "\r\n", ",", "2000-01-01", "2000-01-01/10:00:00/Z", "10:00:00", "10:00:00/12.34/56.78", "f1e2d3c4-b5a6-9788-7766-554433221100",
	"0b101", "0o17", "0xff", "_", "1_000", "-0", "-0.0", "1e", "0x", "c0", "c1", "C0", "\x00", "\xff", " ", "é", "𝄞"}

func hostile(t *rapid.T) []byte {
	return append([]byte{}, HostileULEB[rapid.IntRange(0, len(HostileULEB)-1).Draw(t, "hostile")]...)
}

// Mutate applies 1-3 random byte-level mutations to a document (never returns the input slice).
func Mutate(t *rapid.T, doc []byte, other []byte, isCBE bool) ([]byte, string) {
	out := append([]byte{}, doc...)
	note := ""
	for i, n := 0, rapid.IntRange(1, 3).Draw(t, "mut.n"); i < n; i++ {
		if len(out) == 0 {
			out = append(out, byte(rapid.IntRange(0, 255).Draw(t, "mut.b")))
			continue
		}
		pos := rapid.IntRange(0, len(out)-1).Draw(t, "mut.pos")
		switch rapid.IntRange(0, 10).Draw(t, "mut.op") {
		case 0:
			out[pos] ^= byte(1 << uint(rapid.IntRange(0, 7).Draw(t, "mut.bit")))
			note += "flip "
		case 1:
			if isCBE {
				out[pos] = cbeInteresting[rapid.IntRange(0, len(cbeInteresting)-1).Draw(t, "mut.ib")]
			} else {
				out[pos] = byte(rapid.IntRange(0, 255).Draw(t, "mut.rb"))
			}
			note += "set "
		case 2:
			var ins []byte
			if isCBE {
				ins = []byte{cbeInteresting[rapid.IntRange(0, len(cbeInteresting)-1).Draw(t, "mut.ib")]}
			} else {
				ins = []byte(cteTokens[rapid.IntRange(0, len(cteTokens)-1).Draw(t, "mut.tok")])
			}
			out = append(out[:pos], append(ins, out[pos:]...)...)
			note += "insert "
		case 3:
			end := pos + rapid.IntRange(1, 4).Draw(t, "mut.dl")
			if end > len(out) {
				end = len(out)
			}
			out = append(out[:pos], out[end:]...)
			note += "delete "
		case 4:
			end := pos + rapid.IntRange(1, 8).Draw(t, "mut.dup")
			if end > len(out) {
				end = len(out)
			}
			seg := append([]byte{}, out[pos:end]...)
			out = append(out[:end], append(seg, out[end:]...)...)
			note += "dup "
		case 5:
			out = out[:pos]
			note += "truncate "
		case 6: // overwrite with a hostile length field
			h := hostile(t)
			out = append(out[:pos], append(h, out[min(len(out), pos+1):]...)...)
			note += "hostile-length "
		case 7: // splice with another document
			if len(other) > 2 {
				q := rapid.IntRange(2, len(other)-1).Draw(t, "mut.sp")
				out = append(out[:pos], other[q:]...)
				note += "splice "
			}
		case 8: // nest-repeat
			k := rapid.SampledFrom([]int{2, 10, 100, 1000, 5000}).Draw(t, "mut.nest")
			if !isCBE && k > 400 {
				k = 400 // the ANTLR-generated CTE parser is quadratic in the nesting depth (C08 finding); keep C07 about termination
			}
			var op []byte
			if isCBE {
				op = []byte{cbeOpeners[rapid.IntRange(0, len(cbeOpeners)-1).Draw(t, "mut.op2")]}
			} else {
				op = []byte(rapid.SampledFrom([]string{"[", "{", "(", "@(", "[[", "{1=", "&a:[", "/*"}).Draw(t, "mut.op3"))
			}
			rep := make([]byte, 0, k*len(op))
			for j := 0; j < k; j++ {
				rep = append(rep, op...)
			}
			out = append(out[:pos], append(rep, out[pos:]...)...)
			note += "nest "
		case 9: // random bytes appended
			out = append(out, rapid.SliceOfN(rapid.Byte(), 1, 6).Draw(t, "mut.tail")...)
			note += "tail "
		default:
			out[pos] = byte(rapid.IntRange(0, 255).Draw(t, "mut.rb2"))
			note += "setrand "
		}
	}
	return out, note
}

// CBESoup draws a CBE document made of random type codes with (mostly) plausible payload lengths.
func CBESoup(t *rapid.T, maxTokens int) []byte {
	out := []byte{0x81, 0x00}
	for i, n := 0, rapid.IntRange(0, maxTokens).Draw(t, "soup.n"); i < n; i++ {
		var c byte
		if rapid.Bool().Draw(t, "soup.interesting") {
			c = cbeInteresting[rapid.IntRange(0, len(cbeInteresting)-1).Draw(t, "soup.c")]
		} else {
			c = byte(rapid.IntRange(0, 255).Draw(t, "soup.rc"))
		}
		out = append(out, c)
		switch rapid.IntRange(0, 4).Draw(t, "soup.payload") {
		case 0:
		case 1:
			out = append(out, rapid.SliceOfN(rapid.Byte(), 1, 9).Draw(t, "soup.bytes")...)
		case 2:
			out = append(out, hostile(t)...)
		case 3:
			out = append(out, byte(rapid.IntRange(0, 40).Draw(t, "soup.len")))
			out = append(out, rapid.SliceOfN(rapid.Byte(), 0, 12).Draw(t, "soup.data")...)
		default:
			out = append(out, cbeInteresting[rapid.IntRange(0, len(cbeInteresting)-1).Draw(t, "soup.c2")])
		}
	}
	return out
}

// CTESoup draws a CTE document made of random tokens.
func CTESoup(t *rapid.T, maxTokens int) []byte {
	out := []byte(rapid.SampledFrom([]string{"c0\n", "c0 ", "c1\n", "C0\n", "c0", "c0\n\n", "c"}).Draw(t, "soup.hdr"))
	for i, n := 0, rapid.IntRange(0, maxTokens).Draw(t, "soup.n"); i < n; i++ {
		out = append(out, cteTokens[rapid.IntRange(0, len(cteTokens)-1).Draw(t, "soup.tok")]...)
		if rapid.IntRange(0, 2).Draw(t, "soup.ws") > 0 {
			out = append(out, ' ')
		}
	}
	return out
}

// Nest builds a deeply nested document: open k containers (never closed, or closed) around a leaf.
func Nest(t *rapid.T, isCBE bool, k int) []byte {
	closeIt := rapid.Bool().Draw(t, "nest.close")
	if isCBE {
		op := cbeOpeners[rapid.IntRange(0, len(cbeOpeners)-1).Draw(t, "nest.op")]
		out := []byte{0x81, 0x00}
		for i := 0; i < k; i++ {
			out = append(out, op)
			switch op {
			case 0x99: // map: key
				out = append(out, 0x01)
			case 0x98, 0x97: // node value / edge source
				out = append(out, 0x01)
			case 0x96: // record: identifier length 1 + 'a'
				out = append(out, 0x01, 'a')
			}
		}
		out = append(out, 0x01)
		if closeIt {
			for i := 0; i < k; i++ {
				out = append(out, 0x9b)
			}
		}
		return out
	}
	type pc struct{ o, c string }
	p := rapid.SampledFrom([]pc{{"[", "]"}, {"{1=", "}"}, {"(1 ", ")"}, {"@(1 2 ", ")"}, {"&a:[", "]"}, {"/*", "*/"}, {"[/**/", "]"}, {"\"", ""}, {"|a ", "|"}, {"@a<", ">"}}).Draw(t, "nest.pair")
	out := []byte("c0\n")
	for i := 0; i < k; i++ {
		out = append(out, p.o...)
	}
	out = append(out, '1')
	if closeIt {
		for i := 0; i < k; i++ {
			out = append(out, p.c...)
		}
	}
	return out
}
