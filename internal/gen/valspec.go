package gen

import (
	"bytes"
	"encoding/json"
	"fmt"
	"math"
	"math/big"
	"net/url"
	"reflect"
	"time"

	"github.com/cockroachdb/apd/v2"
	compact_float "github.com/kstenerud/go-compact-float"
	compact_time "github.com/kstenerud/go-compact-time"
	"github.com/kstenerud/go-concise-encoding/types"

	"verif/internal/ev"
)

// TypeSpec describes a Go type built from the kinds the library supports; it is JSON-serialisable so
// that a replay file can rebuild the exact type with reflect.
type TypeSpec struct {
	K      string      `json:"k"`
	Elem   *TypeSpec   `json:"elem,omitempty"`
	Key    *TypeSpec   `json:"key,omitempty"`
	Len    int         `json:"len,omitempty"`
	Fields []FieldSpec `json:"fields,omitempty"`
	Named  string      `json:"named,omitempty"` // a predeclared named struct type (embeddable)
}

type FieldSpec struct {
	Name     string    `json:"name"`
	Tag      string    `json:"tag,omitempty"`
	Embedded bool      `json:"embedded,omitempty"`
	Type     *TypeSpec `json:"type"`
}

// TimeSpec describes a time.Time.
type TimeSpec struct {
	Sec  int64  `json:"sec"`
	Nsec int    `json:"nsec"`
	Loc  string `json:"loc"`            // UTC | Local | <IANA name> | fixed
	Name string `json:"name,omitempty"` // fixed zone name
	Off  int    `json:"off,omitempty"`  // fixed zone offset seconds
}

// Val describes a value of a TypeSpec.
type Val struct {
	Nil   bool      `json:"nil,omitempty"`
	B     bool      `json:"b,omitempty"`
	I     int64     `json:"i,omitempty"`
	U     uint64    `json:"u,omitempty"`
	F     uint64    `json:"f,omitempty"` // float bits (float32 bits for float32)
	S     []byte    `json:"s,omitempty"`
	Num   string    `json:"num,omitempty"`
	DF    [2]int64  `json:"df,omitempty"`
	T     *TimeSpec `json:"t,omitempty"`
	CT    *ev.Event `json:"ct,omitempty"` // compact time carried as a time event
	Elems []*Val    `json:"elems,omitempty"`
	Keys  []*Val    `json:"keys,omitempty"`
	Dyn   *TypeSpec `json:"dyn,omitempty"`
	P     *Val      `json:"p,omitempty"`
}

func (s *TypeSpec) String() string { b, _ := json.Marshal(s); return string(b) }

var basicTypes = map[string]reflect.Type{
	"bool": reflect.TypeOf(false), "int": reflect.TypeOf(int(0)), "int8": reflect.TypeOf(int8(0)), "int16": reflect.TypeOf(int16(0)),
	"int32": reflect.TypeOf(int32(0)), "int64": reflect.TypeOf(int64(0)), "uint": reflect.TypeOf(uint(0)), "uint8": reflect.TypeOf(uint8(0)),
	"uint16": reflect.TypeOf(uint16(0)), "uint32": reflect.TypeOf(uint32(0)), "uint64": reflect.TypeOf(uint64(0)),
	"float32": reflect.TypeOf(float32(0)), "float64": reflect.TypeOf(float64(0)), "string": reflect.TypeOf(""),
	"iface": reflect.TypeOf((*interface{})(nil)).Elem(), "time": reflect.TypeOf(time.Time{}), "ctime": reflect.TypeOf(compact_time.Time{}),
	"bigint": reflect.TypeOf(big.Int{}), "bigfloat": reflect.TypeOf(big.Float{}), "apd": reflect.TypeOf(apd.Decimal{}),
	"dfloat": reflect.TypeOf(compact_float.DFloat{}), "url": reflect.TypeOf(url.URL{}), "uid": reflect.TypeOf(types.UID{}),
	"media": reflect.TypeOf(types.Media{}), "node": reflect.TypeOf(types.Node{}), "edge": reflect.TypeOf(types.Edge{}),
}

// Realize builds the reflect.Type.
func (s *TypeSpec) Realize() reflect.Type {
	if t, ok := basicTypes[s.K]; ok {
		return t
	}
	switch s.K {
	case "slice":
		return reflect.SliceOf(s.Elem.Realize())
	case "array":
		return reflect.ArrayOf(s.Len, s.Elem.Realize())
	case "map":
		return reflect.MapOf(s.Key.Realize(), s.Elem.Realize())
	case "ptr":
		return reflect.PtrTo(s.Elem.Realize())
	case "struct":
		if s.Named != "" {
			return namedTypes[s.Named]
		}
		fs := make([]reflect.StructField, len(s.Fields))
		for i, f := range s.Fields {
			fs[i] = reflect.StructField{Name: f.Name, Type: f.Type.Realize(), Tag: reflect.StructTag(f.Tag), Anonymous: f.Embedded}
		}
		return reflect.StructOf(fs)
	}
	panic("TypeSpec.Realize: unknown kind " + s.K)
}

func (t *TimeSpec) Time() time.Time {
	var loc *time.Location
	switch t.Loc {
	case "UTC":
		loc = time.UTC
	case "Local":
		loc = time.Local
	case "fixed":
		loc = time.FixedZone(t.Name, t.Off)
	default:
		l, err := time.LoadLocation(t.Loc)
		if err != nil {
			panic(err)
		}
		loc = l
	}
	return time.Unix(t.Sec, int64(t.Nsec)).In(loc)
}

func bigIntOf(s string) *big.Int {
	v, ok := new(big.Int).SetString(s, 10)
	if !ok {
		panic("bad big int " + s)
	}
	return v
}

// Build constructs the Go value. The result is addressable (allocated with reflect.New).
func Build(s *TypeSpec, v *Val) reflect.Value {
	t := s.Realize()
	out := reflect.New(t).Elem()
	switch s.K {
	case "bool":
		out.SetBool(v.B)
	case "int", "int8", "int16", "int32", "int64":
		out.SetInt(v.I)
	case "uint", "uint8", "uint16", "uint32", "uint64":
		out.SetUint(v.U)
	case "float32":
		out.Set(reflect.ValueOf(math.Float32frombits(uint32(v.F))))
	case "float64":
		out.Set(reflect.ValueOf(math.Float64frombits(v.F)))
	case "string":
		out.SetString(string(v.S))
	case "slice":
		if v.Nil {
			return out
		}
		sl := reflect.MakeSlice(t, len(v.Elems), len(v.Elems))
		for i, e := range v.Elems {
			sl.Index(i).Set(Build(s.Elem, e))
		}
		out.Set(sl)
	case "array":
		for i, e := range v.Elems {
			out.Index(i).Set(Build(s.Elem, e))
		}
	case "map":
		if v.Nil {
			return out
		}
		m := reflect.MakeMapWithSize(t, len(v.Keys))
		for i := range v.Keys {
			m.SetMapIndex(Build(s.Key, v.Keys[i]), Build(s.Elem, v.Elems[i]))
		}
		out.Set(m)
	case "ptr":
		if v.Nil {
			return out
		}
		p := reflect.New(t.Elem())
		p.Elem().Set(Build(s.Elem, v.P))
		out.Set(p)
	case "struct":
		for i, f := range s.Fields {
			out.Field(i).Set(Build(f.Type, v.Elems[i]))
		}
	case "iface":
		if v.Dyn == nil {
			return out
		}
		out.Set(Build(v.Dyn, v.P))
	case "time":
		out.Set(reflect.ValueOf(v.T.Time()))
	case "ctime":
		out.Set(reflect.ValueOf(v.CT.T))
	case "bigint":
		out.Set(reflect.ValueOf(*bigIntOf(v.Num)))
	case "bigfloat":
		out.Set(reflect.ValueOf(*ev.BigFloatFromText(v.Num)))
	case "apd":
		out.Set(reflect.ValueOf(*ev.APDFromText(v.Num)))
	case "dfloat":
		out.Set(reflect.ValueOf(compact_float.DFloat{Exponent: int32(v.DF[0]), Coefficient: v.DF[1]}))
	case "url":
		u, err := url.Parse(string(v.S))
		if err != nil {
			panic(err)
		}
		out.Set(reflect.ValueOf(*u))
	case "uid":
		var u types.UID
		copy(u[:], v.S)
		out.Set(reflect.ValueOf(u))
	case "media":
		m := types.Media{MediaType: v.Num}
		if !v.Nil {
			m.Data = append([]byte{}, v.S...)
		}
		out.Set(reflect.ValueOf(m))
	case "node":
		n := types.Node{}
		if v.P != nil {
			n.Value = Build(&TypeSpec{K: "iface"}, v.P).Interface()
		}
		if !v.Nil {
			n.Children = make([]interface{}, len(v.Elems))
			for i, e := range v.Elems {
				n.Children[i] = Build(&TypeSpec{K: "iface"}, e).Interface()
			}
		}
		out.Set(reflect.ValueOf(n))
	case "edge":
		e := types.Edge{}
		e.Source = Build(&TypeSpec{K: "iface"}, v.Elems[0]).Interface()
		e.Description = Build(&TypeSpec{K: "iface"}, v.Elems[1]).Interface()
		e.Destination = Build(&TypeSpec{K: "iface"}, v.Elems[2]).Interface()
		out.Set(reflect.ValueOf(e))
	default:
		panic("Build: unknown kind " + s.K)
	}
	return out
}

// ---------------------------------------------------------------------------------------------
// Comparison of an actual Go value against the specified value

type EqMode struct {
	Strict bool // exact nil-ness, big-number internals (used for "value not modified" checks)
	// BigFloatTol: a big.Float that is not exactly a float64 may come back rounded to the decimal
	// digits its precision implies (CBE has no binary big-float type; the conversion is documented as
	// policy-free rounding). Relative tolerance 10^(1-d), d = decimal digits of the precision.
	BigFloatTol bool
}

func nanKindEq(a, b float64) bool {
	return (math.Float64bits(a)&(1<<51) != 0) == (math.Float64bits(b)&(1<<51) != 0)
}

func floatEq(a, b float64, strict bool) bool {
	if math.IsNaN(a) || math.IsNaN(b) {
		if strict {
			return math.Float64bits(a) == math.Float64bits(b)
		}
		// Go's == has no notion of equal NaNs and float32<->float64 conversions quiet signalling NaNs,
		// so value-level equality only asks for "a NaN"; the NaN kind is checked at event level (C01/C02).
		return math.IsNaN(a) && math.IsNaN(b)
	}
	return math.Float64bits(a) == math.Float64bits(b)
}

func float32Eq(a, b float32, strict bool) bool {
	fa, fb := float64(a), float64(b)
	if math.IsNaN(fa) || math.IsNaN(fb) {
		if strict {
			return math.Float32bits(a) == math.Float32bits(b)
		}
		return math.IsNaN(fa) && math.IsNaN(fb)
	}
	return math.Float32bits(a) == math.Float32bits(b)
}

func deref(a reflect.Value) reflect.Value {
	for a.IsValid() && (a.Kind() == reflect.Ptr || a.Kind() == reflect.Interface) {
		if a.IsNil() {
			return a
		}
		a = a.Elem()
	}
	return a
}

// Check compares actual against the value (s, v). path is used in messages.
func Check(a reflect.Value, s *TypeSpec, v *Val, m EqMode, path string) error {
	if !a.IsValid() {
		return fmt.Errorf("%s: invalid value, expected %s", path, s.K)
	}
	want := s.Realize()
	if a.Type() != want {
		return fmt.Errorf("%s: type %v, expected %v", path, a.Type(), want)
	}
	bad := func(format string, args ...interface{}) error {
		return fmt.Errorf("%s: "+format, append([]interface{}{path}, args...)...)
	}
	switch s.K {
	case "bool":
		if a.Bool() != v.B {
			return bad("bool %v, expected %v", a.Bool(), v.B)
		}
	case "int", "int8", "int16", "int32", "int64":
		if a.Int() != v.I {
			return bad("int %d, expected %d", a.Int(), v.I)
		}
	case "uint", "uint8", "uint16", "uint32", "uint64":
		if a.Uint() != v.U {
			return bad("uint %d, expected %d", a.Uint(), v.U)
		}
	case "float32":
		af := a.Interface().(float32) // not a.Float(): the float64 conversion would quiet a signalling NaN
		if !float32Eq(af, math.Float32frombits(uint32(v.F)), m.Strict) {
			return bad("float32 %x, expected %x", math.Float32bits(af), uint32(v.F))
		}
	case "float64":
		if !floatEq(a.Float(), math.Float64frombits(v.F), m.Strict) {
			return bad("float64 %x, expected %x", math.Float64bits(a.Float()), v.F)
		}
	case "string":
		if a.String() != string(v.S) {
			return bad("string %q, expected %q", a.String(), v.S)
		}
	case "slice":
		if v.Nil || len(v.Elems) == 0 {
			if m.Strict && a.IsNil() != v.Nil {
				return bad("slice nil=%v, expected nil=%v", a.IsNil(), v.Nil)
			}
			if a.Len() != 0 {
				return bad("slice of %d elements, expected none", a.Len())
			}
			return nil
		}
		if a.Len() != len(v.Elems) {
			return bad("slice of %d elements, expected %d", a.Len(), len(v.Elems))
		}
		for i, e := range v.Elems {
			if err := Check(a.Index(i), s.Elem, e, m, fmt.Sprintf("%s[%d]", path, i)); err != nil {
				return err
			}
		}
	case "array":
		for i, e := range v.Elems {
			if err := Check(a.Index(i), s.Elem, e, m, fmt.Sprintf("%s[%d]", path, i)); err != nil {
				return err
			}
		}
	case "map":
		if v.Nil || len(v.Keys) == 0 {
			if m.Strict && a.IsNil() != v.Nil {
				return bad("map nil=%v, expected nil=%v", a.IsNil(), v.Nil)
			}
			if a.Len() != 0 {
				return bad("map of %d entries, expected none", a.Len())
			}
			return nil
		}
		if a.Len() != len(v.Keys) {
			return bad("map of %d entries, expected %d", a.Len(), len(v.Keys))
		}
		for i := range v.Keys {
			k := Build(s.Key, v.Keys[i])
			av := a.MapIndex(k)
			if !av.IsValid() {
				return bad("map lacks key %v", k.Interface())
			}
			if err := Check(av, s.Elem, v.Elems[i], m, fmt.Sprintf("%s[%v]", path, k.Interface())); err != nil {
				return err
			}
		}
	case "ptr":
		if v.Nil {
			if !a.IsNil() {
				return bad("non-nil pointer, expected nil")
			}
			return nil
		}
		if a.IsNil() {
			// a pointer chain that ends in nil is written as one null: any level may come back nil
			if !m.Strict && endsInNil(s, v) {
				return nil
			}
			return bad("nil pointer, expected a value")
		}
		return Check(a.Elem(), s.Elem, v.P, m, path+"*")
	case "struct":
		for i, f := range s.Fields {
			if err := Check(a.Field(i), f.Type, v.Elems[i], m, path+"."+f.Name); err != nil {
				return err
			}
		}
	case "iface":
		return checkIface(a, v, m, path)
	case "time":
		at := a.Interface().(time.Time)
		wt := v.T.Time()
		if m.Strict {
			an, aoff := at.Zone()
			wn, woff := wt.Zone()
			if !at.Equal(wt) || an != wn || aoff != woff || at.Location().String() != wt.Location().String() {
				return bad("time %v, expected %v", at, wt)
			}
			return nil
		}
		_, ao := at.Zone()
		_, wo := wt.Zone()
		if !at.Equal(wt) || ao != wo {
			return bad("time %v, expected %v (instant and zone offset)", at.Format(time.RFC3339Nano), wt.Format(time.RFC3339Nano))
		}
	case "ctime":
		at := a.Interface().(compact_time.Time)
		if !at.IsEquivalentTo(v.CT.T) {
			return bad("compact time %v, expected %v", at, v.CT.T)
		}
		if m.Strict && at != v.CT.T {
			return bad("compact time %#v, expected %#v (field by field)", at, v.CT.T)
		}
	case "bigint":
		av := a.Interface().(big.Int)
		if av.Cmp(bigIntOf(v.Num)) != 0 {
			return bad("big.Int %v, expected %v", av.String(), v.Num)
		}
	case "bigfloat":
		av := a.Interface().(big.Float)
		wv := ev.BigFloatFromText(v.Num)
		if m.Strict {
			if !ev.BigFloatIdentical(&av, wv) || av.Mode() != wv.Mode() {
				return bad("big.Float %v, expected %v", ev.BigFloatToText(&av), v.Num)
			}
			return nil
		}
		if av.IsInf() != wv.IsInf() || av.Signbit() != wv.Signbit() || (!av.IsInf() && av.Cmp(wv) != 0) {
			if _, acc := wv.Float64(); m.BigFloatTol && acc != big.Exact && !av.IsInf() && !wv.IsInf() && av.Signbit() == wv.Signbit() {
				digits := int(float64(wv.Prec())*0.30103) - 1
				if digits < 1 {
					digits = 1
				}
				diff := new(big.Float).SetPrec(256).Sub(&av, wv)
				diff.Abs(diff)
				bound := new(big.Float).SetPrec(256).Abs(wv)
				scale := new(big.Float).SetPrec(256).SetInt(new(big.Int).Exp(big.NewInt(10), big.NewInt(int64(digits-1)), nil))
				bound.Quo(bound, scale)
				if diff.Cmp(bound) <= 0 {
					return nil
				}
			}
			return bad("big.Float %v, expected %v", ev.BigFloatToText(&av), v.Num)
		}
	case "apd":
		av := a.Interface().(apd.Decimal)
		wv := ev.APDFromText(v.Num)
		if m.Strict {
			if !ev.APDIdentical(&av, wv) {
				return bad("apd.Decimal %v, expected %v", ev.APDToText(&av), v.Num)
			}
			return nil
		}
		if !apdValueEq(&av, wv) {
			return bad("apd.Decimal %v, expected %v", ev.APDToText(&av), v.Num)
		}
	case "dfloat":
		av := a.Interface().(compact_float.DFloat)
		wv := compact_float.DFloat{Exponent: int32(v.DF[0]), Coefficient: v.DF[1]}
		if m.Strict {
			if av != wv {
				return bad("DFloat %v, expected %v", av, wv)
			}
			return nil
		}
		if !apdValueEq(av.APD(), wv.APD()) || av.IsNegativeZero() != wv.IsNegativeZero() {
			return bad("DFloat %v, expected %v", av, wv)
		}
	case "url":
		av := a.Interface().(url.URL)
		if av.String() != string(v.S) {
			return bad("url %q, expected %q", av.String(), v.S)
		}
	case "uid":
		av := a.Interface().(types.UID)
		if !bytes.Equal(av[:], v.S) {
			return bad("uid %x, expected %x", av[:], v.S)
		}
	case "media":
		av := a.Interface().(types.Media)
		if av.MediaType != v.Num || !bytes.Equal(av.Data, v.S) {
			return bad("media (%q,%x), expected (%q,%x)", av.MediaType, av.Data, v.Num, v.S)
		}
	case "node":
		av := a.Interface().(types.Node)
		var nv *Val = v.P
		if nv == nil {
			nv = &Val{}
		}
		if err := checkIface(reflect.ValueOf(&av.Value).Elem(), nv, m, path+".Value"); err != nil {
			return err
		}
		if len(av.Children) != len(v.Elems) {
			return bad("node with %d children, expected %d", len(av.Children), len(v.Elems))
		}
		for i, e := range v.Elems {
			if err := checkIface(reflect.ValueOf(&av.Children[i]).Elem(), e, m, fmt.Sprintf("%s.Children[%d]", path, i)); err != nil {
				return err
			}
		}
	case "edge":
		av := a.Interface().(types.Edge)
		parts := []*interface{}{&av.Source, &av.Description, &av.Destination}
		for i, p := range parts {
			if err := checkIface(reflect.ValueOf(p).Elem(), v.Elems[i], m, fmt.Sprintf("%s.edge[%d]", path, i)); err != nil {
				return err
			}
		}
	default:
		return bad("harness: unknown kind %s", s.K)
	}
	return nil
}

// endsInNil reports whether (s, v) is a chain of pointers whose last link is nil.
func endsInNil(s *TypeSpec, v *Val) bool {
	for s.K == "ptr" {
		if v.Nil {
			return true
		}
		s, v = s.Elem, v.P
	}
	switch s.K {
	case "slice", "map":
		return v.Nil
	case "iface":
		return v.Dyn == nil
	}
	return false
}

func apdValueEq(a, b *apd.Decimal) bool {
	if a.Form != b.Form {
		return false
	}
	if a.Form != apd.Finite {
		return a.Form != apd.Infinite || a.Negative == b.Negative
	}
	if a.IsZero() || b.IsZero() {
		return a.IsZero() && b.IsZero() && a.Negative == b.Negative
	}
	return a.Cmp(b) == 0
}

// checkIface compares an interface{}-typed position. In strict mode the dynamic type must be identical;
// otherwise the documented widening of the untyped builder applies: integers compare by value whatever
// their width or signedness, floats by value, []byte by content.
func checkIface(a reflect.Value, v *Val, m EqMode, path string) error {
	if v.Dyn == nil {
		if a.IsValid() && a.Kind() == reflect.Interface && !a.IsNil() {
			return fmt.Errorf("%s: interface holds %v, expected nil", path, a.Elem().Type())
		}
		return nil
	}
	if !a.IsValid() || (a.Kind() == reflect.Interface && a.IsNil()) {
		return fmt.Errorf("%s: nil interface, expected a %s", path, v.Dyn.K)
	}
	dyn := a
	if a.Kind() == reflect.Interface {
		dyn = a.Elem()
	}
	if m.Strict || dyn.Type() == v.Dyn.Realize() {
		return Check(dyn, v.Dyn, v.P, m, path)
	}
	// loose numeric / bytes comparison
	want := Build(v.Dyn, v.P)
	if df, ok := dyn.Interface().(compact_float.DFloat); ok && (want.Kind() == reflect.Float64 || want.Kind() == reflect.Float32) {
		// infinities travel as decimal-float specials and come back as a DFloat
		if floatEq(df.Float(), want.Float(), false) {
			return nil
		}
	}
	if wr, ok := ratOf(want); ok {
		if ar, ok2 := ratOf(dyn); ok2 {
			if wr.Cmp(ar) == 0 {
				return nil
			}
			return fmt.Errorf("%s: interface holds %v (%v), expected value %v (%v)", path, dyn.Interface(), dyn.Type(), want.Interface(), want.Type())
		}
	}
	return fmt.Errorf("%s: interface holds a %v, expected a %v", path, dyn.Type(), want.Type())
}

func ratOf(v reflect.Value) (*big.Rat, bool) {
	if bi, ok := v.Interface().(*big.Int); ok && bi != nil {
		return new(big.Rat).SetInt(bi), true
	}
	switch v.Kind() {
	case reflect.Int, reflect.Int8, reflect.Int16, reflect.Int32, reflect.Int64:
		return new(big.Rat).SetInt64(v.Int()), true
	case reflect.Uint, reflect.Uint8, reflect.Uint16, reflect.Uint32, reflect.Uint64:
		return new(big.Rat).SetInt(new(big.Int).SetUint64(v.Uint())), true
	case reflect.Float32, reflect.Float64:
		f := v.Float()
		if math.IsNaN(f) || math.IsInf(f, 0) {
			return nil, false
		}
		return new(big.Rat).SetFloat64(f), true
	}
	return nil, false
}
