package props

import (
	"bytes"
	"encoding/binary"
	"fmt"
	"math"

	"github.com/kstenerud/go-concise-encoding/ce"
	"github.com/kstenerud/go-concise-encoding/ce/events"
	"github.com/kstenerud/go-concise-encoding/configuration"
	"pgregory.net/rapid"

	"verif/internal/ev"
)

// C26 — array byte-conversion helpers are exact little-endian inverses and agree with the codecs.

type C26Case struct {
	Kind  string   `json:"kind"`  // i8 u16 i16 u32 i32 f32 u64 i64 f64
	Elems []uint64 `json:"elems"` // raw bit patterns (low bits used)
}

var c26Kinds = []string{"i8", "u16", "i16", "u32", "i32", "f32", "u64", "i64", "f64"}
var c26Width = map[string]int{"i8": 1, "u16": 2, "i16": 2, "u32": 4, "i32": 4, "f32": 4, "u64": 8, "i64": 8, "f64": 8}
var c26AT = map[string]events.ArrayType{"i8": events.ArrayTypeInt8, "u16": events.ArrayTypeUint16, "i16": events.ArrayTypeInt16, "u32": events.ArrayTypeUint32,
	"i32": events.ArrayTypeInt32, "f32": events.ArrayTypeFloat32, "u64": events.ArrayTypeUint64, "i64": events.ArrayTypeInt64, "f64": events.ArrayTypeFloat64}

// reference little-endian serialisation with encoding/binary
func c26Ref(kind string, elems []uint64) []byte {
	w := c26Width[kind]
	out := make([]byte, 0, len(elems)*w)
	for _, e := range elems {
		switch w {
		case 1:
			out = append(out, byte(e))
		case 2:
			out = binary.LittleEndian.AppendUint16(out, uint16(e))
		case 4:
			out = binary.LittleEndian.AppendUint32(out, uint32(e))
		default:
			out = binary.LittleEndian.AppendUint64(out, e)
		}
	}
	return out
}

// c26Run applies the helper pair: slice(elems) -> bytes, bytes -> slice -> bits, and returns the Go slice.
func c26Run(kind string, elems []uint64) (asBytes []byte, back []uint64, slice interface{}, fromRef []uint64, reBytes []byte) {
	ref := c26Ref(kind, elems)
	switch kind {
	case "i8":
		s := make([]int8, len(elems))
		for i, e := range elems {
			s[i] = int8(e)
		}
		asBytes = ce.Int8SliceAsBytes(s)
		for _, v := range ce.BytesToInt8Slice(asBytes) {
			back = append(back, uint64(uint8(v)))
		}
		r := ce.BytesToInt8Slice(ref)
		for _, v := range r {
			fromRef = append(fromRef, uint64(uint8(v)))
		}
		reBytes = ce.Int8SliceAsBytes(r)
		slice = s
	case "u16":
		s := make([]uint16, len(elems))
		for i, e := range elems {
			s[i] = uint16(e)
		}
		asBytes = ce.Uint16SliceAsBytes(s)
		for _, v := range ce.BytesToUint16Slice(asBytes) {
			back = append(back, uint64(v))
		}
		r := ce.BytesToUint16Slice(ref)
		for _, v := range r {
			fromRef = append(fromRef, uint64(v))
		}
		reBytes = ce.Uint16SliceAsBytes(r)
		slice = s
	case "i16":
		s := make([]int16, len(elems))
		for i, e := range elems {
			s[i] = int16(e)
		}
		asBytes = ce.Int16SliceAsBytes(s)
		for _, v := range ce.BytesToInt16Slice(asBytes) {
			back = append(back, uint64(uint16(v)))
		}
		r := ce.BytesToInt16Slice(ref)
		for _, v := range r {
			fromRef = append(fromRef, uint64(uint16(v)))
		}
		reBytes = ce.Int16SliceAsBytes(r)
		slice = s
	case "u32":
		s := make([]uint32, len(elems))
		for i, e := range elems {
			s[i] = uint32(e)
		}
		asBytes = ce.Uint32SliceAsBytes(s)
		for _, v := range ce.BytesToUint32Slice(asBytes) {
			back = append(back, uint64(v))
		}
		r := ce.BytesToUint32Slice(ref)
		for _, v := range r {
			fromRef = append(fromRef, uint64(v))
		}
		reBytes = ce.Uint32SliceAsBytes(r)
		slice = s
	case "i32":
		s := make([]int32, len(elems))
		for i, e := range elems {
			s[i] = int32(e)
		}
		asBytes = ce.Int32SliceAsBytes(s)
		for _, v := range ce.BytesToInt32Slice(asBytes) {
			back = append(back, uint64(uint32(v)))
		}
		r := ce.BytesToInt32Slice(ref)
		for _, v := range r {
			fromRef = append(fromRef, uint64(uint32(v)))
		}
		reBytes = ce.Int32SliceAsBytes(r)
		slice = s
	case "f32":
		s := make([]float32, len(elems))
		for i, e := range elems {
			s[i] = math.Float32frombits(uint32(e))
		}
		asBytes = ce.Float32SliceAsBytes(s)
		for _, v := range ce.BytesToFloat32Slice(asBytes) {
			back = append(back, uint64(math.Float32bits(v)))
		}
		r := ce.BytesToFloat32Slice(ref)
		for _, v := range r {
			fromRef = append(fromRef, uint64(math.Float32bits(v)))
		}
		reBytes = ce.Float32SliceAsBytes(r)
		slice = s
	case "u64":
		s := make([]uint64, len(elems))
		copy(s, elems)
		asBytes = ce.Uint64SliceAsBytes(s)
		back = append(back, ce.BytesToUint64Slice(asBytes)...)
		r := ce.BytesToUint64Slice(ref)
		fromRef = append(fromRef, r...)
		reBytes = ce.Uint64SliceAsBytes(r)
		slice = s
	case "i64":
		s := make([]int64, len(elems))
		for i, e := range elems {
			s[i] = int64(e)
		}
		asBytes = ce.Int64SliceAsBytes(s)
		for _, v := range ce.BytesToInt64Slice(asBytes) {
			back = append(back, uint64(v))
		}
		r := ce.BytesToInt64Slice(ref)
		for _, v := range r {
			fromRef = append(fromRef, uint64(v))
		}
		reBytes = ce.Int64SliceAsBytes(r)
		slice = s
	case "f64":
		s := make([]float64, len(elems))
		for i, e := range elems {
			s[i] = math.Float64frombits(e)
		}
		asBytes = ce.Float64SliceAsBytes(s)
		for _, v := range ce.BytesToFloat64Slice(asBytes) {
			back = append(back, math.Float64bits(v))
		}
		r := ce.BytesToFloat64Slice(ref)
		for _, v := range r {
			fromRef = append(fromRef, math.Float64bits(v))
		}
		reBytes = ce.Float64SliceAsBytes(r)
		slice = s
	}
	return
}

func u64sEq(a, b []uint64) bool {
	if len(a) != len(b) {
		return false
	}
	for i := range a {
		if a[i] != b[i] {
			return false
		}
	}
	return true
}

func init() {
	Register(&Prop{
		ID:  "C26",
		New: func() interface{} { return &C26Case{} },
		Gen: func(t *rapid.T, ctx *Ctx) interface{} {
			c := &C26Case{Kind: c26Kinds[rapid.IntRange(0, len(c26Kinds)-1).Draw(t, "kind")]}
			var n int
			switch rapid.IntRange(0, 3).Draw(t, "lenclass") {
			case 0:
				n = rapid.IntRange(0, 3).Draw(t, "n3")
			case 1:
				n = rapid.IntRange(0, 64).Draw(t, "n64")
			case 2:
				n = rapid.SampledFrom([]int{15, 16, 17, 63, 64, 65, 127, 128, 255, 256}).Draw(t, "nb")
			default:
				max := 600
				if ctx.Thorough() {
					max = 4096
				}
				n = rapid.IntRange(0, max).Draw(t, "nbig")
			}
			w := c26Width[c.Kind]
			mask := uint64(math.MaxUint64)
			if w < 8 {
				mask = 1<<(uint(w)*8) - 1
			}
			for i := 0; i < n; i++ {
				var e uint64
				switch rapid.IntRange(0, 5).Draw(t, "eclass") {
				case 0:
					e = rapid.SampledFrom([]uint64{0, 1, 0x80, 0xff, 0x7f, 0x8000, 0xffff, 0x7f800001, 0x7fc00000, 0xff800000, 0x80000000, 0xffffffff,
						0x7ff0000000000001, 0x7ff8000000000000, 0x8000000000000000, 0xffffffffffffffff, 0x0102030405060708}).Draw(t, "especial")
				case 1:
					// exactly at, just below and just above every power of two, and their two's complements
					k := uint(rapid.IntRange(0, 63).Draw(t, "pow"))
					e = uint64(1)<<k + uint64(rapid.IntRange(-1, 1).Draw(t, "powd"))
					if rapid.Bool().Draw(t, "pneg") {
						e = -e
					}
				default:
					e = rapid.Uint64().Draw(t, "e")
				}
				c.Elems = append(c.Elems, e&mask)
			}
			return c
		},
		Check: func(ci interface{}, ctx *Ctx) error {
			c := ci.(*C26Case)
			ctx.Label("kind:" + c.Kind)
			ctx.LabelIf(len(c.Elems) == 0, "empty")
			ctx.NonTrivial(len(c.Elems) >= 1)
			if c.Elems == nil {
				c.Elems = []uint64{}
			}
			ref := c26Ref(c.Kind, c.Elems)
			asBytes, back, slice, fromRef, reBytes := c26Run(c.Kind, c.Elems)
			if !bytes.Equal(asBytes, ref) {
				return fmt.Errorf("%s: SliceAsBytes gives %x, little-endian serialisation is %x", c.Kind, clipBytes(asBytes), clipBytes(ref))
			}
			if !u64sEq(back, c.Elems) && !(len(back) == 0 && len(c.Elems) == 0) {
				return fmt.Errorf("%s: BytesToSlice(SliceAsBytes(s)) != s: %x vs %x", c.Kind, clipU64(back), clipU64(c.Elems))
			}
			if !u64sEq(fromRef, c.Elems) && !(len(fromRef) == 0 && len(c.Elems) == 0) {
				return fmt.Errorf("%s: BytesToSlice(little-endian bytes) gives %x, expected %x", c.Kind, clipU64(fromRef), clipU64(c.Elems))
			}
			if !bytes.Equal(reBytes, ref) {
				return fmt.Errorf("%s: SliceAsBytes(BytesToSlice(b)) != b: %x vs %x", c.Kind, clipBytes(reBytes), clipBytes(ref))
			}
			// the encoders carry exactly these bytes for the same slice
			cfg := newCfg()
			for _, format := range []string{"cbe", "cte"} {
				if format == "cte" && (c.Kind == "f32" || c.Kind == "f64") {
					continue // text cannot carry NaN payloads; the CBE leg covers the float kinds
				}
				if c.Kind == "f32" && findingOpen("S44-float32-snan-quieted") && !ctx.Replaying {
					snan := false
					for _, e := range c.Elems {
						if e&0x7f800000 == 0x7f800000 && e&0x7fffff != 0 && e&0x400000 == 0 {
							snan = true
						}
					}
					if snan {
						ctx.Stats.Exclude("S44-float32-snan-quieted")
						continue
					}
				}
				doc, err, bad := marshalDoc(ctx, format, slice, cfg)
				if bad != nil {
					return bad
				}
				if err != nil {
					return fmt.Errorf("%s: marshal (%s) failed: %v", c.Kind, format, err)
				}
				var evs []ev.Event
				var derr error
				o := ctx.Guard(func() {
					if format == "cbe" {
						evs, derr = decodeCBE(doc, cfg)
					} else {
						evs, derr = decodeCTE(doc, cfg)
					}
				})
				if o.TimedOut || o.Panic != nil {
					return fmt.Errorf("decode: %v", o)
				}
				if derr != nil {
					return fmt.Errorf("%s: marshaled %s document does not decode: %v", c.Kind, format, derr)
				}
				var payload []byte
				var at events.ArrayType
				for _, e := range evs {
					switch e.K {
					case ev.Array:
						payload, at = append(payload, e.Bs...), e.AT
					case ev.ArrayBegin:
						at = e.AT
					case ev.ArrayData:
						payload = append(payload, e.Bs...)
					}
				}
				if at != c26AT[c.Kind] {
					return fmt.Errorf("%s: marshaled as array type %v", c.Kind, at)
				}
				if !bytes.Equal(payload, ref) {
					return fmt.Errorf("%s: the %s codec carries %x for this slice, the helper gives %x", c.Kind, format, clipBytes(payload), clipBytes(ref))
				}
				// decoder direction: the same array twice in a list, with different contents, followed by a
				// string: what the untyped unmarshal builds from the payloads is what the helper gives for them
				// (and stays that way while the decoder goes on using its buffers)
				rev := make([]uint64, len(c.Elems))
				for i, e := range c.Elems {
					rev[len(rev)-1-i] = ^e & (uint64(1)<<(uint(c26Width[c.Kind])*8) - 1)
					if c26Width[c.Kind] == 8 {
						rev[len(rev)-1-i] = ^e
					}
				}
				if c.Kind == "f32" || c.Kind == "f64" {
					continue // the builders may normalise NaN payloads of float elements; the integer kinds carry the check
				}
				listDoc, idx, eerr := encodeWithFormat(format, []ev.Event{{K: ev.BD}, {K: ev.Version}, {K: ev.List},
					{K: ev.Array, AT: c26AT[c.Kind], U: uint64(len(c.Elems)), Bs: ref},
					{K: ev.Array, AT: c26AT[c.Kind], U: uint64(len(rev)), Bs: c26Ref(c.Kind, rev)},
					{K: ev.Array, AT: events.ArrayTypeString, U: 26, Bs: []byte("abcdefghijklmnopqrstuvwxyz")},
					{K: ev.End}, {K: ev.ED}}, cfg)
				if idx >= 0 {
					return fmt.Errorf("harness: list of two arrays rejected by the encoder: %v", eerr)
				}
				got, uerr, bad := unmarshalDoc(ctx, format, listDoc, nil, cfg)
				if bad != nil {
					return bad
				}
				if uerr != nil {
					return fmt.Errorf("%s: a list of two arrays (%s) does not unmarshal: %v", c.Kind, format, uerr)
				}
				l, ok := got.([]interface{})
				if !ok || len(l) != 3 {
					return fmt.Errorf("%s: a list of two arrays and a string (%s) unmarshals to %T %v", c.Kind, format, got, got)
				}
				for i, want := range [][]uint64{c.Elems, rev} {
					bits, ok := c26Bits(l[i])
					if !ok {
						return fmt.Errorf("%s: array %d of the list (%s) was built as %T", c.Kind, i, format, l[i])
					}
					if !u64sEq(bits, want) && !(len(bits) == 0 && len(want) == 0) {
						return fmt.Errorf("%s: array %d of a decoded list (%s) holds %x, its payload says %x", c.Kind, i, format, clipU64(bits), clipU64(want))
					}
				}
			}
			return nil
		},
	})
}

// c26Bits returns the element bit patterns of a typed slice built by the unmarshaler.
func c26Bits(v interface{}) (out []uint64, ok bool) {
	switch s := v.(type) {
	case []int8:
		for _, e := range s {
			out = append(out, uint64(uint8(e)))
		}
	case []uint8:
		for _, e := range s {
			out = append(out, uint64(e))
		}
	case []uint16:
		for _, e := range s {
			out = append(out, uint64(e))
		}
	case []int16:
		for _, e := range s {
			out = append(out, uint64(uint16(e)))
		}
	case []uint32:
		for _, e := range s {
			out = append(out, uint64(e))
		}
	case []int32:
		for _, e := range s {
			out = append(out, uint64(uint32(e)))
		}
	case []uint64:
		out = append(out, s...)
	case []int64:
		for _, e := range s {
			out = append(out, uint64(e))
		}
	default:
		return nil, false
	}
	return out, true
}

func encodeWithFormat(format string, evs []ev.Event, cfg *configuration.Configuration) ([]byte, int, error) {
	if format == "cbe" {
		return encodeCBE(evs, cfg)
	}
	return encodeCTE(evs, cfg)
}

func clipBytes(b []byte) []byte {
	if len(b) > 64 {
		return b[:64]
	}
	return b
}

func clipU64(b []uint64) []uint64 {
	if len(b) > 12 {
		return b[:12]
	}
	return b
}
