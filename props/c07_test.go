package props

import (
	"bytes"
	"fmt"
	"io"
	"math/big"
	"strings"
	"time"
	"unsafe"

	"github.com/kstenerud/go-concise-encoding/ce"
	"github.com/kstenerud/go-concise-encoding/configuration"
	"github.com/kstenerud/go-concise-encoding/nullevent"
	"github.com/kstenerud/go-concise-encoding/types"
	"pgregory.net/rapid"

	"verif/internal/gen"
	"verif/internal/harness"
)

// C07 — no input makes a public entry point panic, hang or crash: for every byte string and every
// template type, every public decode / unmarshal / universal entry point returns normally with a result
// or an error; marshaling any Go value (unsupported kinds included) likewise returns.
//
// Oracle: robustness predicate. The call runs in its own goroutine under a deadline (twice the default
// deadline before it is called a hang); an escaping panic is recovered there and is a violation; a
// process death (fatal error: stack overflow, out of memory, concurrent map access) leaves the case in
// the shard's journal, which the driver turns into a violation. Nothing is asserted about which of
// result / error comes back.

type C07Case struct {
	Op    string `json:"op"`    // bytes | marshal
	Entry string `json:"entry"` // entry point name
	Doc   []byte `json:"doc,omitempty"`
	Tmpl  string `json:"template,omitempty"`
	Rules bool   `json:"rules"` // Marshal.EnforceRules / validator in front of the receiver
	// marshal side
	Value string        `json:"value,omitempty"` // name in c07Values, or "gval"
	Type  *gen.TypeSpec `json:"type,omitempty"`
	Val   *gen.Val      `json:"val,omitempty"`
	Note  string        `json:"note,omitempty"`
}

type c07Struct struct {
	A int
	B string
	C []byte
	D *c07Struct
	E map[string]interface{}
	F []float32
}

type c07BadStruct struct {
	A int
	C chan int
}

// self-referential types (a builder / iterator for T is asked for while T's own is still being made),
// valid or with an unsupported member declared after or before the self-reference
type c07List struct {
	V    int
	Next *c07List
}
type c07SelfChanAfter struct {
	Next *c07SelfChanAfter
	Ch   chan int
}
type c07SelfChanBefore struct {
	Ch   chan int
	Next *c07SelfChanBefore
}
type c07SelfContainers struct {
	Kids []c07SelfContainers
	M    map[string]c07SelfContainers
	F    func()
}

// an untyped slot followed by scalar slots: a value built in the first can be referenced from the others
type c07IfaceThenScalars struct {
	A interface{}
	B int
	C uint8
	D float32
	E string
	F []interface{}
	G bool
	H *big.Int
	I time.Time
}

type c07WithArrays struct {
	A [3]int
	S [2]string
}

type c07Unexported struct {
	a int
	B int
}

// embedded fields of kinds the struct walker does not expect
type C07Inner struct{ A int }
type C07NamedInt int
type C07NamedSlice []int
type C07Iface interface{ M() }
type c07EmbedsPtr struct {
	*C07Inner
	X int
}
type c07EmbedsNamedInt struct {
	C07NamedInt
	X int
}
type c07EmbedsNamedSlice struct {
	C07NamedSlice
	X int
}
type c07EmbedsIface struct {
	C07Iface
	X int
}

var c07Templates = map[string]func() interface{}{
	"embeds-ptr":            func() interface{} { return c07EmbedsPtr{} },
	"embeds-named-int":      func() interface{} { return c07EmbedsNamedInt{} },
	"embeds-named-slice":    func() interface{} { return c07EmbedsNamedSlice{} },
	"embeds-iface":          func() interface{} { return c07EmbedsIface{} },
	"nil":                   func() interface{} { return nil },
	"[]interface":           func() interface{} { return []interface{}{} },
	"map[iface]":            func() interface{} { return map[interface{}]interface{}{} },
	"[]int":                 func() interface{} { return []int{} },
	"[]int8":                func() interface{} { return []int8{} },
	"[]uint16":              func() interface{} { return []uint16{} },
	"[]string":              func() interface{} { return []string{} },
	"[][]byte":              func() interface{} { return [][]byte{} },
	"map[string]int":        func() interface{} { return map[string]int{} },
	"map[int]string":        func() interface{} { return map[int]string{} },
	"struct":                func() interface{} { return c07Struct{} },
	"*struct":               func() interface{} { return &c07Struct{} },
	"*int":                  func() interface{} { return new(int) },
	"int":                   func() interface{} { return 0 },
	"uint8":                 func() interface{} { return uint8(0) },
	"float32":               func() interface{} { return float32(0) },
	"string":                func() interface{} { return "" },
	"bool":                  func() interface{} { return false },
	"[4]int":                func() interface{} { return [4]int{} },
	"[2]string":             func() interface{} { return [2]string{} },
	"time":                  func() interface{} { return time.Time{} },
	"bigint":                func() interface{} { return big.Int{} },
	"*bigint":               func() interface{} { return new(big.Int) },
	"media":                 func() interface{} { return types.Media{} },
	"node":                  func() interface{} { return types.Node{} },
	"edge":                  func() interface{} { return types.Edge{} },
	"uid":                   func() interface{} { return types.UID{} },
	"[]*int":                func() interface{} { return []*int{} },
	"*[]int":                func() interface{} { return &[]int{} },
	"**int":                 func() interface{} { p := new(int); return &p },
	"iface-slice-of-struct": func() interface{} { return []c07Struct{} },
	// unsupported kinds
	"chan":          func() interface{} { return make(chan int) },
	"func":          func() interface{} { return func() {} },
	"complex":       func() interface{} { return complex(1, 2) },
	"struct-chan":   func() interface{} { return c07BadStruct{} },
	"map-func":      func() interface{} { return map[string]func(){} },
	"[]chan":        func() interface{} { return []chan int{} },
	"unsafeptr":     func() interface{} { return unsafe.Pointer(nil) },
	"uintptr":       func() interface{} { return uintptr(0) },
	"map[float]int": func() interface{} { return map[float64]int{} },
	"unexported":    func() interface{} { return c07Unexported{} },
	"[0]int":        func() interface{} { return [0]int{} },
	"struct{}":      func() interface{} { return struct{}{} },
	"*chan":         func() interface{} { c := make(chan int); return &c },
	// self-referential, valid and with unsupported members
	"iface-then-scalars":   func() interface{} { return c07IfaceThenScalars{} },
	"*iface-then-scalars":  func() interface{} { return &c07IfaceThenScalars{} },
	"[][2]string":          func() interface{} { return [][2]string{} },
	"struct-with-arrays":   func() interface{} { return c07WithArrays{} },
	"list":                 func() interface{} { return c07List{} },
	"*list":                func() interface{} { return &c07List{} },
	"self-chan":            func() interface{} { return c07SelfChanAfter{} },
	"*self-chan":           func() interface{} { return &c07SelfChanAfter{} },
	"[]self-chan":          func() interface{} { return []c07SelfChanAfter{} },
	"map-self-chan":        func() interface{} { return map[string]c07SelfChanAfter{} },
	"self-chan-before":     func() interface{} { return c07SelfChanBefore{} },
	"*self-chan-before":    func() interface{} { return &c07SelfChanBefore{} },
	"self-containers-func": func() interface{} { return c07SelfContainers{} },
	"[]self-containers":    func() interface{} { return []c07SelfContainers{} },
}

var c07TemplateNames = sortedKeys(c07Templates)

// values for the marshal side (beyond G-VAL): unsupported kinds in every position
var c07Values = map[string]func() interface{}{
	"embeds-ptr":         func() interface{} { return c07EmbedsPtr{C07Inner: &C07Inner{A: 1}, X: 2} },
	"embeds-nil-ptr":     func() interface{} { return c07EmbedsPtr{X: 2} },
	"embeds-named-int":   func() interface{} { return c07EmbedsNamedInt{C07NamedInt: 3, X: 2} },
	"embeds-named-slice": func() interface{} { return &c07EmbedsNamedSlice{C07NamedSlice: []int{1}, X: 2} },
	"embeds-iface":       func() interface{} { return []c07EmbedsIface{{X: 2}} },
	"chan":               func() interface{} { return make(chan int) },
	"nil-chan":           func() interface{} { var c chan int; return c },
	"func":               func() interface{} { return func() {} },
	"nil-func":           func() interface{} { var f func(); return f },
	"complex64":          func() interface{} { return complex64(complex(1, 2)) },
	"complex128":         func() interface{} { return complex(1, 2) },
	"struct-chan":        func() interface{} { return c07BadStruct{A: 1, C: make(chan int)} },
	"*struct-chan":       func() interface{} { return &c07BadStruct{A: 1} },
	"map-chan":           func() interface{} { return map[string]chan int{"a": nil} },
	"map-func":           func() interface{} { return map[string]func(){"a": func() {}} },
	"[]func":             func() interface{} { return []func(){nil, func() {}} },
	"[]iface-chan":       func() interface{} { return []interface{}{1, make(chan int), "x"} },
	"list":               func() interface{} { return c07List{V: 1, Next: &c07List{V: 2}} },
	"*list":              func() interface{} { return &c07List{V: 1} },
	"self-chan":          func() interface{} { return c07SelfChanAfter{} },
	"*self-chan":         func() interface{} { return &c07SelfChanAfter{Next: &c07SelfChanAfter{}} },
	"nil-*self-chan":     func() interface{} { var p *c07SelfChanAfter; return p },
	"[]self-chan":        func() interface{} { return []c07SelfChanAfter{} },
	"map-self-chan":      func() interface{} { return map[string]c07SelfChanAfter{} },
	"self-chan-before":   func() interface{} { return c07SelfChanBefore{} },
	"*self-chan-before":  func() interface{} { var p *c07SelfChanBefore; return p },
	"[]self-containers":  func() interface{} { return []c07SelfContainers{} },
	"self-containers":    func() interface{} { return c07SelfContainers{} },
	"map-iface-complex":  func() interface{} { return map[string]interface{}{"a": complex(1, 1)} },
	"unsafeptr":          func() interface{} { return unsafe.Pointer(nil) },
	"uintptr":            func() interface{} { return uintptr(7) },
	"map[float]int":      func() interface{} { return map[float64]int{1.5: 1} },
	"map[iface]int":      func() interface{} { return map[interface{}]int{1.5: 1, "a": 2} },
	"map[struct]int":     func() interface{} { return map[c07Unexported]int{{B: 1}: 1} },
	"map[[2]int]int":     func() interface{} { return map[[2]int]int{{1, 2}: 1} },
	"map[*int]int":       func() interface{} { return map[*int]int{new(int): 1} },
	"unexported":         func() interface{} { return c07Unexported{a: 1, B: 2} },
	"[2]complex":         func() interface{} { return [2]complex64{} },
	"nil":                func() interface{} { return nil },
	"nil-iface-slice":    func() interface{} { return []interface{}{nil, nil} },
	"typed-nil-ptr":      func() interface{} { var p *c07BadStruct; return p },
	"ptr-to-ptr-chan":    func() interface{} { c := make(chan int); p := &c; return &p },
	"struct{}":           func() interface{} { return struct{}{} },
	"[0]chan":            func() interface{} { return [0]chan int{} },
	"empty-[]chan":       func() interface{} { return []chan int{} },
	"iface-holding-func": func() interface{} {
		return struct{ X interface{} }{X: func() {}}
	},
	"invalid-utf8-string": func() interface{} { return "a\xffb" },
	"invalid-utf8-key":    func() interface{} { return map[string]int{"\xc3": 1} },
	"zero-time":           func() interface{} { return time.Time{} },
	"huge-time":           func() interface{} { return time.Unix(1<<62, 0) },
	"nil-bigint":          func() interface{} { var b *big.Int; return b },
	"nil-url":             func() interface{} { return struct{ M *types.Media }{} },
	"bad-uid-len":         func() interface{} { return types.Media{MediaType: "", Data: nil} },
	"node-of-chan":        func() interface{} { return types.Node{Value: make(chan int)} },
	"edge-of-func":        func() interface{} { return types.Edge{Source: 1, Description: func() {}, Destination: 2} },
	"edge-null-source":    func() interface{} { return types.Edge{} },
}

// c07CyclicValues: values reachable from themselves through every kind of reference the iterator follows
// (marshaled with Iterator.RecursionSupport = true, the documented way to marshal them)
type c07Cyc struct {
	Name string
	Next *c07Cyc
	M    map[string]interface{}
	L    []interface{}
}

var c07CyclicValues = map[string]func() interface{}{
	"cyclic-map-self": func() interface{} { m := map[string]interface{}{"a": 1}; m["self"] = m; return m },
	"cyclic-map-in-map": func() interface{} {
		m := map[string]interface{}{}
		inner := map[string]interface{}{"up": m}
		m["down"] = inner
		return m
	},
	"cyclic-slice-self": func() interface{} { s := make([]interface{}, 2); s[0] = 1; s[1] = s; return s },
	"cyclic-pointer":    func() interface{} { a := &c07Cyc{Name: "a"}; a.Next = &c07Cyc{Name: "b", Next: a}; return a },
	"cyclic-struct-map": func() interface{} {
		a := &c07Cyc{Name: "a", M: map[string]interface{}{}}
		a.M["me"] = a
		a.M["m"] = a.M
		return a
	},
	"cyclic-struct-slice":  func() interface{} { a := &c07Cyc{Name: "a"}; a.L = []interface{}{a, 1}; return a },
	"cyclic-map-via-slice": func() interface{} { m := map[string]interface{}{}; m["l"] = []interface{}{m}; return m },
	"shared-map-twice": func() interface{} {
		m := map[string]int{"x": 1}
		return []interface{}{m, m, map[string]interface{}{"m": m}}
	},
}

var c07PlainValueNames = sortedKeys(c07Values)

var c07ValueNames = func() []string {
	names := sortedKeys(c07Values)
	return append(names, sortedKeys(c07CyclicValues)...)
}()

func sortedKeys(m map[string]func() interface{}) []string {
	out := make([]string, 0, len(m))
	for k := range m {
		out = append(out, k)
	}
	for i := range out {
		for j := i + 1; j < len(out); j++ {
			if out[j] < out[i] {
				out[i], out[j] = out[j], out[i]
			}
		}
	}
	return out
}

var c07ByteEntries = []string{
	"UnmarshalFromCEDocument", "UnmarshalCE", "UnmarshalFromCBEDocument", "UnmarshalCBE", "UnmarshalFromCTEDocument", "UnmarshalCTE",
	"CEDecoder.DecodeDocument", "CEDecoder.Decode", "CBEDecoder.DecodeDocument", "CBEDecoder.Decode", "CTEDecoder.DecodeDocument", "CTEDecoder.Decode",
	"CBEUnmarshaler.UnmarshalFromDocument", "CTEUnmarshaler.Unmarshal",
}

var c07MarshalEntries = []string{"MarshalToCBEDocument", "MarshalCBE", "MarshalToCTEDocument", "MarshalCTE", "CBEMarshaler.MarshalToDocument", "CTEMarshaler.Marshal"}

func c07GenDoc(t *rapid.T, ctx *Ctx) (doc []byte, note string) {
	cfg := newCfg()
	validDoc := func(label string) ([]byte, bool) {
		o := gen.EvOpts{Comments: true, Padding: true, CustomBinary: true, CustomText: true, Media: true, Markers: true, Records: true, Chunked: true,
			RemoteRef: true, MaxDepth: 3, MaxArr: 20, Budget: 12}
		evs := gen.Document(t, o)
		isCBE := rapid.Bool().Draw(t, label+".cbe")
		var d []byte
		var idx int
		if isCBE {
			d, idx, _ = encodeWith(ce.NewCBEEncoder(cfg), evs, cfg, false)
		} else {
			d, idx, _ = encodeWith(ce.NewCTEEncoder(cfg), evs, cfg, false)
		}
		if idx >= 0 || len(d) < 2 {
			if isCBE {
				return []byte{0x81, 0x00, 0x9a, 0x01, 0x9b}, true
			}
			return []byte("c0\n[1]"), false
		}
		return d, isCBE
	}
	switch rapid.IntRange(0, 15).Draw(t, "dockind") {
	case 14, 15:
		return c07ShapedDoc(t, cfg), "shaped"
	case 0:
		return []byte{}, "empty"
	case 1:
		return rapid.SampledFrom([][]byte{{0x81}, {0x81, 0x00}, {0x81, 0x01}, []byte("c"), []byte("c0"), []byte("c0\n"), []byte("c1"), []byte("C0 "), {0x81, 0xff}, {0x81, 0x80},
			[]byte("c0\n\x00"), {0x00}, {0xff}, []byte("c999999999999999999999999 1"), {0x81, 0xff, 0xff, 0xff, 0xff, 0xff, 0xff, 0xff, 0xff, 0xff, 0x01, 0x01}}).Draw(t, "header"), "header-only"
	case 2:
		return rapid.SliceOfN(rapid.Byte(), 0, 24).Draw(t, "random"), "random-bytes"
	case 3:
		return gen.CBESoup(t, 12), "cbe-soup"
	case 4:
		return gen.CTESoup(t, 14), "cte-soup"
	case 5:
		k := rapid.SampledFrom([]int{1, 3, 50, 999, 1000, 1001, 5000}).Draw(t, "depth")
		if ctx.Thorough() && rapid.IntRange(0, 3).Draw(t, "deeper") == 0 {
			k = rapid.SampledFrom([]int{20000, 100000}).Draw(t, "depth2")
		}
		nestCBE := rapid.Bool().Draw(t, "nest.cbe")
		if !nestCBE && k > 401 {
			k = 401 // CTE parsing time is quadratic in the nesting depth (recorded under C08); C07 is about returning at all
		}
		return gen.Nest(t, nestCBE, k), "nested"
	case 6:
		d, _ := validDoc("v")
		return d, "valid"
	case 7:
		d, _ := validDoc("v")
		if len(d) > 2 {
			d = d[:rapid.IntRange(0, len(d)-1).Draw(t, "cut")]
		}
		return d, "truncated"
	case 8: // hostile length right after an array-ish type code
		code := rapid.SampledFrom([][]byte{{0x90}, {0x91}, {0x92, 0x01}, {0x93}, {0x94}, {0x7f, 0xe2}, {0x7f, 0xea}, {0x7f, 0xe0}, {0x7f, 0xf3}, {0x7f, 0xf2}, {0x7f, 0xf0}, {0x7f, 0xf1}, {0x96}, {0x77}, {0x66}, {0x67}, {0x76}, {0x7a}, {0x7b}, {0x7c}}).Draw(t, "code")
		d := append([]byte{0x81, 0x00}, code...)
		d = append(d, gen.HostileULEB[rapid.IntRange(0, len(gen.HostileULEB)-1).Draw(t, "h")]...)
		d = append(d, rapid.SliceOfN(rapid.Byte(), 0, 8).Draw(t, "tail")...)
		return d, "hostile-length"
	default:
		d, isCBE := validDoc("v")
		o, _ := validDoc("w")
		m, n := gen.Mutate(t, d, o, isCBE)
		return m, "mutated: " + n
	}
}

// c07ShapedDoc draws a document shaped like the typed templates (a map keyed by their field names, or
// a list) whose value slots hold anything: scalars of every kind, containers, marked values that
// contain a reference to themselves, and references (backward and forward) put where a template wants
// a scalar. This is how the builders' conversion-error paths meet cyclic values.
func c07ShapedDoc(t *rapid.T, cfg *configuration.Configuration) []byte {
	nmark := 0
	var val func(depth int) string
	scalar := func() string {
		return rapid.SampledFrom([]string{"1", "-5", "300", "1.5", "\"s\"", "true", "null", "@\"u\"", "2020-01-01", "0x1p3", "-0", "nan",
			"18446744073709551616", "f81d4fae-7dec-11d0-a765-00a0c91e6bf6", "@u8x[01 02]", "\"\"",
			// decimal literals with exponents at the 32-bit edge: a conversion into a numeric slot must decide "does not
			// fit" from the exponent, not compute 10^exponent
			"1000000000000000000000001e2147483640", "12345678901234567890123e2147483647", "-12345678901234567890123e30000000", "7e2147483647",
			"12345678901234567890123e-2147483640", "1e-2147483000"}).Draw(t, "scalar")
	}
	ref := func() string { return fmt.Sprintf("$m%d", rapid.IntRange(0, nmark+1).Draw(t, "refid")) }
	val = func(depth int) string {
		k := rapid.IntRange(0, 9).Draw(t, "vk")
		if depth >= 3 && k >= 4 && k <= 7 {
			k = 0
		}
		switch k {
		case 0, 1, 2, 3:
			return scalar()
		case 4:
			n := rapid.IntRange(0, 3).Draw(t, "ln")
			parts := []string{}
			for i := 0; i < n; i++ {
				parts = append(parts, val(depth+1))
			}
			return "[" + strings.Join(parts, " ") + "]"
		case 5:
			n := rapid.IntRange(0, 2).Draw(t, "mn")
			parts := []string{}
			for i := 0; i < n; i++ {
				parts = append(parts, fmt.Sprintf("\"k%d\" = %s", i, val(depth+1)))
			}
			return "{" + strings.Join(parts, " ") + "}"
		case 6, 7:
			id := nmark
			nmark++
			switch rapid.IntRange(0, 3).Draw(t, "mk") {
			case 0:
				return fmt.Sprintf("&m%d:%s", id, scalar())
			case 1:
				return fmt.Sprintf("&m%d:[$m%d %s]", id, id, val(depth+1)) // contains itself
			case 2:
				return fmt.Sprintf("&m%d:{\"self\" = $m%d \"x\" = %s}", id, id, val(depth+1))
			default:
				return fmt.Sprintf("&m%d:[%s]", id, val(depth+1))
			}
		default:
			return ref()
		}
	}
	var sb strings.Builder
	sb.WriteString("c0\n")
	if rapid.IntRange(0, 3).Draw(t, "refshape") == 0 {
		// the first slot ("a": untyped in c07IfaceThenScalars) holds a marked value, the other slots refer to it
		nmark = 1
		first := "&m0:" + scalar()
		switch rapid.IntRange(0, 3).Draw(t, "firstkind") {
		case 0:
			first = "&m0:[$m0 " + val(1) + "]"
		case 1:
			first = "&m0:{\"self\" = $m0}"
		case 2:
			first = "&m0:[" + val(1) + "]"
		}
		sb.WriteString("{\"a\" = " + first)
		for _, key := range []string{"b", "c", "d", "e", "f", "g", "h", "i"} {
			switch rapid.IntRange(0, 3).Draw(t, "slot") {
			case 0:
				sb.WriteString(fmt.Sprintf(" \"%s\" = $m0", key))
			case 1:
				sb.WriteString(fmt.Sprintf(" \"%s\" = %s", key, val(1)))
			}
		}
		sb.WriteString("}")
	} else if rapid.IntRange(0, 3).Draw(t, "toplist") == 0 {
		sb.WriteString("[")
		for i, n := 0, rapid.IntRange(1, 4).Draw(t, "tn"); i < n; i++ {
			sb.WriteString(val(0) + " ")
		}
		sb.WriteString("]")
	} else {
		sb.WriteString("{")
		for i, n := 0, rapid.IntRange(1, 5).Draw(t, "kn"); i < n; i++ {
			key := rapid.SampledFrom([]string{"a", "b", "c", "d", "e", "f", "g", "h", "i", "A", "E", "x", "v", "next", "ch", "kids", "m", "emb_int"}).Draw(t, "key")
			sb.WriteString(fmt.Sprintf("\"%s\" = %s ", key, val(0)))
		}
		sb.WriteString("}")
	}
	doc := []byte(sb.String())
	if rapid.Bool().Draw(t, "shaped.cbe") {
		// the same document in CBE (converted without the validator: forward references, duplicates and unknown markers stay)
		var out bytes.Buffer
		enc := ce.NewCBEEncoder(cfg)
		enc.PrepareToEncode(&out)
		failed := false
		o := harness.Call(func() {
			if err := ce.NewCTEDecoder(cfg).DecodeDocument(doc, enc); err != nil {
				failed = true
			}
		})
		if !failed && o.Panic == nil && out.Len() > 2 {
			return out.Bytes()
		}
	}
	return doc
}

func genC07(t *rapid.T, ctx *Ctx) interface{} {
	if rapid.IntRange(0, 4).Draw(t, "side") == 0 {
		c := &C07Case{Op: "marshal", Entry: rapid.SampledFrom(c07MarshalEntries).Draw(t, "mentry"), Rules: rapid.Bool().Draw(t, "rules")}
		if rapid.IntRange(0, 2).Draw(t, "gval") == 0 {
			c.Value = "gval"
			o := valOpts(ctx)
			c.Type = gen.GenType(t, o, 0)
			c.Val = gen.GenVal(t, o, c.Type, 0)
		} else {
			c.Value = rapid.SampledFrom(c07ValueNames).Draw(t, "value")
		}
		return c
	}
	c := &C07Case{Op: "bytes", Entry: rapid.SampledFrom(c07ByteEntries).Draw(t, "entry"), Rules: rapid.IntRange(0, 3).Draw(t, "rules") > 0}
	c.Tmpl = "nil"
	if rapid.Bool().Draw(t, "typed") {
		c.Tmpl = rapid.SampledFrom(c07TemplateNames).Draw(t, "template")
	}
	c.Doc, c.Note = c07GenDoc(t, ctx)
	if c.Note == "shaped" && rapid.IntRange(0, 4).Draw(t, "shaped.tmpl") > 0 {
		c.Tmpl = rapid.SampledFrom([]string{"struct", "*struct", "iface-slice-of-struct", "list", "*list", "map[string]int", "map[int]string", "[]int", "[]string",
			"[4]int", "embeds-ptr", "embeds-iface", "nil", "[]interface", "map[iface]", "self-chan", "[]*int",
			"iface-then-scalars", "iface-then-scalars", "iface-then-scalars", "*iface-then-scalars", "*iface-then-scalars"}).Draw(t, "shaped.template")
	}
	return c
}

// countingReceiver accepts every event and keeps nothing.
type countingReceiver struct {
	nullevent.NullEventReceiver
	n int
}

func (r *countingReceiver) OnEndContainer() { r.n++ }

type discardWriter struct{ n int }

func (d *discardWriter) Write(p []byte) (int, error) { d.n += len(p); return len(p), nil }

func c07Config(rules bool) *configuration.Configuration {
	cfg := configuration.New()
	cfg.Marshal.EnforceRules = rules
	return cfg
}

func c07Call(c *C07Case) func() {
	cfg := c07Config(c.Rules)
	doc := append([]byte{}, c.Doc...)
	if c.Op == "marshal" {
		var v interface{}
		if c.Value == "gval" {
			v = gen.Build(c.Type, c.Val).Interface()
		} else if f := c07CyclicValues[c.Value]; f != nil {
			// values that contain themselves are in the domain only with recursion support switched on
			v = f()
			cfg.Iterator.RecursionSupport = true
		} else {
			v = c07Values[c.Value]()
		}
		return func() {
			switch c.Entry {
			case "MarshalToCBEDocument":
				ce.MarshalToCBEDocument(v, cfg)
			case "MarshalCBE":
				ce.MarshalCBE(v, &discardWriter{}, cfg)
			case "MarshalToCTEDocument":
				ce.MarshalToCTEDocument(v, cfg)
			case "MarshalCTE":
				ce.MarshalCTE(v, &discardWriter{}, cfg)
			case "CBEMarshaler.MarshalToDocument":
				ce.NewCBEMarshaler(cfg).MarshalToDocument(v)
			case "CTEMarshaler.Marshal":
				ce.NewCTEMarshaler(cfg).Marshal(v, &discardWriter{})
			default:
				panic("harness: unknown entry " + c.Entry)
			}
		}
	}
	tf := c07Templates[c.Tmpl]
	if tf == nil {
		panic("harness: unknown template " + c.Tmpl)
	}
	tmpl := tf()
	return func() {
		switch c.Entry {
		case "UnmarshalFromCEDocument":
			ce.UnmarshalFromCEDocument(doc, tmpl, cfg)
		case "UnmarshalCE":
			ce.UnmarshalCE(bytes.NewReader(doc), tmpl, cfg)
		case "UnmarshalFromCBEDocument":
			ce.UnmarshalFromCBEDocument(doc, tmpl, cfg)
		case "UnmarshalCBE":
			ce.UnmarshalCBE(bytes.NewReader(doc), tmpl, cfg)
		case "UnmarshalFromCTEDocument":
			ce.UnmarshalFromCTEDocument(doc, tmpl, cfg)
		case "UnmarshalCTE":
			ce.UnmarshalCTE(bytes.NewReader(doc), tmpl, cfg)
		case "CBEUnmarshaler.UnmarshalFromDocument":
			ce.NewCBEUnmarshaler(cfg).UnmarshalFromDocument(doc, tmpl)
		case "CTEUnmarshaler.Unmarshal":
			ce.NewCTEUnmarshaler(cfg).Unmarshal(io.MultiReader(bytes.NewReader(doc)), tmpl)
		default:
			var d ce.Decoder
			switch c.Entry[:3] {
			case "CED":
				d = ce.NewCEDecoder(cfg)
			case "CBE":
				d = ce.NewCBEDecoder(cfg)
			case "CTE":
				d = ce.NewCTEDecoder(cfg)
			default:
				panic("harness: unknown entry " + c.Entry)
			}
			// a receiver that only counts: recording 300 000 events of a deeply nested document costs the
			// harness tens of seconds of page faults on a loaded machine, which is not the library's time
			rec := &countingReceiver{}
			if c.Rules {
				r := ce.NewRules(rec, cfg)
				if c.Entry[len(c.Entry)-8:] == "Document" {
					d.DecodeDocument(doc, r)
				} else {
					d.Decode(bytes.NewReader(doc), r)
				}
			} else {
				if c.Entry[len(c.Entry)-8:] == "Document" {
					d.DecodeDocument(doc, rec)
				} else {
					d.Decode(bytes.NewReader(doc), rec)
				}
			}
		}
	}
}

func init() {
	Register(&Prop{
		ID:  "C07",
		New: func() interface{} { return &C07Case{} },
		Gen: genC07,
		// native fuzz: byte 0 picks the entry point, byte 1 the template, byte 2 rules on/off, the rest is the document
		FromBytes: func(data []byte) interface{} {
			if len(data) < 3 {
				return nil
			}
			return &C07Case{Op: "bytes", Entry: c07ByteEntries[int(data[0])%len(c07ByteEntries)], Tmpl: c07TemplateNames[int(data[1])%len(c07TemplateNames)],
				Rules: data[2]&1 == 1, Doc: append([]byte{}, data[3:]...), Note: "native-fuzz"}
		},
		FuzzSeeds: func() [][]byte { return fuzzSeedDocs(3) },
		Check: func(ci interface{}, ctx *Ctx) error {
			c := ci.(*C07Case)
			ctx.Label("op:" + c.Op)
			ctx.Label("entry:" + c.Entry)
			ctx.LabelIf(c.Rules, "rules-on")
			ctx.LabelIf(!c.Rules, "rules-off")
			if c.Op == "bytes" {
				kind := c.Note
				if len(kind) > 8 && kind[:8] == "mutated:" {
					kind = "mutated"
				}
				ctx.Label("doc:" + kind)
				ctx.LabelIf(c.Tmpl != "nil", "typed-template")
				hdr := len(c.Doc) >= 3 && ((c.Doc[0] == 0x81 && c.Doc[1] <= 1) || ((c.Doc[0] == 'c' || c.Doc[0] == 'C') && (c.Doc[1] == '0' || c.Doc[1] == '1')))
				ctx.NonTrivial(hdr || c.Tmpl != "nil")
			} else {
				ctx.Label("value:" + map[bool]string{true: "gval", false: "special"}[c.Value == "gval"])
				ctx.NonTrivial(true)
			}
			if c.Op == "bytes" && findingOpen(s75) && !ctx.Replaying && hugeHexExponent(c.Doc) {
				ctx.Stats.Exclude(s75)
				return nil
			}
			o := ctx.Guard(c07Call(c))
			if o.Panic != nil {
				return fmt.Errorf("a panic escaped from %s: %v\n%s\n%s", c.Entry, o.Panic, c07Describe(c), o.Stack)
			}
			if o.TimedOut {
				return fmt.Errorf("%s did not return within the deadline\n%s", c.Entry, c07Describe(c))
			}
			return nil
		},
	})
}

func c07Describe(c *C07Case) string {
	if c.Op == "marshal" {
		if c.Value == "gval" {
			return fmt.Sprintf("value of type %v (rules=%v)", c.Type, c.Rules)
		}
		return fmt.Sprintf("value %q (rules=%v)", c.Value, c.Rules)
	}
	isText := len(c.Doc) > 0 && (c.Doc[0] == 'c' || c.Doc[0] == 'C')
	if isText {
		return fmt.Sprintf("template=%s rules=%v doc(%s)=%s", c.Tmpl, c.Rules, c.Note, textdump(c.Doc))
	}
	return fmt.Sprintf("template=%s rules=%v doc(%s)=%s", c.Tmpl, c.Rules, c.Note, hexdump(c.Doc))
}

// fuzzSeedDocs: small valid CBE / CTE documents and hostile constants, each behind `prefix` selector bytes.
func fuzzSeedDocs(prefix int) [][]byte {
	docs := [][]byte{
		{0x81, 0x00, 0x9a, 0x01, 0x82, 'h', 'i', 0x7f, 0xe2, 0x04, 1, 0, 2, 0, 0x9b},
		{0x81, 0x00, 0x99, 0x81, 'a', 0x7f, 0xf0, 0x01, 'm', 0x9a, 0x9b, 0x81, 'b', 0x77, 0x01, 'm', 0x9b},
		{0x81, 0x00, 0x7f, 0xf1, 0x01, 'r', 0x81, 'k', 0x9b, 0x96, 0x01, 'r', 0x6a, 0xff, 0xff, 0x9b},
		{0x81, 0x00, 0x90, 0xfe, 0xff, 0xff, 0xff, 0x1f},
		{0x81, 0x00, 0x7f, 0xf3, 0x03, 'a', '/', 'b', 0x04, 1, 2},
		{0x81, 0x00, 0x7c, 0x01, 0x00, 0x10, 0x62, 0x02, 0x1a, 'E', '/', 'B'},
		{0x81, 0x00, 0x76, 0x06, 0x0f, 0x66, 0x09, 1, 2, 3, 4, 5, 6, 7, 8, 9},
		[]byte("c0\n[1 -2 0x1.8p3 \"a\\[41]\" @u8x[ff 00] @application/x[01] &m:{\"k\" = $m} 2000-01-01/10:00:00/E/Berlin]"),
		[]byte("c0\n@r<\"a\" \"b\">\n[@r{1 2} (1 2 3) @(1 2 3) |c 1 2| /* c */ null true nan -inf 1.5e-300 @b[1011] f1e2d3c4-b5a6-9788-7766-554433221100]"),
		[]byte("c0\n\"\\.## verbatim##\""),
		[]byte("C1 {1=2}"),
	}
	out := make([][]byte, 0, len(docs))
	for i, d := range docs {
		p := make([]byte, prefix)
		for j := range p {
			p[j] = byte(i*7 + j)
		}
		out = append(out, append(p, d...))
	}
	return out
}
