package props

import (
	"bytes"
	"fmt"
	"io"
	"math/big"
	"reflect"
	"regexp"

	"github.com/kstenerud/go-concise-encoding/ce"
	"github.com/kstenerud/go-concise-encoding/ce/events"
	"github.com/kstenerud/go-concise-encoding/configuration"

	"verif/internal/canon"
	"verif/internal/ev"
	"verif/internal/gen"
	"verif/internal/harness"
)

// EvCase is the replayable form of an event-stream case.
type EvCase struct {
	Events []ev.Event `json:"events"`
}

func newCfg() *configuration.Configuration { return configuration.New() }

// rulesAccept plays events into a fresh validator; returns the index of the rejected event or -1.
func rulesAccept(evs []ev.Event, cfg *configuration.Configuration) (int, error) {
	r := ce.NewRules(nil, cfg)
	return ev.Play(evs, r)
}

// encodeWith plays events through rules into an encoder writing to a buffer.
// The low-level receivers signal errors by panic; Play converts that into (index, err).
// The destination alternates, as a function of the stream, between a bytes.Buffer (which has WriteString and
// the other fast paths) and a plain io.Writer that has Write only: what an encoder writes must not depend
// on which optional interfaces its destination happens to implement.
func encodeWith(enc ce.Encoder, evs []ev.Event, cfg *configuration.Configuration, withRules bool) ([]byte, int, error) {
	var buf bytes.Buffer
	parity := len(evs)
	for i := range evs {
		for _, b := range evs[i].Bs {
			parity += int(b)
		}
		parity += len(evs[i].S) + int(evs[i].U&0xff) + int(evs[i].I&0xff)
	}
	if parity%2 == 1 {
		enc.PrepareToEncode(plainWriter{&buf})
	} else {
		enc.PrepareToEncode(&buf)
	}
	var rcv events.DataEventReceiver = enc
	if withRules {
		rcv = ce.NewRules(enc, cfg)
	}
	idx, err := ev.Play(evs, rcv)
	return buf.Bytes(), idx, err
}

// plainWriter hides every method of its destination but Write.
type plainWriter struct{ w io.Writer }

func (p plainWriter) Write(b []byte) (int, error) { return p.w.Write(b) }

func encodeCBE(evs []ev.Event, cfg *configuration.Configuration) ([]byte, int, error) {
	return encodeWith(ce.NewCBEEncoder(cfg), evs, cfg, true)
}

func encodeCTE(evs []ev.Event, cfg *configuration.Configuration) ([]byte, int, error) {
	return encodeWith(ce.NewCTEEncoder(cfg), evs, cfg, true)
}

// decodeWith decodes a document through rules into a recorder.
func decodeWith(dec ce.Decoder, doc []byte, cfg *configuration.Configuration) ([]ev.Event, error) {
	rec := ev.NewRecorder()
	err := dec.DecodeDocument(doc, ce.NewRules(rec, cfg))
	return rec.Events, err
}

func decodeCBE(doc []byte, cfg *configuration.Configuration) ([]ev.Event, error) {
	return decodeWith(ce.NewCBEDecoder(cfg), doc, cfg)
}

func decodeCTE(doc []byte, cfg *configuration.Configuration) ([]ev.Event, error) {
	return decodeWith(ce.NewCTEDecoder(cfg), doc, cfg)
}

func buildTree(evs []ev.Event, o canon.Opts) (*canon.Node, error) {
	n, err := canon.Build(evs)
	if err != nil {
		return nil, err
	}
	return canon.Strip(n, o), nil
}

// features labels an event stream for the evidence histogram and decides non-triviality
// (>= 1 container, or a chunked array, or a numeric leaf outside the small-int range).
func features(ctx *Ctx, evs []ev.Event) (nontrivial bool) {
	for i := range evs {
		e := &evs[i]
		switch e.K {
		case ev.List, ev.Map:
			nontrivial = true
			ctx.Label("container")
		case ev.Edge:
			nontrivial = true
			ctx.Label("edge")
		case ev.Node:
			nontrivial = true
			ctx.Label("node")
		case ev.Record:
			nontrivial = true
			ctx.Label("record")
		case ev.ArrayChunk:
			nontrivial = true
			ctx.Label("chunked")
		case ev.Marker:
			ctx.Label("marker")
		case ev.RefLocal:
			ctx.Label("reference")
		case ev.Comment:
			ctx.Label("comment")
		case ev.Padding:
			ctx.Label("padding")
		case ev.Media, ev.MediaBegin:
			ctx.Label("media")
		case ev.CustomBinary, ev.CustomText, ev.CustomBegin:
			ctx.Label("custom")
		case ev.Time:
			ctx.Label("time")
			ctx.LabelIf(e.T.Timezone.Type == 4, "time-latlong")
		case ev.BigInt:
			ctx.Label("bigint")
			nontrivial = true
		case ev.BigFloat:
			ctx.Label("bigfloat")
			nontrivial = true
		case ev.BigDFloat:
			ctx.Label("bigdecimal")
			nontrivial = true
		case ev.Float, ev.DFloat:
			nontrivial = true
			ctx.Label("float")
		case ev.PInt, ev.NInt:
			if e.U > 100 {
				nontrivial = true
			}
		case ev.Int:
			if e.I > 100 || e.I < -100 {
				nontrivial = true
			}
		case ev.Array, ev.ArrayBegin, ev.StringArray:
			ctx.Label("array:" + e.AT.String())
		case ev.Nan:
			ctx.Label("nan")
		}
	}
	return
}

func hexdump(b []byte) string {
	if len(b) > 400 {
		return fmt.Sprintf("%x...(%d bytes)", b[:400], len(b))
	}
	return fmt.Sprintf("%x", b)
}

func textdump(b []byte) string {
	if len(b) > 1200 {
		return fmt.Sprintf("%q...(%d bytes)", b[:1200], len(b))
	}
	return fmt.Sprintf("%q", b)
}

var _ = harness.Open

func sendRaw(e *ev.Event, r events.DataEventReceiver) { ev.SendRaw(e, r) }

func strictGen() bool { return envInt("VERIF_STRICT_GEN", 0) == 1 }

// avoid builds the generator's Avoid map from the open known findings (root-cause keys).
func avoid(ctx *Ctx, o *gen.EvOpts, keys ...string) {
	o.Avoid = map[string]bool{}
	for _, k := range keys {
		if harness.Open(k) {
			o.Avoid[k] = true
		}
	}
	o.Excluded = func(k string) { ctx.Stats.Exclude(k) }
}

// genInvalid handles a generated stream the validator rejects: counted and discarded in a search run
// (the round-trip properties quantify over rules-valid streams only), an error when replaying a stored
// case (a regression input must stay valid) or when VERIF_STRICT_GEN=1 (generator development).
func genInvalid(ctx *Ctx, idx int, err interface{}, evs []ev.Event) error {
	ctx.Stats.Count("generator_invalid", 1)
	ctx.Label("generator_invalid")
	if strictGen() || ctx.Replaying {
		return fmt.Errorf("the validator rejects this stream at event %d (%v): %v\n%s", idx, evs[idx], err, ev.ListString(evs))
	}
	return nil
}

func findingOpen(key string) bool { return harness.Open(key) }

var hugeHexExponentRE = regexp.MustCompile(`0[xX][0-9a-fA-F_.]*[pP][+-]?[0-9_]{5,}`)

// hugeHexExponent: the text contains a hexadecimal float with a binary exponent of five or more digits
// (the region of the open finding S75: decimal conversion / error formatting of such a big.Float takes
// time quadratic in the exponent).
func hugeHexExponent(doc []byte) bool { return hugeHexExponentRE.Match(doc) }

const s75 = "S75-big-float-extreme-exponent"

func ratOfAny(v interface{}) (*big.Rat, bool) {
	rv := reflect.ValueOf(v)
	if !rv.IsValid() {
		return nil, false
	}
	switch rv.Kind() {
	case reflect.Int, reflect.Int8, reflect.Int16, reflect.Int32, reflect.Int64:
		return new(big.Rat).SetInt64(rv.Int()), true
	case reflect.Uint, reflect.Uint8, reflect.Uint16, reflect.Uint32, reflect.Uint64:
		return new(big.Rat).SetInt(new(big.Int).SetUint64(rv.Uint())), true
	}
	if bi, ok := v.(*big.Int); ok {
		return new(big.Rat).SetInt(bi), true
	}
	return nil, false
}
