package props

import (
	"fmt"

	"pgregory.net/rapid"

	"verif/internal/canon"
	"verif/internal/ev"
	"verif/internal/gen"
)

// C01 — CBE encode/decode preserves every rules-valid event stream.

func c01Opts(ctx *Ctx) gen.EvOpts {
	o := gen.EvOpts{Comments: true, Padding: true, CustomBinary: true, Media: true, Markers: true, Records: true, RemoteRef: true,
		FullUnicode: true, Chunked: true, MidCharSplit: true, WideBigFloat: true, MaxDepth: 4, MaxArr: 60, Budget: 30}
	if ctx.Thorough() {
		o.MaxArr, o.Budget, o.MaxDepth = 2000, 150, 6
	}
	avoid(ctx, &o, "S36-marker-inside-marked-container", "S37-marked-chunked-key")
	return o
}

func init() {
	Register(&Prop{
		ID:  "C01",
		New: func() interface{} { return &EvCase{} },
		Gen: func(t *rapid.T, ctx *Ctx) interface{} {
			return &EvCase{Events: gen.Document(t, c01Opts(ctx))}
		},
		Fixed: func(ctx *Ctx, report func(c interface{}, err error)) {
			sweepEventCases(ctx, report, c01Check, "custom-text-type-code")
		}, // CBE has no custom text
		Check: c01Check,
	})
}

func c01Check(ci interface{}, ctx *Ctx) error {
	{
		{
			c := ci.(*EvCase)
			cfg := newCfg()
			if idx, err := rulesAccept(c.Events, cfg); idx >= 0 {
				return genInvalid(ctx, idx, err, c.Events)
			}
			ctx.NonTrivial(features(ctx, c.Events))
			doc, idx, err := encodeCBE(c.Events, cfg)
			if idx >= 0 {
				return fmt.Errorf("CBE encoder failed on a rules-valid stream at event %d (%v): %v", idx, c.Events[idx], err)
			}
			out, err := decodeCBE(doc, cfg)
			if err != nil {
				return fmt.Errorf("CBE decoder (with rules) rejected encoder output: %v\ndoc=%s", err, hexdump(doc))
			}
			want, err := buildTree(c.Events, canon.Opts{DropComments: true})
			if err != nil {
				return fmt.Errorf("harness: input does not parse: %v", err)
			}
			got, err := buildTree(out, canon.Opts{})
			if err != nil {
				return fmt.Errorf("decoded event list is not a well-formed document: %v\n%s", err, ev.ListString(out))
			}
			if d := canon.Diff(want, got, canon.EqOpts{TolBigFloat: true}); d != "" {
				return fmt.Errorf("CBE round trip changed the data: %s\ndoc=%s", d, hexdump(doc))
			}
			return nil
		}
	}
}
