package props

import (
	"errors"
	"fmt"
	"io"

	"github.com/kstenerud/go-concise-encoding/ce"
	"pgregory.net/rapid"

	"verif/internal/ev"
	"verif/internal/gen"
)

// C29 — I/O failures are always reported: if the destination writer fails at any point while
// marshaling / encoding, or the source reader fails with a non-EOF error at any point while decoding,
// the call returns an error; it never reports success and never lets a panic escape.
//
// For one generated value / document the run is first executed against a counting writer / reader to
// learn its call sequence; then EVERY call index is failed once (plus byte-granular partial writes),
// in the variants: fail once and recover, fail and stay failed, fail after accepting / delivering part
// of the data. Whenever the injected fault was actually hit, the entry point must return a non-nil
// error (low-level encoders: a panic carrying an error, their documented error channel).

var errInjected = errors.New("injected I/O fault")

// c29Err is the error value a faulty reader / writer returns. A reader signals a graceful end of input with
// io.EOF itself; io.ErrUnexpectedEOF and an error that merely wraps io.EOF ("read /dev/x: EOF") report a
// failure - "some other error giving more detail" in the words of package io - and must surface like any other.
func c29Err(kind string) error {
	switch kind {
	case "unexpected-eof":
		return io.ErrUnexpectedEOF
	case "wrapped-eof":
		return fmt.Errorf("read /dev/injected: %w", io.EOF)
	}
	return errInjected
}

type C29Case struct {
	Side   string        `json:"side"`  // write | read
	Entry  string        `json:"entry"` // see c29WriteEntries / c29ReadEntries
	Type   *gen.TypeSpec `json:"type,omitempty"`
	Val    *gen.Val      `json:"val,omitempty"`
	Events []ev.Event    `json:"events,omitempty"` // encoder entries (write side) and document source (read side)
	Format string        `json:"format,omitempty"` // read side: cbe | cte
	Block  int           `json:"block,omitempty"`  // read side: bytes granted per read (0 = as asked)
	Err    string        `json:"err,omitempty"`    // error value returned by the fault: "" (plain) | unexpected-eof | wrapped-eof
	// Multi: failure sequences - each a set of call indices (taken modulo the number of calls of the healthy
	// run) that fail once each while the calls between them succeed
	Multi [][]int `json:"multi,omitempty"`
	// StringWriter (write side): the destination also implements io.StringWriter (like *os.File or
	// *bufio.Writer); its WriteString calls are write calls like any other and fail the same way
	StringWriter bool `json:"string_writer,omitempty"`
}

var c29WriteEntries = []string{"MarshalCBE", "MarshalCTE", "CBEMarshaler.Marshal", "CTEMarshaler.Marshal", "CBEEncoder", "CTEEncoder"}
var c29ReadEntries = []string{"UnmarshalCBE", "UnmarshalCTE", "UnmarshalCE", "CBEDecoder.Decode", "CTEDecoder.Decode", "CEDecoder.Decode", "CBEUnmarshaler.Unmarshal"}

// faultWriter fails the write call number failAt (0-based). mode: "once" = that call returns
// (0, err) and later calls succeed; "sticky" = that and all later calls fail; "partial" = that call
// accepts half of the data and returns the error, later calls succeed.
type faultWriter struct {
	calls  int
	bytes  int
	failAt int
	mode   string
	hit    bool
	err    error
	set    map[int]bool // multi-failure sequence: these calls fail (mode "once" semantics)
}

func (w *faultWriter) Write(p []byte) (int, error) {
	i := w.calls
	w.calls++
	if w.set[i] || w.failAt >= 0 && (i == w.failAt || (w.mode == "sticky" && i > w.failAt)) {
		w.hit = true
		if w.err == nil {
			w.err = errInjected
		}
		if w.mode == "partial" {
			w.bytes += len(p) / 2
			return len(p) / 2, w.err
		}
		if w.mode == "full-count" {
			// everything was taken and the call still reports a failure (a failed flush behind the
			// write, a tee whose second leg failed): io.Writer allows this combination
			w.bytes += len(p)
			return len(p), w.err
		}
		return 0, w.err
	}
	w.bytes += len(p)
	return len(p), nil
}

// faultReader delivers data in blocks and fails the read call number failAt. mode: "once" = that call
// returns (0, err) and later calls continue; "sticky" = stays failed; "partial" = that call delivers its
// data together with the error, then stays failed; "partial-once" = data together with the error, later
// calls continue normally.
type faultReader struct {
	data   []byte
	pos    int
	block  int
	calls  int
	failAt int
	mode   string
	hit    bool
	err    error
	set    map[int]bool // multi-failure sequence: these calls fail once each and later calls carry on
}

func (r *faultReader) Read(p []byte) (int, error) {
	i := r.calls
	r.calls++
	if r.err == nil {
		r.err = errInjected
	}
	if r.set[i] && len(p) > 0 {
		r.hit = true
		return 0, r.err
	}
	if len(p) == 0 {
		return 0, nil
	}
	failing := r.failAt >= 0 && (i == r.failAt || (r.mode != "once" && r.mode != "partial-once" && i > r.failAt))
	if failing && r.mode != "partial" && r.mode != "partial-once" {
		r.hit = true
		return 0, r.err
	}
	if failing && i > r.failAt {
		r.hit = true
		return 0, r.err
	}
	n := len(p)
	if r.block > 0 && r.block < n {
		n = r.block
	}
	if rem := len(r.data) - r.pos; n > rem {
		n = rem
	}
	copy(p, r.data[r.pos:r.pos+n])
	r.pos += n
	if failing { // partial: data together with the error
		r.hit = true
		return n, r.err
	}
	if n == 0 {
		return 0, io.EOF
	}
	return n, nil
}

// faultStringWriter adds WriteString to a faultWriter.
type faultStringWriter struct{ *faultWriter }

func (w faultStringWriter) WriteString(s string) (int, error) { return w.faultWriter.Write([]byte(s)) }

func c29Write(c *C29Case, ctx *Ctx, fw *faultWriter) (err error, bad error) {
	cfg := newCfg()
	var w io.Writer = fw
	if c.StringWriter {
		w = faultStringWriter{fw}
	}
	var v interface{}
	if c.Type != nil {
		v = gen.Build(c.Type, c.Val).Interface()
	}
	o := ctx.Guard(func() {
		switch c.Entry {
		case "MarshalCBE":
			err = ce.MarshalCBE(v, w, cfg)
		case "MarshalCTE":
			err = ce.MarshalCTE(v, w, cfg)
		case "CBEMarshaler.Marshal":
			err = ce.NewCBEMarshaler(cfg).Marshal(v, w)
		case "CTEMarshaler.Marshal":
			err = ce.NewCTEMarshaler(cfg).Marshal(v, w)
		case "CBEEncoder", "CTEEncoder":
			var enc ce.Encoder
			if c.Entry == "CBEEncoder" {
				enc = ce.NewCBEEncoder(cfg)
			} else {
				enc = ce.NewCTEEncoder(cfg)
			}
			enc.PrepareToEncode(w)
			// the low-level receivers signal errors by panic: Play turns that into (index, error)
			if idx, perr := ev.Play(c.Events, enc); idx >= 0 {
				err = fmt.Errorf("event %d: %v", idx, perr)
			}
		default:
			panic("harness: unknown entry " + c.Entry)
		}
	})
	if o.TimedOut || o.Panic != nil {
		return nil, fmt.Errorf("%s: %v", c.Entry, o)
	}
	return err, nil
}

func c29Read(c *C29Case, ctx *Ctx, doc []byte, r *faultReader) (err error, bad error) {
	cfg := newCfg()
	o := ctx.Guard(func() {
		switch c.Entry {
		case "UnmarshalCBE":
			_, err = ce.UnmarshalCBE(r, nil, cfg)
		case "UnmarshalCTE":
			_, err = ce.UnmarshalCTE(r, nil, cfg)
		case "UnmarshalCE":
			_, err = ce.UnmarshalCE(r, nil, cfg)
		case "CBEUnmarshaler.Unmarshal":
			_, err = ce.NewCBEUnmarshaler(cfg).Unmarshal(r, nil)
		case "CBEDecoder.Decode":
			err = ce.NewCBEDecoder(cfg).Decode(r, ce.NewRules(ev.NewRecorder(), cfg))
		case "CTEDecoder.Decode":
			err = ce.NewCTEDecoder(cfg).Decode(r, ce.NewRules(ev.NewRecorder(), cfg))
		case "CEDecoder.Decode":
			err = ce.NewCEDecoder(cfg).Decode(r, ce.NewRules(ev.NewRecorder(), cfg))
		default:
			panic("harness: unknown entry " + c.Entry)
		}
	})
	if o.TimedOut || o.Panic != nil {
		return nil, fmt.Errorf("%s: %v", c.Entry, o)
	}
	return err, nil
}

func genC29Multi(t *rapid.T) (out [][]int) {
	for i := 0; i < 3; i++ {
		out = append(out, rapid.SliceOfN(rapid.IntRange(0, 63), 2, 4).Draw(t, "multi"))
	}
	return
}

func genC29(t *rapid.T, ctx *Ctx) interface{} {
	evOpts := gen.EvOpts{Comments: true, Padding: true, CustomBinary: true, Media: true, Markers: true, Records: true, Chunked: true, URLRID: true,
		MaxDepth: 3, MaxArr: 40, Budget: 14, NoEdge: true}
	avoid(ctx, &evOpts, "S59-marked-node-value", "S35-key-reference", "S34-reference-in-node")
	evOpts.NoBitArray, evOpts.NoUIDArray = true, true
	if rapid.Bool().Draw(t, "side") {
		c := &C29Case{Side: "write", Entry: rapid.SampledFrom(c29WriteEntries).Draw(t, "entry")}
		c.Err = rapid.SampledFrom([]string{"", "", "unexpected-eof", "wrapped-eof"}).Draw(t, "werr")
		c.StringWriter = rapid.Bool().Draw(t, "stringwriter")
		c.Multi = genC29Multi(t)
		if c.Entry == "CBEEncoder" || c.Entry == "CTEEncoder" {
			c.Events = gen.Document(t, evOpts)
			return c
		}
		o := valOpts(ctx)
		avoidVal(o, "S4-edge-iterator-no-end")
		for {
			c.Type = gen.GenType(t, o, 0)
			if c.Type.K != "iface" {
				break
			}
		}
		c.Val = gen.GenVal(t, o, c.Type, 0)
		return c
	}
	c := &C29Case{Side: "read", Entry: rapid.SampledFrom(c29ReadEntries).Draw(t, "rentry")}
	c.Err = rapid.SampledFrom([]string{"", "unexpected-eof", "wrapped-eof"}).Draw(t, "rerr")
	c.Multi = genC29Multi(t)
	c.Events = gen.Document(t, evOpts)
	switch c.Entry {
	case "UnmarshalCBE", "CBEDecoder.Decode", "CBEUnmarshaler.Unmarshal":
		c.Format = "cbe"
	case "UnmarshalCTE", "CTEDecoder.Decode":
		c.Format = "cte"
	default:
		c.Format = rapid.SampledFrom([]string{"cbe", "cte"}).Draw(t, "format")
	}
	c.Block = rapid.SampledFrom([]int{0, 1, 1, 3, 7, 64}).Draw(t, "block")
	return c
}

func init() {
	Register(&Prop{
		ID:  "C29",
		New: func() interface{} { return &C29Case{} },
		Gen: genC29,
		Check: func(ci interface{}, ctx *Ctx) error {
			c := ci.(*C29Case)
			ctx.Label("side:" + c.Side)
			ctx.Label("entry:" + c.Entry)
			ctx.Label("error-value:" + c.Err)
			ctx.LabelIf(c.StringWriter, "destination with WriteString")
			faults, hits := 0, 0
			defer func() {
				ctx.Stats.Count("fault_positions_executed", int64(faults))
				ctx.Stats.Count("faults_hit", int64(hits))
			}()
			if c.Side == "write" {
				probe := &faultWriter{failAt: -1}
				err, bad := c29Write(c, ctx, probe)
				if bad != nil {
					return fmt.Errorf("without any fault: %v", bad)
				}
				if err != nil {
					ctx.Label("not-marshalable-skipped")
					return nil // the value / stream is not accepted even by a healthy writer: nothing to inject
				}
				ctx.NonTrivial(probe.calls >= 3)
				ctx.Stats.Count("write_calls_in_healthy_runs", int64(probe.calls))
				limit := probe.calls
				if limit > 400 {
					limit = 400
				}
				for i := 0; i < limit; i++ {
					for _, mode := range []string{"once", "sticky", "partial", "full-count"} {
						w := &faultWriter{failAt: i, mode: mode, err: c29Err(c.Err)}
						faults++
						err, bad := c29Write(c, ctx, w)
						if bad != nil {
							return fmt.Errorf("write call %d of %d failing (%s): %v", i, probe.calls, mode, bad)
						}
						if !w.hit {
							continue
						}
						hits++
						if err == nil {
							return fmt.Errorf("%s reported success although write call %d of %d failed (%s; %d bytes had been accepted)", c.Entry, i, probe.calls, mode, w.bytes)
						}
					}
				}
				for _, m := range c.Multi {
					w := &faultWriter{failAt: -1, mode: "once", err: c29Err(c.Err), set: map[int]bool{}}
					for _, k := range m {
						w.set[k%probe.calls] = true
					}
					faults++
					err, bad := c29Write(c, ctx, w)
					if bad != nil {
						return fmt.Errorf("write calls %v of %d failing: %v", m, probe.calls, bad)
					}
					if w.hit {
						hits++
						ctx.Label("multi-failure sequence hit")
						if err == nil {
							return fmt.Errorf("%s reported success although write calls %v (modulo %d) failed", c.Entry, m, probe.calls)
						}
					}
				}
				return nil
			}
			// ---- read side
			cfg := newCfg()
			var doc []byte
			var idx int
			if c.Format == "cbe" {
				doc, idx, _ = encodeCBE(c.Events, cfg)
			} else {
				doc, idx, _ = encodeCTE(c.Events, cfg)
			}
			if idx >= 0 {
				return genInvalid(ctx, idx, "encoder", c.Events)
			}
			ctx.Label("format:" + c.Format)
			ctx.Label(fmt.Sprintf("block:%d", c.Block))
			probe := &faultReader{data: doc, block: c.Block, failAt: -1}
			err, bad := c29Read(c, ctx, doc, probe)
			if bad != nil {
				return fmt.Errorf("without any fault: %v\ndoc=%s", bad, docdump(c.Format, doc))
			}
			if err != nil {
				ctx.Label("not-decodable-skipped")
				return nil
			}
			ctx.NonTrivial(probe.calls >= 3)
			ctx.Stats.Count("read_calls_in_healthy_runs", int64(probe.calls))
			limit := probe.calls
			if limit > 400 {
				limit = 400
			}
			for i := 0; i < limit; i++ {
				for _, mode := range []string{"once", "sticky", "partial", "partial-once"} {
					r := &faultReader{data: doc, block: c.Block, failAt: i, mode: mode, err: c29Err(c.Err)}
					faults++
					err, bad := c29Read(c, ctx, doc, r)
					if bad != nil {
						return fmt.Errorf("read call %d of %d failing (%s): %v\ndoc=%s", i, probe.calls, mode, bad, docdump(c.Format, doc))
					}
					if !r.hit {
						continue
					}
					hits++
					if err == nil {
						return fmt.Errorf("%s reported success although read call %d of %d failed with the error %q (%s, block=%d, %d of %d bytes delivered)\ndoc=%s",
							c.Entry, i, probe.calls, r.err, mode, c.Block, r.pos, len(doc), docdump(c.Format, doc))
					}
				}
			}
			for _, m := range c.Multi {
				r := &faultReader{data: doc, block: c.Block, failAt: -1, mode: "once", err: c29Err(c.Err), set: map[int]bool{}}
				for _, k := range m {
					r.set[k%probe.calls] = true
				}
				faults++
				err, bad := c29Read(c, ctx, doc, r)
				if bad != nil {
					return fmt.Errorf("read calls %v of %d failing: %v\ndoc=%s", m, probe.calls, bad, docdump(c.Format, doc))
				}
				if r.hit {
					hits++
					ctx.Label("multi-failure sequence hit")
					if err == nil {
						return fmt.Errorf("%s reported success although read calls %v (modulo %d) failed with %q (block=%d)\ndoc=%s", c.Entry, m, probe.calls, r.err, c.Block, docdump(c.Format, doc))
					}
				}
			}
			return nil
		},
	})
}
