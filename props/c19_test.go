package props

import (
	"fmt"
	"math"
	"math/big"
	"reflect"

	"github.com/cockroachdb/apd/v2"
	compact_float "github.com/kstenerud/go-compact-float"
	"github.com/kstenerud/go-concise-encoding/builder"
	"github.com/kstenerud/go-concise-encoding/ce"
	"github.com/kstenerud/go-concise-encoding/ce/events"
	"pgregory.net/rapid"

	"verif/internal/canon"
	"verif/internal/ev"
	"verif/internal/gen"
	"verif/internal/harness"
)

// C19 — numeric unmarshaling is exact or fails. Oracle M-NUM: the exact value of the event as a
// big.Rat; when no error is returned the stored value, converted exactly, must equal it.

type C19Case struct {
	Event ev.Event `json:"event"`
	Dest  string   `json:"dest"`
	Via   string   `json:"via"` // builder | cbe | cte
	// Mode "" = one value into one destination (above). "list" = Events into a slice of Dest
	// (state shared between consecutive conversions). "ref" = {"a" = &x:Event "b" = $x} (or the reference
	// first) into struct{A Dest; B Dest2}: the conversion applied when a reference is resolved.
	Mode    string     `json:"mode,omitempty"`
	Events  []ev.Event `json:"events,omitempty"`
	Dest2   string     `json:"dest2,omitempty"`
	Forward bool       `json:"forward,omitempty"`
	// Holder (mode "ref"): what field B is and where in it the reference sits - "" the field itself,
	// "map" map[string]Dest2 ({"k" = $x}), "slice" []Dest2 ([$x]), "array" [1]Dest2 ([$x]): one resolving path each
	Holder string `json:"holder,omitempty"`
}

func isFloatDest(d string) bool { return d == "float32" || d == "float64" }

// c19Judge compares one stored element with the exact value of the event it came from.
func c19Judge(e *ev.Event, dest string, stored interface{}, desc string) error {
	want, wkind, isInt := exactValue(e)
	floatDest := dest == "float32" || dest == "float64"
	bigFloatDest := dest == "bigfloat" || dest == "pbigfloat"
	isDecimal := e.K == ev.DFloat || e.K == ev.BigDFloat
	if floatDest && !isInt {
		return nil // only integer values into float destinations are in the statement
	}
	if bigFloatDest && isDecimal {
		return nil // decimal -> binary big float: not judged (S54 / cannot be exact by nature)
	}
	got, gkind, ok := storedValue(stored)
	if !ok {
		return fmt.Errorf("harness: cannot read back a %T", stored)
	}
	switch wkind {
	case "nan":
		if gkind != "nan" {
			return fmt.Errorf("%s: NaN has no exact value in this destination, yet no error was returned (stored %s)", desc, describe(stored))
		}
	case "inf":
		if gkind != "inf" {
			return fmt.Errorf("%s: infinity has no exact value in this destination, yet no error was returned (stored %s)", desc, describe(stored))
		}
	default:
		if gkind != "rat" || got.Cmp(want) != 0 {
			return fmt.Errorf("%s: stored %s, exact value is %s; no error was returned", desc, describe(stored), want.RatString())
		}
	}
	return nil
}

func c19CheckMulti(c *C19Case, ctx *Ctx) error {
	cfg := newCfg()
	ctx.Label("mode:" + c.Mode)
	ctx.Label("dest:" + c.Dest)
	ctx.Label("via:" + c.Via)
	ctx.NonTrivial(true)
	var evs []ev.Event
	var template interface{}
	elemType := func(d string) reflect.Type {
		if d == "iface" {
			return reflect.TypeOf((*interface{})(nil)).Elem()
		}
		if d == "pbigint" {
			return reflect.TypeOf((*big.Int)(nil))
		}
		if d == "pbigfloat" {
			return reflect.TypeOf((*big.Float)(nil))
		}
		return reflect.TypeOf(c19Template(d))
	}
	if c.Mode == "list" {
		evs = append([]ev.Event{{K: ev.BD}, {K: ev.Version}, {K: ev.List}}, c.Events...)
		evs = append(evs, ev.Event{K: ev.End}, ev.Event{K: ev.ED})
		template = reflect.MakeSlice(reflect.SliceOf(elemType(c.Dest)), 0, 0).Interface()
	} else {
		key := func(s string) ev.Event { return ev.Event{K: ev.StringArray, AT: events.ArrayTypeString, S: s} }
		evs = []ev.Event{{K: ev.BD}, {K: ev.Version}, {K: ev.Map}}
		marked := []ev.Event{key("A"), {K: ev.Marker, Bs: []byte("x")}, c.Event}
		ref := []ev.Event{key("B"), {K: ev.RefLocal, Bs: []byte("x")}}
		switch c.Holder {
		case "map":
			ref = []ev.Event{key("B"), {K: ev.Map}, key("k"), {K: ev.RefLocal, Bs: []byte("x")}, {K: ev.End}}
		case "slice", "array":
			ref = []ev.Event{key("B"), {K: ev.List}, {K: ev.RefLocal, Bs: []byte("x")}, {K: ev.End}}
		}
		if c.Forward {
			evs = append(append(evs, ref...), marked...)
		} else {
			evs = append(append(evs, marked...), ref...)
		}
		evs = append(evs, ev.Event{K: ev.End}, ev.Event{K: ev.ED})
		bType := elemType(c.Dest2)
		switch c.Holder {
		case "map":
			bType = reflect.MapOf(reflect.TypeOf(""), bType)
		case "slice":
			bType = reflect.SliceOf(bType)
		case "array":
			bType = reflect.ArrayOf(1, bType)
		}
		ctx.LabelIf(c.Holder != "", "reference inside a "+c.Holder)
		st := reflect.StructOf([]reflect.StructField{{Name: "A", Type: elemType(c.Dest)}, {Name: "B", Type: bType}})
		template = reflect.Zero(st).Interface()
		ctx.Label("dest2:" + c.Dest2)
	}
	used := evs // the events the destination actually sees
	var res interface{}
	var err error
	if c.Via == "builder" {
		b := builder.NewSession(nil, cfg).NewBuilderFor(template)
		o := harness.Guard(harness.DefaultDeadline, func() {
			if idx, perr := ev.Play(evs, ce.NewRules(b, cfg)); idx >= 0 {
				err = perr
			}
		})
		if o.TimedOut {
			ctx.Hung = true
			return fmt.Errorf("builder: %v", o)
		}
		if o.Panic != nil {
			err = fmt.Errorf("%v", o.Panic)
		}
		if err == nil {
			res = b.GetBuiltObject()
		}
	} else {
		var doc []byte
		var idx int
		var eerr error
		if c.Via == "cbe" {
			doc, idx, eerr = encodeCBE(evs, cfg)
		} else {
			doc, idx, eerr = encodeCTE(evs, cfg)
		}
		if idx >= 0 {
			return fmt.Errorf("harness: encoder failed: %v", eerr)
		}
		var derr error
		if c.Via == "cbe" {
			used, derr = decodeCBE(doc, cfg)
		} else {
			o := ctx.Guard(func() { used, derr = decodeCTE(doc, cfg) })
			if o.TimedOut || o.Panic != nil {
				return fmt.Errorf("CTE decoder: %v", o)
			}
		}
		if derr != nil {
			return fmt.Errorf("harness: encoder output does not decode: %v", derr)
		}
		var bad error
		res, err, bad = unmarshalDoc(ctx, c.Via, doc, template, cfg)
		if bad != nil {
			return bad
		}
	}
	if err != nil {
		ctx.Label("result:error")
		return nil // an error is always acceptable
	}
	ctx.Label("result:stored")
	// the numeric events of the decoded document, in order
	var nums []ev.Event
	for i := range used {
		if _, _, ok := func() (r *big.Rat, k string, ok bool) {
			defer func() { recover() }()
			switch used[i].K {
			case ev.Int, ev.PInt, ev.NInt, ev.BigInt, ev.Float, ev.BigFloat, ev.DFloat, ev.BigDFloat, ev.Nan:
				return nil, "", true
			}
			return nil, "", false
		}(); ok {
			nums = append(nums, used[i])
		}
	}
	rv := reflect.ValueOf(res)
	for rv.IsValid() && rv.Kind() == reflect.Ptr && !rv.IsNil() {
		rv = rv.Elem()
	}
	if c.Mode == "list" {
		if !rv.IsValid() || rv.Kind() != reflect.Slice || rv.Len() != len(nums) {
			return fmt.Errorf("list of %d numbers into []%s via %s: result %s has a different length; no error was returned", len(nums), c.Dest, c.Via, describe(res))
		}
		for i := range nums {
			if e := c19Judge(&nums[i], c.Dest, rv.Index(i).Interface(), fmt.Sprintf("element %d (%v) of %d into []%s via %s", i, nums[i], len(nums), c.Dest, c.Via)); e != nil {
				return e
			}
		}
		return nil
	}
	if len(nums) != 1 || !rv.IsValid() || rv.Kind() != reflect.Struct {
		return fmt.Errorf("harness: unexpected shape (%d numbers, result %T)", len(nums), res)
	}
	if e := c19Judge(&nums[0], c.Dest, rv.Field(0).Interface(), fmt.Sprintf("marked value %v into field A %s via %s", nums[0], c.Dest, c.Via)); e != nil {
		return e
	}
	// the reference is filled in from the object built for the marker: field B is only judged when
	// field A holds the exact value (a conversion of A that the statement does not cover - a decimal
	// into a binary float, a float narrowed to float32 - legitimately propagates to B)
	wantA, kindA, _ := exactValue(&nums[0])
	gotA, gkindA, okA := storedValue(rv.Field(0).Interface())
	if !okA || kindA != gkindA || (kindA == "rat" && gotA.Cmp(wantA) != 0) {
		ctx.Label("ref: marked field not exact, reference not judged")
		return nil
	}
	fb := rv.Field(1)
	switch c.Holder {
	case "map":
		if fb.Len() != 1 || !fb.MapIndex(reflect.ValueOf("k")).IsValid() {
			return fmt.Errorf("reference to the marked value %v inside map field B (map[string]%s) via %s: the map came back as %s; no error was returned", nums[0], c.Dest2, c.Via, describe(fb.Interface()))
		}
		fb = fb.MapIndex(reflect.ValueOf("k"))
	case "slice", "array":
		if fb.Len() != 1 {
			return fmt.Errorf("reference to the marked value %v inside %s field B of %s via %s: it came back as %s; no error was returned", nums[0], c.Holder, c.Dest2, c.Via, describe(fb.Interface()))
		}
		fb = fb.Index(0)
	}
	return c19Judge(&nums[0], c.Dest2, fb.Interface(), fmt.Sprintf("reference to the marked value %v (field A is %s) resolved into field B %s (holder %q) via %s (forward=%v)", nums[0], c.Dest, c.Dest2, c.Holder, c.Via, c.Forward))
}

var c19Dests = []string{"int8", "int16", "int32", "int64", "int", "uint8", "uint16", "uint32", "uint64", "uint", "float32", "float64",
	"bigint", "pbigint", "bigfloat", "pbigfloat"}

func c19Template(dest string) interface{} {
	switch dest {
	case "int8":
		return int8(0)
	case "int16":
		return int16(0)
	case "int32":
		return int32(0)
	case "int64":
		return int64(0)
	case "int":
		return int(0)
	case "uint8":
		return uint8(0)
	case "uint16":
		return uint16(0)
	case "uint32":
		return uint32(0)
	case "uint64":
		return uint64(0)
	case "uint":
		return uint(0)
	case "float32":
		return float32(0)
	case "float64":
		return float64(0)
	case "bigint":
		return big.Int{}
	case "pbigint":
		return (*big.Int)(nil)
	case "bigfloat":
		return big.Float{}
	}
	return (*big.Float)(nil)
}

// exactValue returns the event's mathematical value; kind: "rat", "inf", "nan".
func exactValue(e *ev.Event) (r *big.Rat, kind string, isInt bool) {
	n, _ := canon.NumOf(e)
	switch n.Class {
	case canon.NNan:
		return nil, "nan", false
	case canon.NInf:
		return nil, "inf", false
	case canon.NZero:
		_, isIntEv := map[ev.Kind]bool{ev.Int: true, ev.PInt: true, ev.NInt: true, ev.BigInt: true}[e.K]
		return new(big.Rat), "rat", isIntEv
	}
	switch e.K {
	case ev.Int:
		return new(big.Rat).SetInt64(e.I), "rat", true
	case ev.PInt:
		return new(big.Rat).SetInt(new(big.Int).SetUint64(e.U)), "rat", true
	case ev.NInt:
		v := new(big.Int).SetUint64(e.U)
		return new(big.Rat).SetInt(v.Neg(v)), "rat", true
	case ev.BigInt:
		return new(big.Rat).SetInt(e.Big), "rat", true
	case ev.Float:
		return new(big.Rat).SetFloat64(e.F), "rat", false
	case ev.BigFloat:
		rr, _ := e.BF.Rat(nil)
		return rr, "rat", false
	case ev.DFloat:
		return decRat(big.NewInt(e.DF.Coefficient), int64(e.DF.Exponent), false), "rat", false
	case ev.BigDFloat:
		return decRat(&e.BDF.Coeff, int64(e.BDF.Exponent), e.BDF.Negative), "rat", false
	}
	return nil, "nan", false
}

func decRat(coeff *big.Int, exp int64, neg bool) *big.Rat {
	r := new(big.Rat).SetInt(coeff)
	p := new(big.Rat).SetInt(new(big.Int).Exp(big.NewInt(10), big.NewInt(abs64i(exp)), nil))
	if exp >= 0 {
		r.Mul(r, p)
	} else {
		r.Quo(r, p)
	}
	if neg {
		r.Neg(r)
	}
	return r
}

func abs64i(v int64) int64 {
	if v < 0 {
		return -v
	}
	return v
}

// storedValue converts the unmarshal result exactly.
func storedValue(res interface{}) (r *big.Rat, kind string, ok bool) {
	rv := reflect.ValueOf(res)
	for rv.IsValid() && rv.Kind() == reflect.Ptr {
		if rv.IsNil() {
			return nil, "nil", true
		}
		switch p := rv.Interface().(type) {
		case *apd.Decimal:
			r, k, _ := exactValue(&ev.Event{K: ev.BigDFloat, BDF: p})
			return r, k, true
		case *big.Int:
			return new(big.Rat).SetInt(p), "rat", true
		case *big.Float:
			if p.IsInf() {
				return nil, "inf", true
			}
			rr, _ := p.Rat(nil)
			return rr, "rat", true
		}
		rv = rv.Elem()
	}
	if !rv.IsValid() {
		return nil, "nil", true
	}
	switch rv.Kind() {
	case reflect.Int, reflect.Int8, reflect.Int16, reflect.Int32, reflect.Int64:
		return new(big.Rat).SetInt64(rv.Int()), "rat", true
	case reflect.Uint, reflect.Uint8, reflect.Uint16, reflect.Uint32, reflect.Uint64:
		return new(big.Rat).SetInt(new(big.Int).SetUint64(rv.Uint())), "rat", true
	case reflect.Float32, reflect.Float64:
		f := rv.Float()
		if math.IsNaN(f) {
			return nil, "nan", true
		}
		if math.IsInf(f, 0) {
			return nil, "inf", true
		}
		return new(big.Rat).SetFloat64(f), "rat", true
	}
	switch v := rv.Interface().(type) {
	case compact_float.DFloat:
		r, k, _ := exactValue(&ev.Event{K: ev.DFloat, DF: v})
		return r, k, true
	case apd.Decimal:
		r, k, _ := exactValue(&ev.Event{K: ev.BigDFloat, BDF: &v})
		return r, k, true
	case big.Int:
		return new(big.Rat).SetInt(&v), "rat", true
	case big.Float:
		if v.IsInf() {
			return nil, "inf", true
		}
		rr, _ := v.Rat(nil)
		return rr, "rat", true
	}
	return nil, "", false
}

func genNumericEvent(t *rapid.T) ev.Event {
	switch rapid.IntRange(0, 9).Draw(t, "evkind") {
	case 0, 1, 2, 3:
		v := gen.BigIntValue(t, "int")
		forms := []int{3}
		if v.IsInt64() {
			forms = append(forms, 0)
		}
		if v.Sign() >= 0 && v.IsUint64() {
			forms = append(forms, 1)
		}
		if v.Sign() <= 0 && new(big.Int).Neg(v).IsUint64() {
			forms = append(forms, 2, 2)
		}
		switch forms[rapid.IntRange(0, len(forms)-1).Draw(t, "form")] {
		case 0:
			return ev.Event{K: ev.Int, I: v.Int64()}
		case 1:
			return ev.Event{K: ev.PInt, U: v.Uint64()}
		case 2:
			return ev.Event{K: ev.NInt, U: new(big.Int).Neg(v).Uint64()}
		}
		return ev.Event{K: ev.BigInt, Big: v}
	case 4, 5:
		if rapid.IntRange(0, 9).Draw(t, "fnan") == 0 {
			return ev.Event{K: ev.Nan, B: rapid.Bool().Draw(t, "sig")}
		}
		f := gen.Float64NonNaN(t, "f")
		if rapid.IntRange(0, 2).Draw(t, "fint") == 0 {
			// integral floats around integer-width boundaries
			b := gen.BigIntValue(t, "fi")
			f, _ = new(big.Float).SetInt(b).Float64()
		}
		return ev.Event{K: ev.Float, F: f}
	case 6:
		return ev.Event{K: ev.BigFloat, BF: gen.BigFloatValue(t, "bf", true)}
	case 7, 8:
		d := gen.DFloatValue(t, "df", false)
		if rapid.IntRange(0, 2).Draw(t, "dint") == 0 && d.Exponent < 0 {
			d.Exponent = int32(rapid.IntRange(0, 20).Draw(t, "dexp"))
		}
		return ev.Event{K: ev.DFloat, DF: d}
	default:
		if rapid.Bool().Draw(t, "bboundary") {
			// whole numbers at the integer-width boundaries carried as big decimal floats: coefficient around
			// 2^63 / 2^64 / 19-20 digits, either sign, exponent 0 or small
			d := &apd.Decimal{Exponent: int32(rapid.SampledFrom([]int{0, 0, 0, 1, 3, 19}).Draw(t, "bbexp"))}
			d.Coeff.Abs(gen.BigIntValue(t, "bbcoeff"))
			if rapid.Bool().Draw(t, "bbexplicit") {
				d.Coeff.SetString(rapid.SampledFrom([]string{"9223372036854775806", "9223372036854775807", "9223372036854775808", "9223372036854775809",
					"9223372036854775817", "12000000000000000001", "18446744073709551614", "18446744073709551615", "18446744073709551616", "18446744073709551617",
					"9999999999999999999", "10000000000000000000", "10000000000000000001", "1234567890123456789", "9876543210987654321", "4294967295", "4294967296",
					"65535", "65536", "255", "256", "127", "128"}).Draw(t, "bbval"), 10)
			}
			d.Negative = rapid.Bool().Draw(t, "bbneg") && d.Coeff.Sign() != 0
			return ev.Event{K: ev.BigDFloat, BDF: d}
		}
		d := gen.APDValue(t, "bdf", false)
		if rapid.IntRange(0, 2).Draw(t, "bint") == 0 && d.Exponent < 0 {
			d.Exponent = int32(rapid.IntRange(0, 30).Draw(t, "bexp"))
		}
		return ev.Event{K: ev.BigDFloat, BDF: d}
	}
}

func init() {
	Register(&Prop{
		ID:  "C19",
		New: func() interface{} { return &C19Case{} },
		Gen: func(t *rapid.T, ctx *Ctx) interface{} {
			c := &C19Case{Event: genNumericEvent(t)}
			c.Dest = c19Dests[rapid.IntRange(0, len(c19Dests)-1).Draw(t, "dest")]
			c.Via = rapid.SampledFrom([]string{"builder", "builder", "cbe", "cte"}).Draw(t, "via")
			switch rapid.IntRange(0, 5).Draw(t, "mode") {
			case 0: // several values into one slice
				c.Mode = "list"
				dests := append(append([]string{}, c19Dests...), "iface", "iface", "pbigint", "bigint")
				c.Dest = dests[rapid.IntRange(0, len(dests)-1).Draw(t, "ldest")]
				first := genNumericEvent(t)
				c.Events = []ev.Event{first}
				for i, n := 0, rapid.IntRange(1, 3).Draw(t, "nmore"); i < n; i++ {
					if rapid.Bool().Draw(t, "samekind") {
						// a neighbour of the first value: same event kind, same magnitude class
						e2 := first
						d := uint64(rapid.IntRange(1, 9).Draw(t, "delta"))
						switch first.K {
						case ev.Int:
							if first.I > math.MinInt64+10 {
								e2.I = first.I - int64(d)
							}
						case ev.PInt, ev.NInt:
							if first.U > 10 {
								e2.U = first.U - d
							}
						case ev.BigInt:
							if first.Big != nil {
								e2.Big = new(big.Int).Sub(first.Big, new(big.Int).SetUint64(d))
							}
						default:
							e2 = genNumericEvent(t)
						}
						c.Events = append(c.Events, e2)
					} else {
						c.Events = append(c.Events, genNumericEvent(t))
					}
				}
				return c
			case 1: // a marked value and a reference to it, into two differently typed fields
				c.Mode = "ref"
				c.Dest2 = c19Dests[rapid.IntRange(0, len(c19Dests)-1).Draw(t, "dest2")]
				c.Forward = rapid.Bool().Draw(t, "forward")
				c.Holder = rapid.SampledFrom([]string{"", "", "map", "slice", "array"}).Draw(t, "holder")
				if c.Holder == "array" && c.Forward && findingOpen("S80-pointers-inside-by-value-containers") {
					// a reference that is filled in after the Go array was copied into its parent is lost (S80, listed under C20)
					ctx.Stats.Exclude("S80-pointers-inside-by-value-containers")
					c.Forward = false
				}
				if (isFloatDest(c.Dest) || c.Dest == "bigfloat" || c.Dest == "pbigfloat") && isFloatDest(c.Dest2) && findingOpen("S76-reference-float-to-float32-rounds") {
					ctx.Stats.Exclude("S76-reference-float-to-float32-rounds")
					c.Dest2 = "int64"
				}
				return c
			}
			if (c.Dest == "bigfloat" || c.Dest == "pbigfloat") && (c.Event.K == ev.DFloat || c.Event.K == ev.BigDFloat) && findingOpen("S54-decimal-to-bigfloat-precision") {
				ctx.Stats.Exclude("S54-decimal-to-bigfloat-precision")
				c.Dest = "bigint"
			}
			return c
		},
		Check: func(ci interface{}, ctx *Ctx) error {
			c := ci.(*C19Case)
			if c.Mode != "" {
				return c19CheckMulti(c, ctx)
			}
			cfg := newCfg()
			want, wkind, isInt := exactValue(&c.Event)
			floatDest := c.Dest == "float32" || c.Dest == "float64"
			bigFloatDest := c.Dest == "bigfloat" || c.Dest == "pbigfloat"
			isDecimal := c.Event.K == ev.DFloat || c.Event.K == ev.BigDFloat
			judged := true
			if floatDest && !(isInt || (wkind == "rat" && want.IsInt() && isDecimal && false)) {
				judged = false // only integer values into float destinations are in the statement
			}
			if bigFloatDest && isDecimal && wkind == "rat" && !want.IsInt() {
				judged = false // decimal fraction -> binary float cannot be exact by nature; not judged
			}
			ctx.Label("dest:" + c.Dest)
			ctx.Label("via:" + c.Via)
			ctx.Label("event:" + c.Event.K.String())
			ctx.LabelIf(!judged, "not-judged")
			evs := []ev.Event{{K: ev.BD}, {K: ev.Version}, c.Event, {K: ev.ED}}
			template := c19Template(c.Dest)
			var res interface{}
			var err error
			switch c.Via {
			case "builder":
				b := builder.NewSession(nil, cfg).NewBuilderFor(template)
				o := harness.Guard(harness.DefaultDeadline, func() {
					if idx, perr := ev.Play(evs, b); idx >= 0 {
						err = perr
					}
				})
				if o.TimedOut {
					ctx.Hung = true
					return fmt.Errorf("builder: %v", o)
				}
				if o.Panic != nil {
					err = fmt.Errorf("%v", o.Panic)
				}
				if err == nil {
					res = b.GetBuiltObject()
				}
			default:
				var doc []byte
				var idx int
				var eerr error
				if c.Via == "cbe" {
					doc, idx, eerr = encodeCBE(evs, cfg)
				} else {
					doc, idx, eerr = encodeCTE(evs, cfg)
				}
				if idx >= 0 {
					return fmt.Errorf("encoder failed: %v", eerr)
				}
				// what is being judged is the numeric unmarshaling of the value the *document* holds
				// (an encoder may legitimately have rounded a non-float64 big float to decimal)
				var devs []ev.Event
				var derr error
				if c.Via == "cbe" {
					devs, derr = decodeCBE(doc, cfg)
				} else {
					o := ctx.Guard(func() { devs, derr = decodeCTE(doc, cfg) })
					if o.TimedOut || o.Panic != nil {
						return fmt.Errorf("CTE decoder: %v", o)
					}
				}
				if derr != nil || len(devs) != 4 {
					return fmt.Errorf("encoder output does not decode to one value: %v (%s)", derr, ev.ListString(devs))
				}
				want, wkind, isInt = exactValue(&devs[2])
				isDecimal = devs[2].K == ev.DFloat || devs[2].K == ev.BigDFloat
				judged = !(floatDest && !isInt) && !(bigFloatDest && isDecimal && wkind == "rat" && !want.IsInt())
				if bigFloatDest && isDecimal && findingOpen("S54-decimal-to-bigfloat-precision") {
					judged = false
				}
				var bad error
				res, err, bad = unmarshalDoc(ctx, c.Via, doc, template, cfg)
				if bad != nil {
					return bad
				}
			}
			// non-trivial: |value| >= 2^31 or not representable in the destination
			nt := false
			if wkind != "rat" {
				nt = true
			} else {
				abs := new(big.Rat).Abs(want)
				if abs.Cmp(new(big.Rat).SetInt64(1<<31)) >= 0 || !want.IsInt() {
					nt = true
				}
			}
			ctx.NonTrivial(nt)
			if err != nil {
				ctx.Label("result:error")
				return nil // an error is always acceptable
			}
			ctx.Label("result:stored")
			if !judged {
				return nil
			}
			got, gkind, ok := storedValue(res)
			if !ok {
				return fmt.Errorf("harness: cannot read back a %T", res)
			}
			desc := fmt.Sprintf("event %v into %s via %s", c.Event, c.Dest, c.Via)
			switch wkind {
			case "nan":
				if gkind != "nan" {
					return fmt.Errorf("%s: NaN has no exact value in this destination, yet no error was returned (stored %v)", desc, res)
				}
			case "inf":
				if gkind != "inf" {
					return fmt.Errorf("%s: infinity has no exact value in this destination, yet no error was returned (stored %v)", desc, describe(res))
				}
			default:
				if gkind != "rat" || got.Cmp(want) != 0 {
					return fmt.Errorf("%s: stored %s, exact value is %s; no error was returned", desc, describe(res), want.RatString())
				}
			}
			return nil
		},
	})
}

func describe(res interface{}) string {
	switch v := res.(type) {
	case *big.Int:
		if v == nil {
			return "nil"
		}
		return v.String()
	case *big.Float:
		if v == nil {
			return "nil"
		}
		return v.Text('g', 40)
	case big.Float:
		return v.Text('g', 40)
	case big.Int:
		return v.String()
	case *apd.Decimal:
		return v.String()
	}
	rv := reflect.ValueOf(res)
	for rv.IsValid() && rv.Kind() == reflect.Ptr && !rv.IsNil() {
		rv = rv.Elem()
	}
	if rv.IsValid() {
		switch v := rv.Interface().(type) {
		case big.Float:
			return v.Text('g', 40)
		case big.Int:
			return v.String()
		}
		return fmt.Sprintf("%v", rv.Interface())
	}
	return "nil"
}
