package props

import (
	"bytes"
	"encoding/binary"
	"fmt"
	"math"

	"github.com/kstenerud/go-concise-encoding/ce/events"
	"github.com/kstenerud/go-concise-encoding/configuration"
	"pgregory.net/rapid"

	"verif/internal/canon"
	"verif/internal/ev"
)

// C25 — every CTE array-format setting produces readable CTE.

type C25Case struct {
	Kind   string   `json:"kind"`   // i8 i16 i32 i64 u8 u16 u32 u64 f16 f32 f64
	Format uint8    `json:"format"` // the named settings: 0 1 4 5 6 7 8 9
	Elems  []uint64 `json:"elems"`  // raw element bit patterns
}

var c25Kinds = []string{"i8", "i16", "i32", "i64", "u8", "u16", "u32", "u64", "f16", "f32", "f64"}
var c25Formats = []uint8{uint8(configuration.CTEEncodingFormatDecimal), uint8(configuration.CTEEncodingFormatFlagZeroFilled), uint8(configuration.CTEEncodingFormatBinary),
	uint8(configuration.CTEEncodingFormatBinaryZeroFilled), uint8(configuration.CTEEncodingFormatOctal), uint8(configuration.CTEEncodingFormatOctalZeroFilled),
	uint8(configuration.CTEEncodingFormatHexadecimal), uint8(configuration.CTEEncodingFormatHexadecimalZeroFilled)}
var c25Width = map[string]int{"i8": 1, "i16": 2, "i32": 4, "i64": 8, "u8": 1, "u16": 2, "u32": 4, "u64": 8, "f16": 2, "f32": 4, "f64": 8}
var c25AT = map[string]events.ArrayType{"i8": events.ArrayTypeInt8, "i16": events.ArrayTypeInt16, "i32": events.ArrayTypeInt32, "i64": events.ArrayTypeInt64,
	"u8": events.ArrayTypeUint8, "u16": events.ArrayTypeUint16, "u32": events.ArrayTypeUint32, "u64": events.ArrayTypeUint64,
	"f16": events.ArrayTypeFloat16, "f32": events.ArrayTypeFloat32, "f64": events.ArrayTypeFloat64}

func c25Special(kind string) []uint64 {
	switch kind {
	case "i8":
		return []uint64{0, 1, 0x7f, 0x80, 0xff, 0x81}
	case "i16":
		return []uint64{0, 1, 0x7fff, 0x8000, 0xffff, 0xff80}
	case "i32":
		return []uint64{0, 1, 0x7fffffff, 0x80000000, 0xffffffff}
	case "i64":
		return []uint64{0, 1, 0x7fffffffffffffff, 0x8000000000000000, 0xffffffffffffffff}
	case "u8":
		return []uint64{0, 1, 0x7f, 0x80, 0xff}
	case "u16":
		return []uint64{0, 1, 0x8000, 0xffff}
	case "u32":
		return []uint64{0, 1, 0x80000000, 0xffffffff}
	case "u64":
		return []uint64{0, 1, 0x8000000000000000, 0xffffffffffffffff}
	case "f16": // bfloat16
		return []uint64{0, 0x8000, 0x3f80, 0xbfc0, 0x0001, 0x007f, 0x0080, 0x7f7f, 0x7f80, 0xff80, 0x7fc0, 0x7f81, 0x3dcc}
	case "f32":
		return []uint64{0, 0x80000000, 0x3f800000, 0xbfc00000, 1, 0x007fffff, 0x00800000, 0x7f7fffff, 0x7f800000, 0xff800000, 0x7fc00000, 0x7f800001, 0x3dcccccd}
	}
	return []uint64{0, 0x8000000000000000, 0x3ff0000000000000, 0xbff8000000000000, 1, 0x000fffffffffffff, 0x0010000000000000, 0x7fefffffffffffff,
		0x7ff0000000000000, 0xfff0000000000000, 0x7ff8000000000000, 0x7ff0000000000001, 0x3fb999999999999a}
}

func c25Bytes(kind string, elems []uint64) []byte {
	var out []byte
	for _, e := range elems {
		switch c25Width[kind] {
		case 1:
			out = append(out, byte(e))
		case 2:
			out = binary.LittleEndian.AppendUint16(out, uint16(e))
		case 4:
			out = binary.LittleEndian.AppendUint32(out, uint32(e))
		default:
			out = binary.LittleEndian.AppendUint64(out, e)
		}
	}
	if out == nil {
		out = []byte{}
	}
	return out
}

func c25SetFormat(cfg *configuration.Configuration, kind string, f configuration.CTENumericFormat) {
	a := &cfg.Encoder.CTE.DefaultNumericFormats.Array
	switch kind {
	case "i8":
		a.Int8 = f
	case "i16":
		a.Int16 = f
	case "i32":
		a.Int32 = f
	case "i64":
		a.Int64 = f
	case "u8":
		a.Uint8 = f
	case "u16":
		a.Uint16 = f
	case "u32":
		a.Uint32 = f
	case "u64":
		a.Uint64 = f
	case "f16":
		a.Float16 = f
	case "f32":
		a.Float32 = f
	case "f64":
		a.Float64 = f
	}
}

// c25Known reports whether the (kind, format) cell lies in an open known finding.
func c25Known(kind string, format uint8) string {
	isFloat := kind[0] == 'f'
	if format == uint8(configuration.CTEEncodingFormatFlagZeroFilled) {
		return "S20-zero-fill-flag-alone"
	}
	if isFloat && (format == 4 || format == 5 || format == 6 || format == 7) {
		return "S20-float-binary-octal"
	}
	return ""
}

func c25Check(c *C25Case, ctx *Ctx) error {
	cfg := newCfg()
	c25SetFormat(cfg, c.Kind, configuration.CTENumericFormat(c.Format))
	data := c25Bytes(c.Kind, c.Elems)
	at := c25AT[c.Kind]
	evs := []ev.Event{{K: ev.BD}, {K: ev.Version}, {K: ev.Array, AT: at, U: uint64(len(c.Elems)), Bs: data}, {K: ev.ED}}
	var doc []byte
	var idx int
	var err error
	o := ctx.Guard(func() { doc, idx, err = encodeCTE(evs, cfg) })
	if o.TimedOut || o.Panic != nil {
		return fmt.Errorf("CTE encoder: %v", o)
	}
	if idx >= 0 {
		return fmt.Errorf("kind %s format %v: CTE encoder failed: %v", c.Kind, configuration.CTENumericFormat(c.Format), err)
	}
	var out []ev.Event
	var derr error
	o = ctx.Guard(func() { out, derr = decodeCTE(doc, newCfg()) })
	if o.TimedOut || o.Panic != nil {
		return fmt.Errorf("CTE decoder: %v", o)
	}
	if derr != nil {
		return fmt.Errorf("kind %s format %v: the encoder's text is not readable: %v\ndoc=%s", c.Kind, configuration.CTENumericFormat(c.Format), derr, textdump(doc))
	}
	want, _ := buildTree(evs, canon.Opts{})
	got, berr := buildTree(out, canon.Opts{})
	if berr != nil {
		return fmt.Errorf("decoded events malformed: %v", berr)
	}
	if d := canon.Diff(want, got, canon.EqOpts{FloatArrayNaNKind: true}); d != "" {
		return fmt.Errorf("kind %s format %v: elements changed: %s\ndoc=%s", c.Kind, configuration.CTENumericFormat(c.Format), d, textdump(doc))
	}
	return nil
}

func init() {
	Register(&Prop{
		ID:  "C25",
		New: func() interface{} { return &C25Case{} },
		// the full grid of named settings x kinds, each with the kind's boundary / special elements
		Fixed: func(ctx *Ctx, report func(c interface{}, err error)) {
			if ctx.Shard != 0 {
				return
			}
			var n, nt int64
			for _, k := range c25Kinds {
				for _, f := range c25Formats {
					if key := c25Known(k, f); key != "" && findingOpen(key) {
						ctx.Stats.Exclude(key)
						continue
					}
					for _, elems := range [][]uint64{{}, c25Special(k)} {
						c := &C25Case{Kind: k, Format: f, Elems: elems}
						n++
						if len(elems) > 0 {
							nt++
						}
						if err := c25Check(c, ctx); err != nil {
							report(c, err)
							return
						}
					}
				}
			}
			ctx.Stats.Bulk(n, nt)
			ctx.Stats.SetExhaustive()
			ctx.Stats.Note(fmt.Sprintf("grid part: all %d named settings x %d kinds, each with an empty array and the kind's boundary/special elements", len(c25Formats), len(c25Kinds)))
		},
		Gen: func(t *rapid.T, ctx *Ctx) interface{} {
			for {
				c := &C25Case{Kind: c25Kinds[rapid.IntRange(0, len(c25Kinds)-1).Draw(t, "kind")], Format: c25Formats[rapid.IntRange(0, len(c25Formats)-1).Draw(t, "format")]}
				if key := c25Known(c.Kind, c.Format); key != "" && findingOpen(key) {
					ctx.Stats.Exclude(key)
					continue
				}
				n := rapid.IntRange(0, 40).Draw(t, "n")
				sp := c25Special(c.Kind)
				mask := uint64(math.MaxUint64)
				if w := c25Width[c.Kind]; w < 8 {
					mask = 1<<(uint(w)*8) - 1
				}
				for i := 0; i < n; i++ {
					if rapid.IntRange(0, 2).Draw(t, "special") == 0 {
						c.Elems = append(c.Elems, sp[rapid.IntRange(0, len(sp)-1).Draw(t, "sp")])
					} else {
						c.Elems = append(c.Elems, rapid.Uint64().Draw(t, "e")&mask)
					}
				}
				return c
			}
		},
		Check: func(ci interface{}, ctx *Ctx) error {
			c := ci.(*C25Case)
			ctx.Label("kind:" + c.Kind)
			ctx.Label(fmt.Sprintf("format:%d", c.Format))
			nt := false
			for _, e := range c.Elems {
				w := uint(c25Width[c.Kind]) * 8
				if c.Kind[0] == 'i' && e>>(w-1)&1 == 1 {
					nt = true // negative
				}
				if c.Kind[0] == 'f' {
					nt = true
				}
			}
			ctx.NonTrivial(nt || len(c.Elems) > 0)
			return c25Check(c, ctx)
		},
	})
}

var _ = bytes.Equal
