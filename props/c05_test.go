package props

import (
	"fmt"
	"reflect"
	"sort"

	"github.com/kstenerud/go-concise-encoding/ce"
	"github.com/kstenerud/go-concise-encoding/configuration"
	"github.com/kstenerud/go-concise-encoding/iterator"
	"pgregory.net/rapid"

	"verif/internal/canon"
	"verif/internal/ev"
	"verif/internal/gen"
)

// C05 — marshaling emits a valid event stream that describes exactly the value.

type C05Case struct {
	ValCase
	Records   bool   `json:"records"`
	Recursion bool   `json:"recursion"`
	Omit      string `json:"omit"` // never | empty | zero
	Camel     bool   `json:"camel"`
}

func findStructs(s *gen.TypeSpec, out *[]*gen.TypeSpec) {
	if s == nil {
		return
	}
	if s.K == "struct" {
		*out = append(*out, s)
		for _, f := range s.Fields {
			if !f.Embedded {
				findStructs(f.Type, out)
			}
		}
		return
	}
	findStructs(s.Elem, out)
}

func (c *C05Case) config() (*configuration.Configuration, *iterModel) {
	cfg := newCfg()
	m := &iterModel{Snake: !c.Camel, DefaultOmit: c.Omit, RecordNames: map[string]string{}}
	if c.Camel {
		cfg.Iterator.FieldNameStyle = configuration.FieldNameCamelCase
	}
	switch c.Omit {
	case "never":
		cfg.Iterator.DefaultFieldOmitBehavior = configuration.OmitFieldNever
	case "zero":
		cfg.Iterator.DefaultFieldOmitBehavior = configuration.OmitFieldZero
	case "always":
		cfg.Iterator.DefaultFieldOmitBehavior = configuration.OmitFieldAlways
	default:
		cfg.Iterator.DefaultFieldOmitBehavior = configuration.OmitFieldEmpty
	}
	cfg.Iterator.RecursionSupport = c.Recursion
	if c.Records {
		var structs []*gen.TypeSpec
		findStructs(c.Type, &structs)
		seen := map[reflect.Type]bool{}
		for i, st := range structs {
			rt := st.Realize()
			if seen[rt] || i >= 3 {
				continue
			}
			seen[rt] = true
			name := fmt.Sprintf("rec%d", i)
			cfg.Iterator.RecordTypes[rt] = name
			m.RecordNames[st.String()] = name
		}
	}
	return cfg, m
}

// expectedDoc builds the expected document tree: record type definitions (sorted by name), then the value.
func (c *C05Case) expectedDoc(m *iterModel) *canon.Node {
	doc := &canon.Node{Kind: canon.KDoc}
	var structs []*gen.TypeSpec
	findStructs(c.Type, &structs)
	type rt struct {
		name string
		st   *gen.TypeSpec
	}
	var rts []rt
	done := map[string]bool{}
	for _, st := range structs {
		if name, ok := m.RecordNames[st.String()]; ok && !done[name] {
			done[name] = true
			rts = append(rts, rt{name, st})
		}
	}
	sort.SliceStable(rts, func(i, j int) bool { return rts[i].name < rts[j].name })
	for _, r := range rts {
		n := &canon.Node{Kind: canon.KRecordType, Bytes: []byte(r.name)}
		for _, f := range m.recordFields(r.st, nil) {
			n.Children = append(n.Children, strNode(m.fieldName(f.tag)))
		}
		doc.Children = append(doc.Children, n)
	}
	doc.Children = append(doc.Children, m.tree(c.Type, c.Val))
	return doc
}

func init() {
	Register(&Prop{
		ID:  "C05",
		New: func() interface{} { return &C05Case{} },
		Gen: func(t *rapid.T, ctx *Ctx) interface{} {
			o := valOpts(ctx)
			o.IfaceContainers = true
			o.FixedZone = false
			avoidVal(o, "S4-edge-iterator-no-end", "S3-bool-slice-packing", "S44-float32-snan-quieted")
			o.YearZero = true
			c := &C05Case{ValCase: *genValCase(t, ctx, o)}
			c.Records = rapid.IntRange(0, 2).Draw(t, "records") == 0
			c.Recursion = rapid.Bool().Draw(t, "recursion")
			c.Omit = rapid.SampledFrom([]string{"empty", "empty", "never", "zero", "always"}).Draw(t, "omit")
			c.Camel = rapid.Bool().Draw(t, "camel")
			if c.Recursion && hasZeroSizeElems(c.Type) && findingOpen("S52-same-address-slices-merged") {
				ctx.Stats.Exclude("S52-same-address-slices-merged")
				c.Recursion = false
			}
			if c.Records && findingOpen("S6-record-omits-fields") && c.Omit != "never" {
				ctx.Stats.Exclude("S6-record-omits-fields")
				c.Omit = "never"
			}
			return c
		},
		Check: func(ci interface{}, ctx *Ctx) error {
			c := ci.(*C05Case)
			cfg, m := c.config()
			ctx.NonTrivial(valFeatures(ctx, c.Type, c.Val))
			ctx.LabelIf(len(m.RecordNames) > 0, "record-types-registered")
			ctx.LabelIf(c.Recursion, "recursion-support")
			ctx.Label("omit:" + c.Omit)
			value := gen.Build(c.Type, c.Val).Interface()
			if hasYearZero(c.Val) {
				// Go's year 0 has no counterpart in the format: the marshaler may refuse the value, but whatever it
				// does emit without complaint must still be a valid stream / a document that decodes
				ctx.Label("a time in year 0 (refused, or valid events)")
				raw := ev.NewRecorder()
				o := ctx.Guard(func() { iterator.NewSession(nil, cfg).NewIterator(raw).Iterate(value) })
				if o.TimedOut {
					return fmt.Errorf("iterator: %v", o)
				}
				if o.Panic == nil {
					if idx, rerr := rulesAccept(raw.Events, cfg); idx >= 0 {
						return fmt.Errorf("the marshaler emitted, without complaint, event %d (%v) which the validator rejects: %v\ntype=%v", idx, raw.Events[idx], rerr, c.Type)
					}
				}
				for _, format := range []string{"cbe", "cte"} {
					doc, err, bad := marshalDoc(ctx, format, value, cfg)
					if bad != nil {
						return bad
					}
					if err != nil {
						continue
					}
					var derr error
					if format == "cbe" {
						_, derr = decodeCBE(doc, cfg)
					} else {
						_, derr = decodeCTE(doc, cfg)
					}
					if derr != nil {
						return fmt.Errorf("the %s document the marshaler produced without an error does not decode: %v\ndoc=%s\ntype=%v", format, derr, docdump(format, doc), c.Type)
					}
				}
				return nil
			}
			rec := ev.NewRecorder()
			rules := ce.NewRules(rec, cfg)
			o := ctx.Guard(func() {
				iterator.NewSession(nil, cfg).NewIterator(rules).Iterate(value)
			})
			if o.TimedOut {
				return fmt.Errorf("iterator: %v", o)
			}
			if o.Panic != nil {
				return fmt.Errorf("the validator rejected the marshaler's event %d (or the iterator failed): %v\nevents so far: %s\ntype=%v", len(rec.Events), o.Panic, ev.ListString(rec.Events), c.Type)
			}
			got, err := buildTree(rec.Events, canon.Opts{})
			if err != nil {
				return fmt.Errorf("marshaler events are not a well-formed document: %v\n%s", err, ev.ListString(rec.Events))
			}
			want := c.expectedDoc(m)
			if c.Recursion {
				// with recursion support the marshaler may share equal pointers through marker +
				// reference: the resolved tree must still describe exactly the value
				resolved, ok := canon.ResolveRefs(got, 64)
				if !ok {
					return fmt.Errorf("marker/reference expansion of an acyclic value does not terminate\nevents: %s", ev.ListString(rec.Events))
				}
				got = resolved
			}
			normalizeUnordered(want, got)
			if d := canon.Diff(want, got, canon.EqOpts{}); d != "" {
				return fmt.Errorf("events do not describe the value: %s\nevents: %s\ntype=%v", d, ev.ListString(rec.Events), c.Type)
			}
			// every document a marshaler produces decodes without error
			for _, format := range []string{"cbe", "cte"} {
				doc, err, bad := marshalDoc(ctx, format, value, cfg)
				if bad != nil {
					return bad
				}
				if err != nil {
					return fmt.Errorf("marshal (%s) failed: %v", format, err)
				}
				var derr error
				o := ctx.Guard(func() {
					if format == "cbe" {
						_, derr = decodeCBE(doc, cfg)
					} else {
						_, derr = decodeCTE(doc, cfg)
					}
				})
				if o.TimedOut || o.Panic != nil {
					return fmt.Errorf("decode (%s): %v", format, o)
				}
				if derr != nil {
					return fmt.Errorf("the %s document produced by the marshaler does not decode: %v\ndoc=%s\ntype=%v", format, derr, docdump(format, doc), c.Type)
				}
			}
			return nil
		},
	})
}

// hasZeroSizeElems: the type contains a slice whose elements occupy no memory (all such slices share
// one address).
func hasZeroSizeElems(s *gen.TypeSpec) bool {
	if s == nil {
		return false
	}
	if s.K == "slice" && s.Elem.Realize().Size() == 0 {
		return true
	}
	if hasZeroSizeElems(s.Elem) {
		return true
	}
	for _, f := range s.Fields {
		if hasZeroSizeElems(f.Type) {
			return true
		}
	}
	return false
}
