package props

import (
	"bytes"
	"fmt"
	"reflect"
	"runtime"
	"sync"
	"sync/atomic"

	"github.com/kstenerud/go-concise-encoding/builder"
	"github.com/kstenerud/go-concise-encoding/ce"
	"github.com/kstenerud/go-concise-encoding/configuration"
	"github.com/kstenerud/go-concise-encoding/iterator"
	"github.com/kstenerud/go-concise-encoding/rules"
	"pgregory.net/rapid"

	"verif/internal/ev"
	"verif/internal/gen"
)

// C17 — concurrent use of separate instances (and of sessions shared between them) is race-free and
// matches sequential use. The test binary is built with -race and run with GORACE=halt_on_error=1: a
// detected data race kills the shard while the case is in its journal, which the driver reports as a
// violation with that case as the replay. Independently, every result obtained concurrently is
// compared with the result of the same operation run alone afterwards (afterwards, so that the
// concurrent phase is the FIRST use of the case's fresh types and races on the lazily filled caches).

type C17Item struct {
	Type   *gen.TypeSpec `json:"type,omitempty"`
	Val    *gen.Val      `json:"val,omitempty"`
	Events []ev.Event    `json:"events,omitempty"` // event-level items (validate / encode / decode)
}

type C17Op struct {
	Kind string `json:"kind"` // m-cbe m-cte ms-cbe ms-cte mo-cbe mo-cte u-cbe u-cte us-cbe us-cte ev-cbe ev-cte
	Item int    `json:"item"`
}

type C17Case struct {
	Procs   int       `json:"procs"`
	Items   []C17Item `json:"items"`
	Workers [][]C17Op `json:"workers"`
	// Records: the struct types of the items are registered as record types (named per item), so that the
	// documents define record types and the goroutines are inside record type definitions at the same time
	Records bool `json:"records,omitempty"`
}

var c17Seq int64

// c17Freshen renames the first field of every struct in the type so that the type is new to the
// process (reflect.StructOf returns the same type for the same field list).
func c17Freshen(s *gen.TypeSpec, tag string, n *int) {
	if s == nil {
		return
	}
	if s.K == "struct" && s.Named == "" && len(s.Fields) > 0 {
		*n++
		s.Fields = append(s.Fields, gen.FieldSpec{Name: fmt.Sprintf("Uniq%s%d", tag, *n), Type: &gen.TypeSpec{K: "int8"}})
	}
	for i := range s.Fields {
		c17Freshen(s.Fields[i].Type, tag, n)
	}
	c17Freshen(s.Elem, tag, n)
	c17Freshen(s.Key, tag, n)
}

func c17AddUniqVals(s *gen.TypeSpec, v *gen.Val) {
	if s == nil || v == nil {
		return
	}
	switch s.K {
	case "struct":
		if s.Named == "" && len(s.Fields) > 0 && len(v.Elems) == len(s.Fields)-1 {
			v.Elems = append(v.Elems, &gen.Val{I: 1})
		}
		for i := range s.Fields {
			if i < len(v.Elems) {
				c17AddUniqVals(s.Fields[i].Type, v.Elems[i])
			}
		}
	case "slice", "array":
		for _, e := range v.Elems {
			c17AddUniqVals(s.Elem, e)
		}
	case "ptr":
		c17AddUniqVals(s.Elem, v.P)
	case "map":
		for i, e := range v.Elems {
			_ = i
			c17AddUniqVals(s.Elem, e)
		}
		for _, k := range v.Keys {
			c17AddUniqVals(s.Key, k)
		}
	}
}

func genC17(t *rapid.T, ctx *Ctx) interface{} {
	c := &C17Case{Procs: rapid.SampledFrom([]int{1, 2, 4, 16}).Draw(t, "procs")}
	seq := atomic.AddInt64(&c17Seq, 1)
	tag := fmt.Sprintf("S%dC%d", ctx.Shard, seq)
	o := valOpts(ctx)
	o.NodeEdge = false
	o.MaxTyped = 40
	o.BigPtrBias = true // values are shared between the workers: pointer-held big numbers are what an encoder could write to
	avoidVal(o, "S4-edge-iterator-no-end", "S47-platform-int-and-bool-arrays-unbuildable", "S48-null-into-map", "S28-fixed-zone-offset-lost")
	evOpts := gen.EvOpts{Comments: true, Padding: true, CustomBinary: true, Media: true, Markers: true, Records: true, Chunked: true, URLRID: true,
		MaxDepth: 3, MaxArr: 20, Budget: 10, NoEdge: true}
	avoid(ctx, &evOpts, "S59-marked-node-value", "S35-key-reference", "S34-reference-in-node")
	nItems := rapid.IntRange(1, 3).Draw(t, "nitems")
	for i := 0; i < nItems; i++ {
		if rapid.IntRange(0, 2).Draw(t, "evitem") == 0 {
			evOpts.MarkerHeavy = rapid.Bool().Draw(t, "evmarkers") // more markers, forward references among them
			doc := gen.Document(t, evOpts)
			if rapid.Bool().Draw(t, "evsplit") {
				// arrays delivered again with data events that end inside an element / a character: what an encoder
				// carries over from one data event to the next belongs to that encoder alone
				doc = gen.Rechunk(t, doc, true, true)
			}
			c.Items = append(c.Items, C17Item{Events: doc})
			continue
		}
		var it C17Item
		for {
			it.Type = gen.GenType(t, o, 0)
			if it.Type.K != "iface" {
				break
			}
		}
		it.Val = gen.GenVal(t, o, it.Type, 0)
		n := 0
		c17Freshen(it.Type, tag, &n)
		c17AddUniqVals(it.Type, it.Val)
		c.Items = append(c.Items, it)
	}
	c.Records = rapid.Bool().Draw(t, "records")
	workers := rapid.IntRange(2, 16).Draw(t, "workers")
	valKinds := []string{"m-cbe", "m-cte", "ms-cbe", "ms-cte", "ms-cbe", "ms-cte", "mo-cbe", "mo-cte", "u-cbe", "u-cte", "us-cbe", "us-cte", "us-cbe", "us-cte"}
	evKinds := []string{"ev-cbe", "ev-cte", "evo-cbe", "evo-cte", "evo-cbe", "evo-cte"}
	// most workers hammer the same item (same new type) so that first uses collide
	hot := rapid.IntRange(0, nItems-1).Draw(t, "hot")
	for w := 0; w < workers; w++ {
		var ops []C17Op
		for j, n := 0, rapid.IntRange(1, 3).Draw(t, "nops"); j < n; j++ {
			item := hot
			if rapid.IntRange(0, 3).Draw(t, "other") == 0 {
				item = rapid.IntRange(0, nItems-1).Draw(t, "item")
			}
			kinds := valKinds
			if c.Items[item].Events != nil {
				kinds = evKinds
			}
			ops = append(ops, C17Op{Kind: rapid.SampledFrom(kinds).Draw(t, "kind"), Item: item})
		}
		c.Workers = append(c.Workers, ops)
	}
	return c
}

type c17Env struct {
	cfg   *configuration.Configuration
	isess *iterator.Session
	bsess *builder.Session
	vals  []interface{}
	docs  map[string][]byte // pre-marshaled documents for the unmarshal operations: "<item>/<format>"
}

type c17Result struct {
	errNil bool
	errTxt string
	doc    []byte
	format string
}

func marshalWith(m func(v interface{}) ([]byte, error), v interface{}, format string) c17Result {
	d, err := m(v)
	r := c17Result{errNil: err == nil, doc: append([]byte{}, d...), format: format}
	if err != nil {
		r.errTxt = err.Error()
	}
	return r
}

// c17Worker: what one goroutine keeps between its operations - marshaler objects ("mo" kinds) and a decoder
// with its validator ("evo" kinds: the validator is Reset and used again, as an Unmarshaler does with its own).
type c17Worker struct {
	mo    map[string]ce.Marshaler
	dec   map[string]ce.Decoder
	rules map[string]*rules.RulesEventReceiver
	rec   map[string]*ev.Recorder
}

func newC17Worker() *c17Worker {
	return &c17Worker{mo: map[string]ce.Marshaler{}, dec: map[string]ce.Decoder{}, rules: map[string]*rules.RulesEventReceiver{}, rec: map[string]*ev.Recorder{}}
}

// c17Run executes one operation with private instances (and, for the *s- kinds, the shared sessions of env).
func c17Run(env *c17Env, c *C17Case, op C17Op, ws *c17Worker) (res c17Result) {
	mo := ws.mo
	defer func() {
		if p := recover(); p != nil {
			res = c17Result{errNil: false, errTxt: fmt.Sprintf("PANIC: %v", p)}
		}
	}()
	format := op.Kind[len(op.Kind)-3:]
	it := c.Items[op.Item]
	cfg := env.cfg
	switch op.Kind[:len(op.Kind)-4] {
	case "m":
		if format == "cbe" {
			return marshalWith(func(v interface{}) ([]byte, error) { return ce.MarshalToCBEDocument(v, cfg) }, env.vals[op.Item], format)
		}
		return marshalWith(func(v interface{}) ([]byte, error) { return ce.MarshalToCTEDocument(v, cfg) }, env.vals[op.Item], format)
	case "mo": // a marshaler object private to the worker, reused across its operations
		m := mo[format]
		if m == nil {
			if format == "cbe" {
				m = ce.NewCBEMarshaler(cfg)
			} else {
				m = ce.NewCTEMarshaler(cfg)
			}
			mo[format] = m
		}
		return marshalWith(m.MarshalToDocument, env.vals[op.Item], format)
	case "ms": // shared iterator session, private encoder
		return marshalWith(func(v interface{}) (d []byte, err error) {
			defer func() {
				if p := recover(); p != nil {
					err = fmt.Errorf("%v", p)
				}
			}()
			var buf bytes.Buffer
			var enc ce.Encoder
			if format == "cbe" {
				enc = ce.NewCBEEncoder(cfg)
			} else {
				enc = ce.NewCTEEncoder(cfg)
			}
			enc.PrepareToEncode(&buf)
			env.isess.NewIterator(enc).Iterate(v)
			return buf.Bytes(), nil
		}, env.vals[op.Item], format)
	case "u", "us":
		doc := env.docs[fmt.Sprintf("%d/%s", op.Item, format)]
		tmpl := reflect.Zero(it.Type.Realize()).Interface()
		var out interface{}
		var err error
		if op.Kind[:2] == "us" { // shared builder session, private decoder and validator
			func() {
				defer func() {
					if p := recover(); p != nil {
						err = fmt.Errorf("%v", p)
					}
				}()
				b := env.bsess.NewBuilderFor(tmpl)
				var d ce.Decoder
				if format == "cbe" {
					d = ce.NewCBEDecoder(cfg)
				} else {
					d = ce.NewCTEDecoder(cfg)
				}
				if err = d.DecodeDocument(append([]byte{}, doc...), ce.NewRules(b, cfg)); err == nil {
					out = b.GetBuiltObject()
				}
			}()
		} else if format == "cbe" {
			out, err = ce.UnmarshalFromCBEDocument(append([]byte{}, doc...), tmpl, cfg)
		} else {
			out, err = ce.UnmarshalFromCTEDocument(append([]byte{}, doc...), tmpl, cfg)
		}
		if err != nil {
			return c17Result{errNil: false, errTxt: err.Error()}
		}
		// reduce the value to a document (CTE) for comparison
		return marshalWith(func(v interface{}) ([]byte, error) { return ce.MarshalToCTEDocument(v, cfg) }, out, "cte")
	case "evo": // like "ev", but the decoding side is a decoder and a validator this goroutine keeps and uses again
		var d []byte
		var idx int
		var err error
		if format == "cbe" {
			d, idx, err = encodeCBE(it.Events, cfg)
		} else {
			d, idx, err = encodeCTE(it.Events, cfg)
		}
		if idx >= 0 {
			return c17Result{errNil: false, errTxt: fmt.Sprint(err)}
		}
		if ws.dec[format] == nil {
			if format == "cbe" {
				ws.dec[format] = ce.NewCBEDecoder(cfg)
			} else {
				ws.dec[format] = ce.NewCTEDecoder(cfg)
			}
			ws.rec[format] = ev.NewRecorder()
			ws.rules[format] = ce.NewRules(ws.rec[format], cfg)
		} else {
			ws.rules[format].Reset()
			ws.rec[format].Events = nil
		}
		if err = ws.dec[format].DecodeDocument(d, ws.rules[format]); err != nil {
			return c17Result{errNil: false, errTxt: err.Error()}
		}
		return c17Result{errNil: true, doc: []byte(ev.ListString(ws.rec[format].Events)), format: "events"}
	case "ev": // validate + encode, then decode + validate: separate encoder / decoder / validators
		var d []byte
		var idx int
		var err error
		if format == "cbe" {
			d, idx, err = encodeCBE(it.Events, cfg)
		} else {
			d, idx, err = encodeCTE(it.Events, cfg)
		}
		if idx >= 0 {
			return c17Result{errNil: false, errTxt: fmt.Sprint(err)}
		}
		var evs []ev.Event
		if format == "cbe" {
			evs, err = decodeCBE(d, cfg)
		} else {
			evs, err = decodeCTE(d, cfg)
		}
		if err != nil {
			return c17Result{errNil: false, errTxt: err.Error()}
		}
		return c17Result{errNil: true, doc: []byte(ev.ListString(evs)), format: "events"}
	}
	panic("harness: unknown op " + op.Kind)
}

func c17Same(a, b c17Result) bool {
	if a.errNil != b.errNil {
		return false
	}
	if !a.errNil {
		return true
	}
	if a.format == "events" {
		return bytes.Equal(a.doc, b.doc)
	}
	return c16SameDoc(a.format, a.doc, b.doc)
}

func init() {
	Register(&Prop{
		ID:  "C17",
		New: func() interface{} { return &C17Case{} },
		Gen: genC17,
		Check: func(ci interface{}, ctx *Ctx) error {
			c := ci.(*C17Case)
			prev := runtime.GOMAXPROCS(c.Procs)
			defer runtime.GOMAXPROCS(prev)
			cfg := newCfg()
			if c.Records {
				seen := map[reflect.Type]bool{}
				for i, it := range c.Items {
					var structs []*gen.TypeSpec
					findStructs(it.Type, &structs)
					for j, st := range structs {
						if rt := st.Realize(); !seen[rt] && j < 3 {
							seen[rt] = true
							cfg.Iterator.RecordTypes[rt] = fmt.Sprintf("rec%d_%d", i, j)
						}
					}
				}
				ctx.LabelIf(len(seen) > 0, "items with record types")
			}
			env := &c17Env{cfg: cfg, isess: iterator.NewSession(nil, cfg), bsess: builder.NewSession(nil, cfg), docs: map[string][]byte{}}
			for _, it := range c.Items {
				if it.Type != nil {
					env.vals = append(env.vals, gen.Build(it.Type, it.Val).Interface())
				} else {
					env.vals = append(env.vals, nil)
				}
			}
			// documents for the unmarshal operations (this warms the iterator side of those items only)
			sameItem := map[int]int{}
			for _, w := range c.Workers {
				for _, op := range w {
					sameItem[op.Item]++
					if op.Kind[0] == 'u' {
						format := op.Kind[len(op.Kind)-3:]
						key := fmt.Sprintf("%d/%s", op.Item, format)
						if _, ok := env.docs[key]; !ok {
							d, _, bad := marshalDoc(ctx, format, env.vals[op.Item], cfg)
							if bad != nil {
								ctx.Hung, ctx.Abandoned = false, true
								return nil
							}
							env.docs[key] = d
						}
					}
				}
			}
			contended := false
			for _, n := range sameItem {
				if n >= 2 {
					contended = true
				}
			}
			ctx.NonTrivial(len(c.Workers) >= 2 && contended)
			ctx.Label(fmt.Sprintf("GOMAXPROCS:%d", c.Procs))
			ctx.LabelIf(len(c.Workers) >= 8, ">= 8 goroutines")
			// ---- concurrent phase
			results := make([][]c17Result, len(c.Workers))
			start := make(chan struct{})
			var wg sync.WaitGroup
			for w := range c.Workers {
				wg.Add(1)
				go func(w int) {
					defer wg.Done()
					ws := newC17Worker()
					<-start
					for _, op := range c.Workers[w] {
						results[w] = append(results[w], c17Run(env, c, op, ws))
					}
				}(w)
			}
			o := ctx.Guard(func() { close(start); wg.Wait() })
			if o.TimedOut {
				return fmt.Errorf("the concurrent workload did not finish within the deadline (%d goroutines, GOMAXPROCS=%d)", len(c.Workers), c.Procs)
			}
			// ---- the same operations alone, on fresh private instances and fresh sessions
			for w := range c.Workers {
				ws := newC17Worker()
				for j, op := range c.Workers[w] {
					ctx.Label("op:" + op.Kind)
					alone := &c17Env{cfg: cfg, isess: iterator.NewSession(nil, cfg), bsess: builder.NewSession(nil, cfg), vals: env.vals, docs: env.docs}
					want := c17Run(alone, c, op, ws)
					got := results[w][j]
					if !c17Same(got, want) {
						return fmt.Errorf("goroutine %d, operation %d (%s on item %d): concurrently error=%q doc=%s; alone error=%q doc=%s",
							w, j, op.Kind, op.Item, got.errTxt, textdump(got.doc), want.errTxt, textdump(want.doc))
					}
					ctx.LabelIf(want.errNil, "operation succeeds")
				}
			}
			return nil
		},
	})
}
