package props

import (
	"encoding/json"
	"fmt"
	"os"
	"path/filepath"
	"sort"
	"strconv"
	"strings"
	"testing"
	"time"

	"pgregory.net/rapid"

	"verif/internal/harness"
)

// Ctx is handed to every Check: it collects labels / non-triviality for the evidence and carries the
// hang flag (a library call that overran its deadline: the process must stop after reporting).
type Ctx struct {
	Stats      *harness.Stats
	labels     []string
	nontrivial bool
	Hung       bool
	// Abandoned: a *reference* call (not the call under judgement) did not return; the shard stops
	// gracefully without a verdict on this case (another property owns that defect).
	Abandoned bool
	Tier      string
	Replaying bool
	Shard     int
	Shards    int
	Seed      int
}

func (c *Ctx) Label(l string) {
	for _, x := range c.labels {
		if x == l {
			return
		}
	}
	c.labels = append(c.labels, l)
}
func (c *Ctx) LabelIf(cond bool, l string) {
	if cond {
		c.Label(l)
	}
}
func (c *Ctx) NonTrivial(b bool) { c.nontrivial = c.nontrivial || b }
func (c *Ctx) Thorough() bool    { return c.Tier == "thorough" }

// Guard runs a library call with the default deadline and records a hang.
func (c *Ctx) Guard(f func()) harness.Outcome {
	o := harness.Guard(harness.DefaultDeadline, f)
	if o.TimedOut {
		c.Hung = true
	}
	return o
}

// Prop is one registered property check.
type Prop struct {
	ID    string
	Gen   func(t *rapid.T, ctx *Ctx) interface{} // draws a JSON-serialisable case
	New   func() interface{}                     // empty case for replay decoding
	Check func(c interface{}, ctx *Ctx) error    // the oracle; nil error = property held on this case
	// Fixed is an optional deterministic part (bounded-exhaustive enumeration, grids) run in every
	// shard (it partitions its space by ctx.Shard/ctx.Shards); it reports failures through report.
	Fixed func(ctx *Ctx, report func(c interface{}, err error))
	// FromBytes (optional) maps a raw fuzz input to a case, for the coverage-guided native fuzz target
	// FuzzProp (thorough tier only); nil result = input too short. FuzzSeeds are its starting corpus.
	FromBytes func(data []byte) interface{}
	FuzzSeeds func() [][]byte
}

var registry = map[string]*Prop{}

func Register(p *Prop) { registry[p.ID] = p }

type replayFile struct {
	Property string          `json:"property"`
	Error    string          `json:"error"`
	Kind     string          `json:"kind"` // "violation" | "hang" | "journal"
	Case     json.RawMessage `json:"case"`
}

func tier() string {
	if t := os.Getenv("VERIF_TIER"); t != "" {
		return t
	}
	return "quick"
}

func envInt(name string, def int) int {
	if v := os.Getenv(name); v != "" {
		if n, err := strconv.Atoi(v); err == nil {
			return n
		}
	}
	return def
}

func writeReplay(path string, prop string, kind string, caseJSON []byte, err error) {
	if path == "" {
		return
	}
	msg := ""
	if err != nil {
		msg = err.Error()
		if len(msg) > 4000 {
			msg = msg[:4000] + "..."
		}
	}
	b, _ := json.MarshalIndent(replayFile{Property: prop, Error: msg, Kind: kind, Case: caseJSON}, "", " ")
	_ = os.WriteFile(path, b, 0o644)
}

func safeCheck(p *Prop, c interface{}, ctx *Ctx) (err error) {
	defer func() {
		if r := recover(); r != nil {
			err = fmt.Errorf("panic escaped into the harness: %v", r)
		}
	}()
	return p.Check(c, ctx)
}

// TestProp is the single entry point the driver runs: VERIF_PROP selects the property.
func TestProp(t *testing.T) {
	id := os.Getenv("VERIF_PROP")
	p := registry[id]
	if p == nil {
		t.Skipf("VERIF_PROP=%q not registered", id)
	}
	out := os.Getenv("VERIF_OUT") // path prefix for stats / replay / journal of this shard
	shard := envInt("VERIF_SHARD", 0)
	stats := harness.NewStats(id)
	ctx := &Ctx{Stats: stats, Tier: tier(), Shard: shard, Shards: envInt("VERIF_SHARDS", 1), Seed: envInt("VERIF_SEED", 1)}
	var journal *os.File
	if out != "" {
		journal, _ = os.Create(out + ".journal")
	}
	finished := false
	finish := func() {
		if out != "" && !finished {
			finished = true
			_ = stats.Dump(out + ".stats")
			if journal != nil {
				journal.Close()
				os.Remove(out + ".journal")
			}
		}
	}
	defer finish()
	start := time.Now()
	failed := false
	runOne := func(c interface{}) (js []byte, err error) {
		js, jerr := json.Marshal(c)
		if jerr != nil {
			panic("harness: case not serialisable: " + jerr.Error())
		}
		if journal != nil {
			journal.Truncate(0)
			journal.WriteAt(js, 0)
		}
		ctx.labels = ctx.labels[:0]
		ctx.nontrivial = false
		err = safeCheck(p, c, ctx)
		stats.Case(js, ctx.nontrivial, ctx.labels)
		if ctx.Abandoned && !ctx.Hung {
			stats.Count("abandoned_reference_call_hung", 1)
			stats.Note("stopped early: a reference call did not return (not judged by this property)")
			fmt.Printf("ABANDONED property=%s shard=%d\n", id, shard)
			writeReplay(filepath.Join(harness.Root(), "replays", fmt.Sprintf("%s-abandoned-s%d.json", id, shard)), id, "abandoned", js, fmt.Errorf("reference call did not return"))
			finish()
			os.Exit(0)
		}
		if ctx.Hung {
			if err == nil {
				err = fmt.Errorf("library call did not return within the deadline")
			}
			writeReplay(out+".replay", id, "hang", js, err)
			fmt.Printf("HANG property=%s shard=%d: %v\n", id, shard, err)
			stats.Note("stopped after a hang")
			finish()
			os.Exit(3)
		}
		return js, err
	}
	if p.Fixed != nil {
		fixedStart := time.Now()
		p.Fixed(ctx, func(c interface{}, err error) {
			js, _ := json.Marshal(c)
			if !failed {
				writeReplay(out+".replay", id, "violation", js, err)
			}
			failed = true
			t.Errorf("fixed part: %v", err)
		})
		stats.Count("seconds_in_deterministic_part_all_shards", int64(time.Since(fixedStart).Seconds()))
		stats.Note(fmt.Sprintf("shard %d: deterministic part %.0f s", shard, time.Since(fixedStart).Seconds()))
	}
	if p.Gen != nil && !failed {
		// Stop gracefully ahead of the shard's time budget: rapid's own early exit keeps a margin of five
		// average iterations only, and one slow case (a guarded call being waited for on a loaded machine)
		// would run into the test deadline. Iterations past the margin are no-ops and are not counted.
		deadline, hasDeadline := t.Deadline()
		budgetNoted := false
		budgetMargin := 150 * time.Second
		if hasDeadline {
			if q := deadline.Sub(start) / 4; q < budgetMargin {
				budgetMargin = q
			}
		}
		rapid.Check(t, func(rt *rapid.T) {
			if hasDeadline && time.Until(deadline) < budgetMargin {
				if !budgetNoted {
					budgetNoted = true
					stats.Note("stopped generating at the time budget (inconclusive beyond the cases counted)")
					fmt.Printf("NOTE property=%s shard=%d stopped generating at its time budget\n", id, shard)
				}
				stats.Count("iterations_skipped_at_time_budget", 1)
				return
			}
			c := p.Gen(rt, ctx)
			js, err := runOne(c)
			if err != nil {
				failed = true
				writeReplay(out+".replay", id, "violation", js, err)
				rt.Fatalf("%v", err)
			}
		})
	}
	_ = start
}

// TestReplay re-runs one stored case (VERIF_REPLAY=<file>) through the same oracle, bypassing rapid.
func TestReplay(t *testing.T) {
	path := os.Getenv("VERIF_REPLAY")
	if path == "" {
		t.Skip("VERIF_REPLAY not set")
	}
	err, hung := replayOne(path)
	if hung {
		fmt.Printf("REPLAY-RESULT hang: %v\n", err)
		os.Exit(3)
	}
	if err != nil {
		fmt.Printf("REPLAY-RESULT violation: %v\n", err)
		t.Fatalf("%v", err)
	}
	fmt.Println("REPLAY-RESULT pass")
}

func replayOne(path string) (err error, hung bool) {
	b, rerr := os.ReadFile(path)
	if rerr != nil {
		return rerr, false
	}
	var rf replayFile
	if jerr := json.Unmarshal(b, &rf); jerr != nil {
		return jerr, false
	}
	p := registry[rf.Property]
	if p == nil {
		return fmt.Errorf("property %q not registered", rf.Property), false
	}
	c := p.New()
	if jerr := json.Unmarshal(rf.Case, c); jerr != nil {
		return fmt.Errorf("case does not decode: %v", jerr), false
	}
	ctx := &Ctx{Stats: harness.NewStats(rf.Property), Tier: tier(), Replaying: true}
	err = safeCheck(p, c, ctx)
	if ctx.Hung && err == nil {
		err = fmt.Errorf("library call did not return within the deadline")
	}
	return err, ctx.Hung
}

// TestFindings replays every open known finding of VERIF_PROP and every regression input under
// corpus/regress/<id>/. Output lines are interpreted by the driver:
//
//	KNOWN-FINDING: property=<id> key=<key> <what>     (still failing, as recorded)
//	FINDING-NOT-REPRODUCED property=<id> key=<key>     (informational)
//	REGRESSION-FAIL property=<id> file=<path> <error>  (a saved regression input fails: violation)
func TestFindings(t *testing.T) {
	id := os.Getenv("VERIF_PROP")
	if registry[id] == nil {
		t.Skipf("VERIF_PROP=%q not registered", id)
	}
	harness.DefaultDeadline = 3 * time.Second
	for _, f := range harness.OpenFor(id) {
		if f.Replay == "" {
			fmt.Printf("KNOWN-FINDING: property=%s key=%s %s\n", id, f.Key, f.What)
			continue
		}
		err, _ := replayOne(filepath.Join(harness.Root(), f.Replay))
		if err != nil {
			fmt.Printf("KNOWN-FINDING: property=%s key=%s %s\n", id, f.Key, f.What)
		} else {
			fmt.Printf("FINDING-NOT-REPRODUCED property=%s key=%s\n", id, f.Key)
		}
	}
	dir := filepath.Join(harness.Root(), "corpus", "regress", id)
	ents, _ := os.ReadDir(dir)
	var names []string
	for _, e := range ents {
		if strings.HasSuffix(e.Name(), ".json") {
			names = append(names, e.Name())
		}
	}
	sort.Strings(names)
	for _, n := range names {
		path := filepath.Join(dir, n)
		err, _ := replayOne(path)
		if err != nil {
			msg := strings.ReplaceAll(err.Error(), "\n", " | ")
			if len(msg) > 300 {
				msg = msg[:300]
			}
			fmt.Printf("REGRESSION-FAIL property=%s file=%s %s\n", id, path, msg)
		} else {
			fmt.Printf("REGRESSION-OK property=%s file=%s\n", id, path)
		}
	}
	os.Stdout.Sync()
	os.Exit(0) // goroutines of reproduced hangs may still be spinning
}

// FuzzProp is the coverage-guided (native go test -fuzz) entry point of the properties that define
// FromBytes: the fuzzer mutates raw bytes, FromBytes turns them into a case, and the property's own
// oracle judges it. A failing case is written as a JSON replay (VERIF_OUT.replay), like in TestProp.
func FuzzProp(f *testing.F) {
	id := os.Getenv("VERIF_PROP")
	p := registry[id]
	if p == nil || (p.FromBytes == nil && p.Gen == nil) {
		f.Skip("no native fuzz target for VERIF_PROP=" + id)
	}
	if p.FromBytes == nil {
		fuzzThroughGenerator(f, id, p)
		return
	}
	if p.FuzzSeeds != nil {
		for _, s := range p.FuzzSeeds() {
			f.Add(s)
		}
	}
	out := os.Getenv("VERIF_OUT")
	ctx := &Ctx{Stats: harness.NewStats(id), Tier: "thorough", Shards: 1, Seed: envInt("VERIF_SEED", 1)}
	f.Fuzz(func(t *testing.T, data []byte) {
		c := p.FromBytes(data)
		if c == nil {
			return
		}
		ctx.labels = ctx.labels[:0]
		ctx.nontrivial, ctx.Hung, ctx.Abandoned = false, false, false
		err := safeCheck(p, c, ctx)
		if ctx.Abandoned && !ctx.Hung {
			return
		}
		if ctx.Hung && err == nil {
			err = fmt.Errorf("library call did not return within the deadline")
		}
		if err != nil {
			js, _ := json.Marshal(c)
			kind := "violation"
			if ctx.Hung {
				kind = "hang"
			}
			if out != "" {
				writeReplay(out+".replay", id, kind, js, err)
			}
			t.Fatalf("%v", err)
		}
	})
}

// fuzzThroughGenerator is the coverage-guided entry point of the properties that have no byte-level
// form: the fuzzer's bytes become the random bit stream of the property's own rapid generator
// (rapid.MakeFuzz), so every structural precondition and every known-finding exclusion of the
// generator stays in force while coverage feedback steers the draws.
func fuzzThroughGenerator(f *testing.F, id string, p *Prop) {
	out := os.Getenv("VERIF_OUT")
	ctx := &Ctx{Stats: harness.NewStats(id), Tier: "thorough", Shards: 1, Seed: envInt("VERIF_SEED", 1)}
	for i := 0; i < 8; i++ {
		seed := make([]byte, 256)
		for j := range seed {
			seed[j] = byte((i*131 + j*29 + 7) % 251)
		}
		f.Add(seed)
	}
	f.Fuzz(rapid.MakeFuzz(func(rt *rapid.T) {
		c := p.Gen(rt, ctx)
		ctx.labels = ctx.labels[:0]
		ctx.nontrivial, ctx.Hung, ctx.Abandoned = false, false, false
		err := safeCheck(p, c, ctx)
		if ctx.Abandoned && !ctx.Hung {
			return
		}
		if ctx.Hung && err == nil {
			err = fmt.Errorf("library call did not return within the deadline")
		}
		if err != nil {
			js, _ := json.Marshal(c)
			kind := "violation"
			if ctx.Hung {
				kind = "hang"
			}
			if out != "" {
				if _, serr := os.Stat(out + ".replay"); serr != nil { // keep the first one (the fuzzer goes on to minimise)
					writeReplay(out+".replay", id, kind, js, err)
				}
			}
			rt.Fatalf("%v", err)
		}
	}))
}
