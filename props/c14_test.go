package props

import (
	"fmt"
	"strings"

	"github.com/kstenerud/go-concise-encoding/ce"
	"github.com/kstenerud/go-concise-encoding/ce/events"
	"github.com/kstenerud/go-concise-encoding/configuration"
	"pgregory.net/rapid"

	"verif/internal/ev"
	"verif/internal/gen"
)

// C14 — configured resource limits are enforced exactly. Oracle M-METER: usage measured from the event
// list (and the encoded length); limit = usage-1 must reject, usage and usage+1 must accept.

type C14Case struct {
	Limit  string     `json:"limit"`           // depth | objects | array | identifier | markers | docsize
	Delta  int        `json:"delta"`           // -1, 0, +1
	Block  int        `json:"block,omitempty"` // stream vias: bytes granted per Read call (0 = as asked)
	Via    string     `json:"via"`             // rules | cbe | cte | cbe-stream | cte-stream (Decode from an io.Reader instead of DecodeDocument)
	Events []ev.Event `json:"events"`
}

type usage struct {
	depth, objects, array, identifier, markers uint64
}

func c14Meter(evs []ev.Event) usage {
	var u usage
	depth := uint64(0)
	var arr uint64
	var arrBits uint64
	inArr := false
	endArr := func() {
		if arr > u.array {
			u.array = arr
		}
		inArr = false
	}
	for i := range evs {
		e := &evs[i]
		switch e.K {
		case ev.List, ev.Map, ev.Record, ev.Node, ev.Edge, ev.RecordType:
			depth++
			if depth > u.depth {
				u.depth = depth
			}
		case ev.End:
			depth--
		}
		switch e.K {
		case ev.Marker:
			u.markers++
		}
		switch e.K {
		case ev.Marker, ev.RefLocal, ev.RecordType, ev.Record:
			if uint64(len(e.Bs)) > u.identifier {
				u.identifier = uint64(len(e.Bs))
			}
		}
		switch e.K {
		case ev.Null, ev.Boolean, ev.True, ev.False, ev.PInt, ev.NInt, ev.Int, ev.BigInt, ev.Float, ev.BigFloat, ev.DFloat, ev.BigDFloat,
			ev.UID, ev.Nan, ev.Time, ev.List, ev.Map, ev.Record, ev.Edge, ev.Node, ev.Array, ev.StringArray, ev.Media, ev.CustomBinary,
			ev.CustomText, ev.ArrayBegin, ev.MediaBegin, ev.CustomBegin:
			u.objects++
		}
		if inArr && e.K != ev.ArrayChunk && e.K != ev.ArrayData {
			endArr()
		}
		switch e.K {
		case ev.Array:
			if uint64(len(e.Bs)) > u.array {
				u.array = uint64(len(e.Bs))
			}
		case ev.StringArray, ev.CustomText:
			if uint64(len(e.S)) > u.array {
				u.array = uint64(len(e.S))
			}
		case ev.CustomBinary:
			if uint64(len(e.Bs)) > u.array {
				u.array = uint64(len(e.Bs))
			}
		case ev.ArrayBegin:
			inArr, arr = true, 0
			arrBits = uint64(e.AT.ElementSize())
		case ev.CustomBegin:
			inArr, arr, arrBits = true, 0, 8
		case ev.ArrayChunk:
			if inArr {
				arr += bytesFor(arrBits, e.U)
				if !e.B && e.U == 0 {
					endArr()
				}
			}
		case ev.ArrayData:
		default:
			if inArr {
				endArr()
			}
		}
	}
	return u
}

func c14Opts(ctx *Ctx, limit string) gen.EvOpts {
	// NaNForms: a NaN delivered as a float / decimal float / big decimal event is one object like any other
	o := gen.EvOpts{Chunked: true, MidCharSplit: true, NaNForms: true, MaxDepth: 5, MaxArr: 40, Budget: 25, TopContainer: limit == "depth"}
	switch limit {
	case "objects":
		o.CustomBinary = true
	case "array":
		o.CustomBinary, o.Comments, o.Padding, o.Markers, o.Records, o.RemoteRef = true, true, true, true, true, true
	case "depth":
		o.Comments, o.Padding, o.Markers, o.Records, o.Media = true, true, true, true, true
	case "identifier", "markers":
		o.Markers, o.MarkerHeavy, o.Records, o.Media, o.Comments = true, true, limit == "identifier", true, true
	case "docsize":
		o.Comments, o.Padding, o.Markers, o.Records, o.Media, o.CustomBinary, o.RemoteRef = true, true, true, true, true, true, true
	}
	avoid(ctx, &o)
	return o
}

func setLimit(cfg *configuration.Configuration, limit string, v uint64) {
	switch limit {
	case "depth":
		cfg.Rules.MaxContainerDepth = v
	case "objects":
		cfg.Rules.MaxObjectCount = v
	case "array":
		cfg.Rules.MaxArraySizeBytes = v
	case "identifier":
		cfg.Rules.MaxIdentifierLength = v
	case "markers":
		cfg.Rules.MaxMarkerCount = v
	case "docsize":
		cfg.Rules.MaxDocumentSizeBytes = v
	}
}

func init() {
	limits := []string{"depth", "objects", "array", "identifier", "markers", "docsize"}
	Register(&Prop{
		ID:  "C14",
		New: func() interface{} { return &C14Case{} },
		Gen: func(t *rapid.T, ctx *Ctx) interface{} {
			// the array-size meter is representation dependent for bit-array chunks that end inside a
			// byte (2 chunks of 3 + 1 bits are 2 bytes of chunk data, but 1 byte once a text codec has
			// re-packed them): keep bit chunks byte aligned here
			gen.UnalignedBitChunks = false
			c := &C14Case{}
			c.Limit = limits[rapid.IntRange(0, len(limits)-1).Draw(t, "limit")]
			c.Delta = rapid.IntRange(-1, 1).Draw(t, "delta")
			vias := []string{"rules", "cbe", "cte", "cbe-stream", "cte-stream"}
			if c.Limit == "docsize" {
				vias = vias[1:]
			}
			c.Via = vias[rapid.IntRange(0, len(vias)-1).Draw(t, "via")]
			c.Events = gen.Document(t, c14Opts(ctx, c.Limit))
			if strings.HasSuffix(c.Via, "-stream") {
				// a reader that returns short reads: what counts is what arrived, not what was asked for
				c.Block = rapid.SampledFrom([]int{0, 1, 2, 3, 5, 7, 16}).Draw(t, "block")
			}
			return c
		},
		Check: func(ci interface{}, ctx *Ctx) error {
			c := ci.(*C14Case)
			def := newCfg()
			if idx, err := rulesAccept(c.Events, def); idx >= 0 {
				return genInvalid(ctx, idx, err, c.Events)
			}
			u := c14Meter(c.Events)
			var doc []byte
			switch c.Via {
			case "cbe", "cbe-stream":
				d, idx, err := encodeCBE(c.Events, def)
				if idx >= 0 {
					return fmt.Errorf("CBE encoder failed at event %d: %v", idx, err)
				}
				doc = d
			case "cte", "cte-stream":
				d, idx, err := encodeCTE(c.Events, def)
				if idx >= 0 {
					return fmt.Errorf("CTE encoder failed at event %d: %v", idx, err)
				}
				doc = d
			}
			var use uint64
			switch c.Limit {
			case "depth":
				use = u.depth
			case "objects":
				use = u.objects
			case "array":
				use = u.array
			case "identifier":
				use = u.identifier
			case "markers":
				use = u.markers
			case "docsize":
				use = uint64(len(doc))
			}
			ctx.Label("limit:" + c.Limit)
			ctx.Label("via:" + c.Via)
			ctx.LabelIf(c.Block > 0, "short reads")
			ctx.Label(fmt.Sprintf("delta:%d", c.Delta))
			if use < 2 {
				ctx.Label("usage<2-skipped")
				return nil
			}
			ctx.NonTrivial(true)
			features(ctx, c.Events)
			cfg := newCfg()
			lim := uint64(int64(use) + int64(c.Delta))
			setLimit(cfg, c.Limit, lim)
			var err error
			var idx int
			switch c.Via {
			case "rules":
				idx, err = ev.Play(c.Events, ce.NewRules(nil, cfg))
				if idx < 0 {
					err = nil
				}
			case "cbe":
				_, err = decodeCBE(doc, cfg)
			case "cte":
				o := ctx.Guard(func() { _, err = decodeCTE(doc, cfg) })
				if o.TimedOut || o.Panic != nil {
					return fmt.Errorf("CTE decoder: %v", o)
				}
			case "cbe-stream", "cte-stream":
				o := ctx.Guard(func() {
					var d ce.Decoder
					if c.Via == "cbe-stream" {
						d = ce.NewCBEDecoder(cfg)
					} else {
						d = ce.NewCTEDecoder(cfg)
					}
					err = d.Decode(&faultReader{data: doc, block: c.Block, failAt: -1}, ce.NewRules(ev.NewRecorder(), cfg))
				})
				if o.TimedOut || o.Panic != nil {
					return fmt.Errorf("%s decoder: %v", c.Via, o)
				}
			}
			if c.Delta < 0 && err == nil {
				return fmt.Errorf("%s usage is %d but the document was accepted with the maximum set to %d (via %s)\n%s", c.Limit, use, lim, c.Via, ev.ListString(c.Events))
			}
			if c.Delta >= 0 && err != nil {
				return fmt.Errorf("%s usage is %d, within the maximum %d, but the document was rejected (via %s): %v\n%s", c.Limit, use, lim, c.Via, err, ev.ListString(c.Events))
			}
			return nil
		},
	})
}

var _ = events.ArrayTypeBit
