package props

import (
	"fmt"
	"io"
	"math"

	"github.com/kstenerud/go-concise-encoding/ce"
	"pgregory.net/rapid"

	"verif/internal/ev"
	"verif/internal/gen"
	"verif/internal/harness"
)

// C28 — stream decoding does not depend on how the reader delivers bytes: decoding / unmarshaling from
// an io.Reader gives the same outcome as decoding the same bytes from memory, for one-byte reads, short
// reads, reads that return nothing, and a final read that returns data together with io.EOF.
//
// Oracle: differential against the in-memory entry point of the same family (same error nil-ness; on
// success a structurally equal value / a strictly equal event list).

type C28Case struct {
	Doc    []byte `json:"doc"`
	Format string `json:"format"` // cbe | cte (what the document was built as; mutated documents keep the label)
	Entry  string `json:"entry"`  // unmarshal | unmarshal-ce | decode | decode-ce
	Tmpl   string `json:"template"`
	// Sched is the cyclic list of read sizes the reader grants: 0 = a read that returns (0, nil),
	// -1 = as much as the caller asks for.
	Sched       []int  `json:"sched"`
	EOFWithData bool   `json:"eof_with_data"`
	Note        string `json:"note,omitempty"`
	// MaxDoc: Rules.MaxDocumentSizeBytes for both sides (0 = default 5 GB): the size accounting must
	// not depend on how the bytes arrive either
	// negative: the huge settings someone writes for "no limit" (-1 = 2^64-1, -2 = 2^63, -3 = 2^63-1)
	MaxDoc int `json:"max_doc,omitempty"`
	// TrailingZeroReads: reads that return (0, nil) after the last data byte, before the reader reports io.EOF
	TrailingZeroReads int `json:"trailing_zero_reads,omitempty"`
}

// schedReader delivers data according to a cyclic schedule of read sizes.
type schedReader struct {
	data         []byte
	pos          int
	sched        []int
	i            int
	eofWithData  bool
	trailingZero int
	// statistics
	reads, shortReads, zeroReads int
	dataWithEOF                  bool
}

func (r *schedReader) Read(p []byte) (int, error) {
	r.reads++
	if r.pos >= len(r.data) {
		if r.trailingZero > 0 && !r.dataWithEOF && len(p) > 0 {
			r.trailingZero--
			r.zeroReads++
			return 0, nil
		}
		return 0, io.EOF
	}
	if len(p) == 0 {
		return 0, nil
	}
	s := -1
	if len(r.sched) > 0 {
		s = r.sched[r.i%len(r.sched)]
		r.i++
	}
	if s == 0 {
		r.zeroReads++
		return 0, nil
	}
	n := len(p)
	if s > 0 && s < n {
		n = s
	}
	if rem := len(r.data) - r.pos; n > rem {
		n = rem
	}
	if n < len(p) {
		r.shortReads++
	}
	copy(p, r.data[r.pos:r.pos+n])
	r.pos += n
	if r.pos == len(r.data) && r.eofWithData {
		r.dataWithEOF = true
		return n, io.EOF
	}
	return n, nil
}

func genSched(t *rapid.T) []int {
	switch rapid.IntRange(0, 6).Draw(t, "sched.kind") {
	case 0:
		return []int{1}
	case 1:
		return []int{-1}
	case 2: // one-byte reads with zero-length reads interleaved (never more than two in a row)
		return []int{1, 0, 1, 1, 0, 0, 1}
	case 3: // small random sizes
		n := rapid.IntRange(1, 8).Draw(t, "sched.n")
		s := make([]int, n)
		for i := range s {
			s[i] = rapid.IntRange(1, 9).Draw(t, "sched.size")
		}
		return s
	case 4: // random sizes with zeros; a zero is always followed by a non-zero size
		n := rapid.IntRange(2, 8).Draw(t, "sched.n")
		s := make([]int, 0, n)
		for len(s) < n {
			v := rapid.IntRange(0, 5).Draw(t, "sched.size0")
			if v == 0 && (len(s) == 0 || s[len(s)-1] == 0) {
				v = 1 + rapid.IntRange(0, 3).Draw(t, "sched.fix")
			}
			s = append(s, v)
		}
		if s[len(s)-1] == 0 {
			s[len(s)-1] = 2
		}
		return s
	case 5: // large blocks (cross the 4096-byte bufio boundary of the universal entry points)
		return []int{rapid.SampledFrom([]int{16, 100, 127, 128, 1000, 4095, 4096, 4097, 5000}).Draw(t, "sched.block")}
	default: // first read tiny, then everything
		return []int{rapid.IntRange(1, 3).Draw(t, "sched.first"), -1, -1, -1, -1, -1, -1, -1, -1, -1, -1, -1, -1, -1, -1, -1, -1, -1, -1, -1, -1, -1, -1, -1}
	}
}

func genC28(t *rapid.T, ctx *Ctx) interface{} {
	c := &C28Case{
		Entry: rapid.SampledFrom([]string{"unmarshal", "unmarshal", "unmarshal-ce", "decode", "decode", "decode-ce"}).Draw(t, "entry"),
		Tmpl:  rapid.SampledFrom([]string{"nil", "nil", "nil", "list", "map"}).Draw(t, "template"),
	}
	cfg := newCfg()
	o := gen.EvOpts{Comments: true, Padding: true, CustomBinary: true, Media: true, Markers: true, Records: true, Chunked: true, URLRID: true,
		MaxDepth: 3, MaxArr: 40, Budget: 14, NoEdge: true}
	if rapid.IntRange(0, 7).Draw(t, "bigarrays") == 0 {
		o.MaxArr = 6000
		if ctx.Thorough() {
			o.MaxArr = 20000
		}
	}
	avoid(ctx, &o, "S59-marked-node-value", "S35-key-reference", "S34-reference-in-node")
	o.NoBitArray, o.NoUIDArray = true, true
	evs := gen.Document(t, o)
	c.Format = rapid.SampledFrom([]string{"cbe", "cbe", "cte"}).Draw(t, "format")
	var doc []byte
	var idx int
	if c.Format == "cbe" {
		doc, idx, _ = encodeCBE(evs, cfg)
	} else {
		doc, idx, _ = encodeCTE(evs, cfg)
	}
	if idx >= 0 || len(doc) < 2 {
		doc, c.Format = []byte("c0\n[1 2 3]"), "cte"
	}
	// invalid documents: one light mutation (the comparison is differential, so any bytes are in the domain)
	switch rapid.IntRange(0, 5).Draw(t, "mutate") {
	case 0:
		if len(doc) > 3 {
			doc = doc[:rapid.IntRange(2, len(doc)-1).Draw(t, "cut")]
			c.Note = "truncated"
		}
	case 1:
		if len(doc) > 3 {
			i := rapid.IntRange(2, len(doc)-1).Draw(t, "pos")
			doc[i] ^= byte(1 << uint(rapid.IntRange(0, 7).Draw(t, "bit")))
			c.Note = "bitflip"
		}
	}
	c.Doc = doc
	c.Sched = genSched(t)
	c.EOFWithData = rapid.Bool().Draw(t, "eofWithData")
	switch rapid.IntRange(0, 5).Draw(t, "maxdoc") {
	case 0:
		c.MaxDoc = len(doc)
	case 1:
		c.MaxDoc = len(doc) + rapid.IntRange(-2, 3).Draw(t, "maxdoc.delta")
	case 2:
		c.MaxDoc = len(doc) * 2
	}
	if c.MaxDoc < 0 {
		c.MaxDoc = 0
	}
	if rapid.IntRange(0, 9).Draw(t, "maxdoc.huge") == 0 {
		c.MaxDoc = -rapid.IntRange(1, 3).Draw(t, "maxdoc.which")
	}
	if rapid.IntRange(0, 3).Draw(t, "trailingZero") == 0 {
		c.TrailingZeroReads = rapid.IntRange(1, 2).Draw(t, "trailingZero.n")
	}
	return c
}

func init() {
	Register(&Prop{
		ID:  "C28",
		New: func() interface{} { return &C28Case{} },
		Gen: genC28,
		FromBytes: func(data []byte) interface{} {
			if len(data) < 8 {
				return nil
			}
			entries := []string{"unmarshal", "unmarshal-ce", "decode", "decode-ce"}
			c := &C28Case{Entry: entries[int(data[0])%4], Tmpl: []string{"nil", "list", "map"}[int(data[1])%3], EOFWithData: data[2]&1 == 1, Note: "native-fuzz"}
			for _, b := range data[3:7] {
				c.Sched = append(c.Sched, int(b%9))
			}
			if c.Sched[0] == 0 && c.Sched[1] == 0 && c.Sched[2] == 0 && c.Sched[3] == 0 {
				c.Sched[3] = 1
			}
			for i := 1; i < len(c.Sched); i++ { // never more than two zero-length reads in a row (cyclically)
				if c.Sched[i] == 0 && c.Sched[i-1] == 0 {
					c.Sched[i] = 1
				}
			}
			if c.Sched[0] == 0 && c.Sched[3] == 0 {
				c.Sched[3] = 2
			}
			c.Doc = append([]byte{}, data[7:]...)
			c.Format = "cbe"
			if len(c.Doc) > 0 && (c.Doc[0] == 'c' || c.Doc[0] == 'C') {
				c.Format = "cte"
			}
			return c
		},
		FuzzSeeds: func() [][]byte { return fuzzSeedDocs(7) },
		Check: func(ci interface{}, ctx *Ctx) error {
			c := ci.(*C28Case)
			cfg := newCfg()
			if c.MaxDoc > 0 {
				cfg.Rules.MaxDocumentSizeBytes = uint64(c.MaxDoc)
				ctx.Label("small MaxDocumentSizeBytes")
			} else if c.MaxDoc < 0 {
				cfg.Rules.MaxDocumentSizeBytes = map[int]uint64{-1: math.MaxUint64, -2: 1 << 63, -3: 1<<63 - 1}[c.MaxDoc]
				ctx.Label("huge MaxDocumentSizeBytes (2^63-1 .. 2^64-1)")
			}
			ctx.LabelIf(c.TrailingZeroReads > 0, "empty reads between the last byte and EOF")
			tmpl := c27Template(c.Tmpl)
			doc := func() []byte { return append([]byte{}, c.Doc...) }
			universal := c.Entry == "unmarshal-ce" || c.Entry == "decode-ce"
			ctx.Label("entry:" + c.Entry)
			ctx.Label("format:" + c.Format)
			ctx.LabelIf(c.Note != "", "doc:"+c.Note)
			ctx.LabelIf(len(c.Doc) > 4200, "doc>4200B")

			if findingOpen(s75) && !ctx.Replaying && hugeHexExponent(c.Doc) {
				ctx.Stats.Exclude(s75)
				return nil
			}
			// ---- reference: the same bytes from memory
			var mres interface{}
			var merr error
			var mevs []ev.Event
			isUnmarshal := c.Entry == "unmarshal" || c.Entry == "unmarshal-ce"
			ro := harness.Guard(harness.DefaultDeadline, func() {
				switch {
				case isUnmarshal && universal:
					mres, merr = ce.UnmarshalFromCEDocument(doc(), tmpl, cfg)
				case isUnmarshal && c.Format == "cbe":
					mres, merr = ce.UnmarshalFromCBEDocument(doc(), tmpl, cfg)
				case isUnmarshal:
					mres, merr = ce.UnmarshalFromCTEDocument(doc(), tmpl, cfg)
				default:
					rec := ev.NewRecorder()
					var d ce.Decoder
					switch {
					case universal:
						d = ce.NewCEDecoder(cfg)
					case c.Format == "cbe":
						d = ce.NewCBEDecoder(cfg)
					default:
						d = ce.NewCTEDecoder(cfg)
					}
					merr = d.DecodeDocument(doc(), ce.NewRules(rec, cfg))
					mevs = rec.Events
				}
			})
			if ro.TimedOut {
				ctx.Abandoned = true // a hang on in-memory input is C07's business
				return nil
			}
			if ro.Panic != nil {
				// an escaping panic from the in-memory entry point is C07's business; no differential verdict
				ctx.Stats.Count("reference_panicked", 1)
				return nil
			}
			ctx.LabelIf(merr == nil, "memory-accepts")
			ctx.LabelIf(merr != nil, "memory-rejects")

			// ---- the same bytes through the scheduled reader
			rd := &schedReader{data: doc(), sched: c.Sched, eofWithData: c.EOFWithData, trailingZero: c.TrailingZeroReads}
			var sres interface{}
			var serr error
			var sevs []ev.Event
			o := ctx.Guard(func() {
				switch {
				case isUnmarshal && universal:
					sres, serr = ce.UnmarshalCE(rd, tmpl, cfg)
				case isUnmarshal && c.Format == "cbe":
					sres, serr = ce.UnmarshalCBE(rd, tmpl, cfg)
				case isUnmarshal:
					sres, serr = ce.UnmarshalCTE(rd, tmpl, cfg)
				default:
					rec := ev.NewRecorder()
					var d ce.Decoder
					switch {
					case universal:
						d = ce.NewCEDecoder(cfg)
					case c.Format == "cbe":
						d = ce.NewCBEDecoder(cfg)
					default:
						d = ce.NewCTEDecoder(cfg)
					}
					serr = d.Decode(rd, ce.NewRules(rec, cfg))
					sevs = rec.Events
				}
			})
			ctx.LabelIf(rd.dataWithEOF, "data+EOF delivered")
			ctx.LabelIf(rd.zeroReads > 0, "zero-length reads")
			ctx.LabelIf(rd.shortReads > 0, "short reads")
			ctx.LabelIf(len(c.Sched) == 1 && c.Sched[0] == 1, "one byte per read")
			ctx.NonTrivial(len(c.Doc) >= 4 && (rd.shortReads > 0 || rd.zeroReads > 0 || rd.dataWithEOF))
			desc := fmt.Sprintf("entry=%s format=%s template=%s sched=%v eofWithData=%v (reads=%d short=%d zero=%d)\ndoc=%s",
				c.Entry, c.Format, c.Tmpl, c.Sched, c.EOFWithData, rd.reads, rd.shortReads, rd.zeroReads, docdump(c.Format, c.Doc))
			if o.TimedOut || o.Panic != nil {
				return fmt.Errorf("stream entry point: %v\n%s", o, desc)
			}
			if (serr == nil) != (merr == nil) {
				return fmt.Errorf("from the reader: error=%v; from memory: error=%v\n%s", serr, merr, desc)
			}
			if merr != nil {
				return nil
			}
			if isUnmarshal {
				if !sameValue(sres, mres) {
					return fmt.Errorf("the value unmarshaled from the reader differs from the value unmarshaled from memory\n%s", desc)
				}
			} else if !eventsEqual(sevs, mevs) {
				return fmt.Errorf("the events decoded from the reader differ from the events decoded from memory\nreader: %s\nmemory: %s\n%s",
					ev.ListString(sevs), ev.ListString(mevs), desc)
			}
			return nil
		},
	})
}
