package props

import (
	"bytes"
	"fmt"
	"io"
	"reflect"
	"sort"
	"strings"
	"testing/iotest"

	"github.com/kstenerud/go-concise-encoding/ce"
	"github.com/kstenerud/go-concise-encoding/ce/events"
	"github.com/kstenerud/go-concise-encoding/configuration"
	"pgregory.net/rapid"

	"verif/internal/canon"
	"verif/internal/ev"
	"verif/internal/gen"
)

// C16 — reused instances behave like fresh ones. Model-based: a generated history of operations is
// applied to ONE instance (marshaler, unmarshaler, encoder, decoder or validator) and, step by step, to
// a fresh instance created with the same configuration; after every step the two must agree on error
// nil-ness and on the output / result, and the reused call must return within the deadline.

type C16Op struct {
	// what is fed to the instance
	Type    *gen.TypeSpec `json:"type,omitempty"`    // marshalers: a G-VAL value ...
	Val     *gen.Val      `json:"val,omitempty"`     //
	Special string        `json:"special,omitempty"` // ... or a named special value (unsupported kinds, see c07Values)
	Events  []ev.Event    `json:"events,omitempty"`  // everything else: a rules-valid stream (the document source)
	Mut     string        `json:"mut,omitempty"`     // none | truncate | flip | drop-event | extra-end | prefix
	Pos     int           `json:"pos,omitempty"`     // position parameter of the mutation
	Tmpl    string        `json:"template,omitempty"`
	Stream  bool          `json:"stream,omitempty"` // decoders / unmarshalers: io.Reader entry point instead of the document one
	// Plain: marshalers (with Stream) and encoders write to a plain io.Writer (Write only) instead of a
	// bytes.Buffer: which optional interfaces the destination implements may change from call to call
	Plain bool `json:"plain,omitempty"`
	// DataErr: stream decoders / unmarshalers read from a reader that returns its last bytes together with
	// io.EOF (as io.Reader allows) instead of a separate (0, io.EOF)
	DataErr bool `json:"data_err,omitempty"`
}

type C16Case struct {
	Kind     string  `json:"kind"`    // cbe-marshaler cte-marshaler cbe-unmarshaler cte-unmarshaler cbe-decoder cte-decoder cbe-encoder cte-encoder rules
	MaxDoc   int     `json:"max_doc"` // Rules.MaxDocumentSizeBytes (small, so that cumulative accounting shows)
	MaxDepth int     `json:"max_depth"`
	Ops      []C16Op `json:"ops"`
	// Recursion (marshalers): Iterator.RecursionSupport is on, so shared and cyclic values are written with
	// markers and references - whose numbering must start afresh with every document
	Recursion bool `json:"recursion,omitempty"`
}

var c16CyclicNames = sortedKeys(c07CyclicValues)

var c16Kinds = []string{"cbe-marshaler", "cte-marshaler", "cbe-unmarshaler", "cte-unmarshaler", "cbe-decoder", "cte-decoder", "cbe-encoder", "cte-encoder", "rules"}

// types registered in the configuration of every C16 instance: a record type and a custom binary
// converter. What a failed call cleans up must not include what the configuration registered.
type C16Rec struct {
	A int
	B string
}
type C16Custom struct {
	X uint8
	Y uint8
}

func (c *C16Case) config() *configuration.Configuration {
	cfg := configuration.New()
	cfg.Rules.MaxDocumentSizeBytes = uint64(c.MaxDoc)
	cfg.Rules.MaxContainerDepth = uint64(c.MaxDepth)
	cfg.Iterator.RecursionSupport = c.Recursion
	cfg.Iterator.RecordTypes[reflect.TypeOf(C16Rec{})] = "rec"
	cfg.Iterator.CustomBinaryConverters[reflect.TypeOf(C16Custom{})] = func(v reflect.Value) (uint64, []byte, error) {
		x := v.Interface().(C16Custom)
		return 7, []byte{x.X, x.Y}, nil
	}
	return cfg
}

// values of the registered types (marshaler histories)
var c16RegisteredValues = map[string]func() interface{}{
	"registered-record":        func() interface{} { return C16Rec{A: 5, B: "x"} },
	"registered-record-slice":  func() interface{} { return []C16Rec{{A: 1, B: "a"}, {A: 2, B: "b"}} },
	"registered-custom":        func() interface{} { return C16Custom{X: 3, Y: 4} },
	"registered-custom-in-map": func() interface{} { return map[string]interface{}{"c": C16Custom{X: 3, Y: 4}, "r": &C16Rec{A: 9}} },
}
var c16RegisteredNames = []string{"registered-record", "registered-record-slice", "registered-custom", "registered-custom-in-map"}

func genC16(t *rapid.T, ctx *Ctx) interface{} {
	c := &C16Case{Kind: rapid.SampledFrom(c16Kinds).Draw(t, "kind"), MaxDoc: rapid.SampledFrom([]int{60, 150, 400, 5000}).Draw(t, "maxdoc"),
		MaxDepth: rapid.SampledFrom([]int{3, 5, 1000}).Draw(t, "maxdepth")}
	evOpts := gen.EvOpts{Comments: true, Padding: true, CustomBinary: true, Media: true, Markers: true, Records: true, Chunked: true, URLRID: true,
		FullUnicode: true, MidCharSplit: true, MaxDepth: 3, MaxArr: 30, Budget: 10, NoEdge: true}
	avoid(ctx, &evOpts, "S59-marked-node-value", "S35-key-reference", "S34-reference-in-node")
	evOpts.NoBitArray, evOpts.NoUIDArray = true, true
	// half of the histories keep coming back to one template (so that what an earlier build left in a
	// cached builder for that type meets a later, different document for the same type)
	focus := ""
	if rapid.Bool().Draw(t, "hasfocus") {
		focus = rapid.SampledFrom(c16Templates).Draw(t, "focus")
	}
	if strings.HasSuffix(c.Kind, "-marshaler") {
		c.Recursion = rapid.IntRange(0, 2).Draw(t, "recursion") == 0
	}
	n := rapid.IntRange(2, 8).Draw(t, "nops")
	for i := 0; i < n; i++ {
		var op C16Op
		switch c.Kind {
		case "cbe-marshaler", "cte-marshaler":
			if c.Recursion && rapid.IntRange(0, 1).Draw(t, "cyclic") == 0 {
				op.Special = rapid.SampledFrom(c16CyclicNames).Draw(t, "cv")
			} else if rapid.IntRange(0, 3).Draw(t, "special") == 0 {
				if rapid.IntRange(0, 3).Draw(t, "registered") == 0 {
					op.Special = rapid.SampledFrom(c16RegisteredNames).Draw(t, "rv")
				} else {
					op.Special = rapid.SampledFrom(c07PlainValueNames).Draw(t, "sv")
				}
			} else {
				o := valOpts(ctx)
				avoidVal(o, "S4-edge-iterator-no-end")
				o.MaxTyped = 30
				for {
					op.Type = gen.GenType(t, o, 0)
					if c.Recursion && hasZeroSizeElems(op.Type) && findingOpen("S52-same-address-slices-merged") {
						// with recursion support distinct slices of zero-sized elements are written as one marked list
						// (S52, listed under C05); which of them is written out depends on Go's map order
						ctx.Stats.Exclude("S52-same-address-slices-merged")
						continue
					}
					if op.Type.K != "iface" {
						break
					}
				}
				op.Val = gen.GenVal(t, o, op.Type, 0)
			}
			op.Stream = rapid.Bool().Draw(t, "mstream")
			op.Plain = rapid.Bool().Draw(t, "mplain")
		default:
			if i > 0 && rapid.IntRange(0, 3).Draw(t, "again") == 0 {
				// the same document once more: identifiers (markers, record types) defined by an earlier
				// document must be free again
				op.Events = ev.Clone(c.Ops[i-1].Events)
			} else if rapid.IntRange(0, 4).Draw(t, "listdoc") == 0 {
				op.Events = c16ListDoc(t)
			} else if rapid.IntRange(0, 3).Draw(t, "keydoc") == 0 {
				op.Events = c16KeyDoc(t)
			} else {
				op.Events = gen.Document(t, evOpts)
			}
			muts := []string{"none", "none", "none", "truncate", "flip"}
			if c.Kind == "rules" || c.Kind == "cbe-encoder" || c.Kind == "cte-encoder" {
				muts = []string{"none", "none", "none", "drop-event", "extra-end", "prefix"}
			}
			op.Mut = rapid.SampledFrom(muts).Draw(t, "mut")
			op.Pos = rapid.IntRange(0, 1000).Draw(t, "pos")
			op.Stream = rapid.Bool().Draw(t, "stream")
			op.Plain = rapid.Bool().Draw(t, "plain")
			op.DataErr = rapid.Bool().Draw(t, "dataerr")
			op.Tmpl = rapid.SampledFrom(c16Templates).Draw(t, "tmpl")
			if focus != "" && rapid.IntRange(0, 3).Draw(t, "usefocus") > 0 {
				op.Tmpl = focus
				if strings.Contains(focus, "[4]") || strings.Contains(focus, "[2]") || focus == "struct-with-arrays" {
					if rapid.IntRange(0, 3).Draw(t, "focuslist") > 0 {
						op.Events = c16ListDoc(t)
					}
				}
			}
		}
		c.Ops = append(c.Ops, op)
	}
	return c
}

// templates of the unmarshaler histories: untyped, typed, unsupported kinds, and self-referential types
// whose builder generation fails half-way (what a failed generation leaves in the instance's builder
// session must not affect the next call)
var c16Templates = []string{"nil", "nil", "nil", "[]interface", "map[iface]", "struct", "[]int", "chan", "struct-chan", "map-func",
	"[4]int", "[4]int", "[2]string", "[][2]string", "struct-with-arrays",
	"list", "*list", "self-chan", "*self-chan", "[]self-chan", "map-self-chan", "self-chan-before", "*self-chan-before", "self-containers-func", "[]self-containers"}

// c16ListDoc draws a small document that fits the fixed-size-array templates: a list of 0-5 small integers or
// short strings, a list of such lists, or a map {"a": list, "s": list}. Lists of different lengths into the
// same [N]T destination show whether anything of an earlier build is left in a later one.
func c16ListDoc(t *rapid.T) []ev.Event {
	str := func(s string) ev.Event {
		return ev.Event{K: ev.Array, AT: events.ArrayTypeString, U: uint64(len(s)), Bs: []byte(s)}
	}
	strs := rapid.Bool().Draw(t, "lstrs")
	list := func() []ev.Event {
		out := []ev.Event{{K: ev.List}}
		for i, n := 0, rapid.IntRange(0, 5).Draw(t, "ln"); i < n; i++ {
			if strs {
				out = append(out, str(rapid.SampledFrom([]string{"a", "b", "cc", "ddd"}).Draw(t, "ls")))
			} else {
				out = append(out, ev.Event{K: ev.Int, I: int64(rapid.IntRange(1, 9).Draw(t, "li"))})
			}
		}
		return append(out, ev.Event{K: ev.End})
	}
	evs := []ev.Event{{K: ev.BD}, {K: ev.Version}}
	switch rapid.IntRange(0, 3).Draw(t, "lshape") {
	case 0, 1:
		evs = append(evs, list()...)
	case 2:
		evs = append(evs, ev.Event{K: ev.List})
		for i, n := 0, rapid.IntRange(0, 3).Draw(t, "lln"); i < n; i++ {
			evs = append(evs, list()...)
		}
		evs = append(evs, ev.Event{K: ev.End})
	default:
		evs = append(evs, ev.Event{K: ev.Map}, str("a"))
		strs = false
		evs = append(evs, list()...)
		evs = append(evs, str("s"))
		strs = true
		evs = append(evs, list()...)
		evs = append(evs, ev.Event{K: ev.End})
	}
	return append(evs, ev.Event{K: ev.ED})
}

var c16KeyTexts = []string{"a", "ab", "abc", "b", "bc", "c", "xy", "xyz", "z", "aé", "é", "éz"}

// c16KeyDoc draws a map whose string / resource-ID keys come from a small pool of texts that are
// prefixes and suffixes of one another, each key whole or chunked (cut anywhere, also inside a
// character); duplicates are allowed, so the stream may be invalid. Together with the truncating
// mutations this leaves partly delivered keys behind in an instance, and the next document shows whether
// anything of them survives: a key set, a partial key, or a partial character.
func c16KeyDoc(t *rapid.T) []ev.Event {
	evs := []ev.Event{{K: ev.BD}, {K: ev.Version}, {K: ev.Map}}
	n := rapid.IntRange(1, 4).Draw(t, "nkeys")
	for i := 0; i < n; i++ {
		text := []byte(rapid.SampledFrom(c16KeyTexts).Draw(t, "ktext"))
		at := events.ArrayTypeString
		if rapid.IntRange(0, 4).Draw(t, "krid") == 0 {
			at = events.ArrayTypeResourceID
		}
		if rapid.Bool().Draw(t, "kchunked") {
			evs = append(evs, ev.Event{K: ev.ArrayBegin, AT: at})
			var cuts []int
			for j, m := 0, rapid.IntRange(0, 2).Draw(t, "kcuts"); j < m; j++ {
				cuts = append(cuts, rapid.IntRange(0, len(text)).Draw(t, "kcut"))
			}
			var ds []int
			if len(text) > 1 && rapid.Bool().Draw(t, "kds") {
				ds = append(ds, rapid.IntRange(1, len(text)-1).Draw(t, "kdsplit"))
			}
			evs = append(evs, c12Chunks(text, cuts, ds...)...)
		} else {
			evs = append(evs, ev.Event{K: ev.Array, AT: at, U: uint64(len(text)), Bs: text})
		}
		evs = append(evs, ev.Event{K: ev.Int, I: int64(i)})
	}
	return append(evs, ev.Event{K: ev.End}, ev.Event{K: ev.ED})
}

// c16Doc builds the (possibly damaged) document of an operation.
func c16Doc(op *C16Op, format string) []byte {
	cfg := newCfg()
	var doc []byte
	if format == "cbe" {
		doc, _, _ = encodeWith(ce.NewCBEEncoder(cfg), op.Events, cfg, false)
	} else {
		doc, _, _ = encodeWith(ce.NewCTEEncoder(cfg), op.Events, cfg, false)
	}
	doc = append([]byte{}, doc...)
	switch op.Mut {
	case "truncate":
		if len(doc) > 2 {
			doc = doc[:2+op.Pos%(len(doc)-2)]
		}
	case "flip":
		if len(doc) > 2 {
			i := 2 + op.Pos%(len(doc)-2)
			doc[i] ^= byte(1 << uint(op.Pos%8))
		}
	}
	return doc
}

// c16Events builds the (possibly damaged) event list of an operation for encoders and the validator.
func c16Events(op *C16Op) []ev.Event {
	evs := ev.Clone(op.Events)
	switch op.Mut {
	case "drop-event":
		if len(evs) > 3 {
			i := 2 + op.Pos%(len(evs)-3)
			evs = append(evs[:i:i], evs[i+1:]...)
		}
	case "extra-end":
		i := 2 + op.Pos%(len(evs)-2)
		evs = append(evs[:i:i], append([]ev.Event{{K: ev.End}}, evs[i:]...)...)
	case "prefix":
		if len(evs) > 2 {
			evs = evs[:2+op.Pos%(len(evs)-2)]
		}
	}
	return evs
}

func c16Reader(doc []byte, dataErr bool) io.Reader {
	if dataErr {
		return iotest.DataErrReader(bytes.NewReader(doc))
	}
	return bytes.NewReader(doc)
}

type c16Result struct {
	errNil bool
	errTxt string
	out    []byte      // marshalers / encoders
	val    interface{} // unmarshalers
	evs    []ev.Event  // decoders
	idx    int         // validator / encoders: index of the rejected event, -1 if none
}

// c16Instance wraps one instance of the kind under test.
type c16Instance struct {
	kind  string
	cfg   *configuration.Configuration
	m     ce.Marshaler
	u     ce.Unmarshaler
	d     ce.Decoder
	e     ce.Encoder
	rules *rulesHandle
}

type rulesHandle struct {
	play func(evs []ev.Event, rec *ev.Recorder) (int, error)
	rst  func()
}

func newC16Instance(kind string, cfg *configuration.Configuration) *c16Instance {
	in := &c16Instance{kind: kind, cfg: cfg}
	switch kind {
	case "cbe-marshaler":
		in.m = ce.NewCBEMarshaler(cfg)
	case "cte-marshaler":
		in.m = ce.NewCTEMarshaler(cfg)
	case "cbe-unmarshaler":
		in.u = ce.NewCBEUnmarshaler(cfg)
	case "cte-unmarshaler":
		in.u = ce.NewCTEUnmarshaler(cfg)
	case "cbe-decoder":
		in.d = ce.NewCBEDecoder(cfg)
	case "cte-decoder":
		in.d = ce.NewCTEDecoder(cfg)
	case "cbe-encoder":
		in.e = ce.NewCBEEncoder(cfg)
	case "cte-encoder":
		in.e = ce.NewCTEEncoder(cfg)
	case "rules":
		rec := ev.NewRecorder()
		r := ce.NewRules(rec, cfg)
		in.rules = &rulesHandle{
			// the receiver given to NewRules stays attached for the life of the instance (Reset is documented
			// to prepare the validator for the next document, not to detach it); what it recorded is handed
			// over to `out` after every document
			play: func(evs []ev.Event, out *ev.Recorder) (int, error) {
				rec.Events = nil
				idx, err := ev.Play(evs, r)
				out.Events = append(out.Events, rec.Events...)
				return idx, err
			},
			rst: r.Reset,
		}
	}
	return in
}

func (in *c16Instance) format() string { return in.kind[:3] }

// apply runs one operation. first = the instance has not been used before (a validator is reset
// before every use but the first, as its documentation asks).
func (in *c16Instance) apply(op *C16Op, first bool) (res c16Result) {
	res.idx = -1
	switch {
	case in.m != nil:
		var v interface{}
		if f := c16RegisteredValues[op.Special]; f != nil {
			v = f()
		} else if f := c07CyclicValues[op.Special]; f != nil {
			v = f()
		} else if op.Special != "" {
			v = c07Values[op.Special]()
		} else {
			v = gen.Build(op.Type, op.Val).Interface()
		}
		var err error
		if op.Stream {
			var b bytes.Buffer
			if op.Plain {
				err = in.m.Marshal(v, plainWriter{&b})
			} else {
				err = in.m.Marshal(v, &b)
			}
			res.out = b.Bytes()
		} else {
			res.out, err = in.m.MarshalToDocument(v)
		}
		res.out = append([]byte{}, res.out...)
		res.errNil = err == nil
		if err != nil {
			res.errTxt = err.Error()
		}
	case in.u != nil:
		doc := c16Doc(op, in.format())
		tmpl := c07Templates[op.Tmpl]()
		var err error
		if op.Stream {
			res.val, err = in.u.Unmarshal(c16Reader(doc, op.DataErr), tmpl)
		} else {
			res.val, err = in.u.UnmarshalFromDocument(doc, tmpl)
		}
		res.errNil = err == nil
		if err != nil {
			res.errTxt = err.Error()
		}
	case in.d != nil:
		doc := c16Doc(op, in.format())
		rec := ev.NewRecorder()
		var err error
		if op.Stream {
			err = in.d.Decode(c16Reader(doc, op.DataErr), ce.NewRules(rec, in.cfg))
		} else {
			err = in.d.DecodeDocument(doc, ce.NewRules(rec, in.cfg))
		}
		res.evs = rec.Events
		res.errNil = err == nil
		if err != nil {
			res.errTxt = err.Error()
		}
	case in.e != nil:
		var b bytes.Buffer
		if op.Plain {
			in.e.PrepareToEncode(plainWriter{&b})
		} else {
			in.e.PrepareToEncode(&b)
		}
		idx, err := ev.Play(c16Events(op), in.e)
		res.idx, res.errNil = idx, idx < 0
		if err != nil {
			res.errTxt = err.Error()
		}
		res.out = append([]byte{}, b.Bytes()...)
	case in.rules != nil:
		if !first {
			in.rules.rst()
		}
		rec := ev.NewRecorder()
		idx, err := in.rules.play(c16Events(op), rec)
		res.idx, res.errNil, res.evs = idx, idx < 0, rec.Events
		if err != nil {
			res.errTxt = err.Error()
		}
	}
	return
}

func c16SameDoc(format string, a, b []byte) bool { return c16SameDocR(format, a, b, false) }

func c16SameDocR(format string, a, b []byte, recursion bool) bool {
	if bytes.Equal(a, b) {
		return true
	}
	// Go map iteration order may differ between two marshal runs: compare the decoded trees with map
	// entries as multisets
	cfg := newCfg()
	var ea, eb []ev.Event
	var erra, errb error
	// decoded without the validator: marshalers do not validate either (e.g. float map keys)
	dec := func(doc []byte) ([]ev.Event, error) {
		rec := ev.NewRecorder()
		var d ce.Decoder
		if format == "cbe" {
			d = ce.NewCBEDecoder(cfg)
		} else {
			d = ce.NewCTEDecoder(cfg)
		}
		err := d.DecodeDocument(doc, rec)
		return rec.Events, err
	}
	ea, erra = dec(a)
	eb, errb = dec(b)
	if erra != nil || errb != nil {
		return false
	}
	ta, e1 := canon.Build(ea)
	tb, e2 := canon.Build(eb)
	if e1 != nil || e2 != nil {
		return false
	}
	sortAllMaps(ta)
	sortAllMaps(tb)
	if canon.Diff(ta, tb, canon.EqOpts{FloatArrayNaNKind: true}) == "" {
		return true
	}
	if !recursion {
		return false
	}
	// With recursion support the marker goes on whichever occurrence of a shared object the marshaler meets
	// first, and Go's map iteration order decides that: two runs over the same value may put "&0:" and "$0" the
	// other way round. Still required: the same set of marker identifiers (numbering starts afresh with every
	// document) and, references replaced by the objects they stand for, the same tree.
	ids := func(evs []ev.Event) string {
		var out []string
		for _, e := range evs {
			if e.K == ev.Marker {
				out = append(out, string(e.Bs))
			}
		}
		sort.Strings(out)
		return strings.Join(out, ",")
	}
	if ids(ea) != ids(eb) {
		return false
	}
	ra, oka := canon.ResolveRefs(ta, 64)
	rb, okb := canon.ResolveRefs(tb, 64)
	if !oka || !okb {
		return false // cyclic: the named cyclic values have one possible marker placement, compared above
	}
	sortAllMaps(ra)
	sortAllMaps(rb)
	return canon.Diff(ra, rb, canon.EqOpts{FloatArrayNaNKind: true}) == ""
}

func init() {
	Register(&Prop{
		ID:  "C16",
		New: func() interface{} { return &C16Case{} },
		Gen: genC16,
		Check: func(ci interface{}, ctx *Ctx) error {
			c := ci.(*C16Case)
			ctx.Label("kind:" + c.Kind)
			reused := newC16Instance(c.Kind, c.config())
			sawFailure, failureThenSuccess := false, false
			for i := range c.Ops {
				op := &c.Ops[i]
				if op.Tmpl != "" && c07Templates[op.Tmpl] == nil {
					return fmt.Errorf("harness: unknown template %q", op.Tmpl)
				}
				var fresh, again c16Result
				// the model: a fresh instance with the same configuration
				fo := ctx.Guard(func() { fresh = newC16Instance(c.Kind, c.config()).apply(op, true) })
				if fo.TimedOut {
					ctx.Hung, ctx.Abandoned = false, true // a fresh instance that hangs is C07's business
					return nil
				}
				if fo.Panic != nil {
					ctx.Stats.Count("fresh_instance_panicked", 1)
					return nil
				}
				ro := ctx.Guard(func() { again = reused.apply(op, i == 0) })
				where := fmt.Sprintf("step %d of %d on one %s (MaxDocumentSizeBytes=%d MaxContainerDepth=%d)", i+1, len(c.Ops), c.Kind, c.MaxDoc, c.MaxDepth)
				if ro.TimedOut {
					return fmt.Errorf("%s: the reused instance did not return within the deadline (a fresh one returned error=%q)", where, fresh.errTxt)
				}
				if ro.Panic != nil {
					return fmt.Errorf("%s: the reused instance panicked: %v (a fresh one returned error=%q)\n%s", where, ro.Panic, fresh.errTxt, ro.Stack)
				}
				if reused.e != nil && op.Mut != "none" {
					// a damaged stream fed straight into an encoder (which does not validate) is only
					// history here: what an encoder does with an invalid stream is not specified
					sawFailure = true
					continue
				}
				if fresh.errNil != again.errNil {
					return fmt.Errorf("%s: reused instance error=%q, fresh instance error=%q", where, again.errTxt, fresh.errTxt)
				}
				if fresh.idx != again.idx {
					return fmt.Errorf("%s: reused instance rejected event %d (%s), fresh instance event %d (%s)", where, again.idx, again.errTxt, fresh.idx, fresh.errTxt)
				}
				if fresh.errNil {
					switch {
					case reused.m != nil:
						if !c16SameDocR(reused.format(), fresh.out, again.out, c.Recursion) {
							return fmt.Errorf("%s: reused instance wrote %s, fresh instance %s", where, docdump(reused.format(), again.out), docdump(reused.format(), fresh.out))
						}
					case reused.e != nil:
						if !bytes.Equal(fresh.out, again.out) {
							return fmt.Errorf("%s: reused encoder wrote %s, fresh encoder %s", where, docdump(reused.format(), again.out), docdump(reused.format(), fresh.out))
						}
					case reused.u != nil:
						if !sameValue(fresh.val, again.val) {
							return fmt.Errorf("%s: reused unmarshaler built a different value than a fresh one\ndoc=%s", where, docdump(reused.format(), c16Doc(op, reused.format())))
						}
					default:
						if !eventsEqual(fresh.evs, again.evs) {
							return fmt.Errorf("%s: reused instance emitted different events than a fresh one\nreused: %s\nfresh:  %s", where, ev.ListString(again.evs), ev.ListString(fresh.evs))
						}
					}
					if sawFailure {
						failureThenSuccess = true
					}
				} else {
					sawFailure = true
					if reused.e != nil && !bytes.Equal(fresh.out, again.out) {
						return fmt.Errorf("%s: up to the rejected event the reused encoder wrote %s, a fresh encoder %s", where, docdump(reused.format(), again.out), docdump(reused.format(), fresh.out))
					}
				}
			}
			ctx.LabelIf(sawFailure, "history with a failure")
			ctx.LabelIf(failureThenSuccess, "failure followed by success")
			ctx.NonTrivial(len(c.Ops) >= 3 && failureThenSuccess)
			return nil
		},
	})
}
