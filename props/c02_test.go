package props

import (
	"fmt"

	"pgregory.net/rapid"

	"verif/internal/canon"
	"verif/internal/ev"
	"verif/internal/gen"
)

// C02 — CTE encode/decode preserves every rules-valid event stream (padding is the only event that
// disappears; comments survive with their text).

func c02Opts(ctx *Ctx) gen.EvOpts {
	o := gen.EvOpts{Comments: true, Padding: true, CustomBinary: true, CustomText: true, Media: true, Markers: true, Records: true, RemoteRef: true,
		FullUnicode: true, Chunked: true, MidCharSplit: true, WideBigFloat: true, MaxDepth: 4, MaxArr: 60, Budget: 30}
	if ctx.Thorough() {
		o.MaxArr, o.Budget, o.MaxDepth = 1000, 120, 6
	}
	avoid(ctx, &o)
	return o
}

func checkCTERoundTrip(c *EvCase, ctx *Ctx) error {
	cfg := newCfg()
	if idx, err := rulesAccept(c.Events, cfg); idx >= 0 {
		return genInvalid(ctx, idx, err, c.Events)
	}
	nt := features(ctx, c.Events)
	var doc []byte
	var idx int
	var err error
	o := ctx.Guard(func() { doc, idx, err = encodeCTE(c.Events, cfg) })
	if o.TimedOut || o.Panic != nil {
		return fmt.Errorf("CTE encoder: %v", o)
	}
	if idx >= 0 {
		return fmt.Errorf("CTE encoder failed on a rules-valid stream at event %d (%v): %v", idx, c.Events[idx], err)
	}
	var out []ev.Event
	o = ctx.Guard(func() { out, err = decodeCTE(doc, cfg) })
	if o.TimedOut || o.Panic != nil {
		return fmt.Errorf("CTE decoder: %v\ndoc=%s", o, textdump(doc))
	}
	if err != nil {
		return fmt.Errorf("CTE decoder (with rules) rejected encoder output: %v\ndoc=%s", err, textdump(doc))
	}
	want, err := buildTree(c.Events, canon.Opts{DropPadding: true})
	if err != nil {
		return fmt.Errorf("harness: input does not parse: %v", err)
	}
	got, err := buildTree(out, canon.Opts{DropPadding: true})
	if err != nil {
		return fmt.Errorf("decoded event list is not a well-formed document: %v\n%s", err, ev.ListString(out))
	}
	canon.Walk(want, func(n *canon.Node) {
		switch n.Kind {
		case canon.KArray:
			if n.AT == 1 || n.AT == 2 || n.AT == 3 { // string, rid, remote ref
				for _, r := range string(n.Bytes) {
					if r < 0x20 || r == '"' || r == '\\' || r >= 0x7f {
						nt = true
						ctx.Label("string-needs-escape")
						break
					}
				}
			}
		case canon.KComment:
			nt = true
		}
	})
	ctx.NonTrivial(nt)
	if d := canon.Diff(want, got, canon.EqOpts{FloatArrayNaNKind: true}); d != "" {
		return fmt.Errorf("CTE round trip changed the data: %s\ndoc=%s", d, textdump(doc))
	}
	return nil
}

func init() {
	Register(&Prop{
		ID:  "C02",
		New: func() interface{} { return &EvCase{} },
		Gen: func(t *rapid.T, ctx *Ctx) interface{} {
			return &EvCase{Events: gen.Document(t, c02Opts(ctx))}
		},
		Fixed: func(ctx *Ctx, report func(c interface{}, err error)) {
			sweepEventCases(ctx, report, func(ci interface{}, ctx *Ctx) error { return checkCTERoundTrip(ci.(*EvCase), ctx) })
		},
		Check: func(ci interface{}, ctx *Ctx) error { return checkCTERoundTrip(ci.(*EvCase), ctx) },
	})
}
