package props

import (
	"fmt"
	"math/big"
	"strings"

	compact_time "github.com/kstenerud/go-compact-time"
	"github.com/kstenerud/go-concise-encoding/ce"
	"github.com/kstenerud/go-concise-encoding/ce/events"
	"pgregory.net/rapid"

	"verif/internal/ev"
)

// C12 — duplicate map keys are rejected whatever encoding they use; different keys are never duplicates.
// Oracle M-KEY: identity = (class, value); integers by mathematical value.

type C12Key struct {
	Class string `json:"class"` // int | str | rid | uid | bool | time
	Int   string `json:"int,omitempty"`
	Text  []byte `json:"text,omitempty"`
	Bool  bool   `json:"bool,omitempty"`
	Time  int    `json:"time,omitempty"`
	Form  string `json:"form"`
	Cuts  []int  `json:"cuts,omitempty"`
	// DSplits: byte positions (anywhere, also inside a multi-byte character) at which a chunk's data is
	// additionally split into separate data events (validator route only)
	DSplits []int `json:"dsplits,omitempty"`
	Pad     int   `json:"pad,omitempty"` // extra leading-zero bytes (CBE var/big forms), separators (CTE)
	// Mark: the key carries a marker (maps only; the marker ID is derived from the key's position). A
	// marked key is still the same key.
	Mark bool `json:"mark,omitempty"`
}

type C12Case struct {
	Via        string   `json:"via"` // rules | cbe | cte
	RecordType bool     `json:"record_type"`
	Keys       []C12Key `json:"keys"`
}

func (k *C12Key) identity() string {
	switch k.Class {
	case "int":
		return "i:" + k.Int
	case "bool":
		return fmt.Sprintf("b:%v", k.Bool)
	case "time":
		if tm := c12Times[k.Time%len(c12Times)]; tm.same > 0 {
			return fmt.Sprintf("t:%d", tm.same)
		}
		return fmt.Sprintf("t:%d", k.Time)
	}
	return k.Class + ":" + string(k.Text)
}

type c12Time struct {
	t   compact_time.Time
	cte string
	// same: index of the entry this one denotes the same value as (a UTC time spelled with another of the
	// tz database's names for UTC: the library treats them all as the zero zone and both encoders write them
	// back without a zone); 0 for none - entry 0 is never an alias target
	same int
}

var c12Times = []c12Time{
	{t: compact_time.NewDate(2020, 1, 15), cte: "2020-01-15"},
	{t: compact_time.NewDate(2020, 1, 16), cte: "2020-01-16"},
	{t: compact_time.NewTime(10, 30, 0, 0, compact_time.TZAtUTC()), cte: "10:30:00"},
	{t: compact_time.NewTimestamp(2020, 1, 15, 10, 30, 0, 0, compact_time.TZAtUTC()), cte: "2020-01-15/10:30:00"},
	{t: compact_time.NewTimestamp(2020, 1, 15, 10, 30, 0, 500000000, compact_time.TZAtAreaLocation("Europe/Berlin")), cte: "2020-01-15/10:30:00.5/Europe/Berlin"},
	// other spellings of UTC for entries 2 and 3
	{t: compact_time.NewTime(10, 30, 0, 0, compact_time.TZAtAreaLocation("UTC")), cte: "10:30:00/UTC", same: 2},
	{t: compact_time.NewTime(10, 30, 0, 0, compact_time.TZAtAreaLocation("Etc/UTC")), cte: "10:30:00/Etc/UTC", same: 2},
	{t: compact_time.NewTime(10, 30, 0, 0, compact_time.TZAtAreaLocation("Zulu")), cte: "10:30:00/Zulu", same: 2},
	{t: compact_time.NewTimestamp(2020, 1, 15, 10, 30, 0, 0, compact_time.TZAtAreaLocation("Etc/GMT")), cte: "2020-01-15/10:30:00/Etc/GMT", same: 3},
	{t: compact_time.NewTimestamp(2020, 1, 15, 10, 30, 0, 0, compact_time.TZAtAreaLocation("Z")), cte: "2020-01-15/10:30:00/Z", same: 3},
}

var c12Ints = func() []string {
	var out []string
	add := func(v *big.Int) { out = append(out, v.String(), new(big.Int).Neg(v).String()) }
	out = append(out, "0")
	for _, s := range []string{"1", "5", "100", "101", "127", "128", "255", "256", "65535", "65536", "2147483648", "4294967295", "4294967296",
		"1099511627776", "281474976710656", "72057594037927936", "9223372036854775807", "9223372036854775808", "18446744073709551615",
		"18446744073709551616", "18446744073709551617", "1180591620717411303424"} {
		v, _ := new(big.Int).SetString(s, 10)
		add(v)
	}
	// magnitudes of two to seven machine words, on both sides of every word boundary (a key of each word
	// count may be remembered in its own way)
	for _, bits := range []uint{127, 128, 191, 192, 193, 255, 256, 320, 400} {
		v := new(big.Int).Lsh(big.NewInt(1), bits)
		add(new(big.Int).Sub(v, big.NewInt(1)))
		add(v)
		add(new(big.Int).Add(v, big.NewInt(5)))
	}
	return out
}()

var c12Texts = [][]byte{[]byte(""), []byte("a"), []byte("é"), []byte("b c"), []byte("a-long-key-of-more-than-fifteen-bytes"), []byte("中文"), []byte("aaaaaaaaaaaaaaaa")}

func init() {
	// strings that spell a time key exactly as the library prints it: a string and a time are different values
	for _, tm := range c12Times {
		c12Texts = append(c12Texts, []byte(tm.t.String()), []byte(tm.cte))
	}
}

// the third UID has the bytes of the string key "aaaaaaaaaaaaaaaa" (c12Texts): a UID and a string are different values
var c12UIDs = [][]byte{make([]byte, 16), {1, 2, 3, 4, 5, 6, 7, 8, 9, 10, 11, 12, 13, 14, 15, 16}, []byte("aaaaaaaaaaaaaaaa")}

func genC12Key(t *rapid.T, via string) C12Key {
	var k C12Key
	switch rapid.IntRange(0, 9).Draw(t, "class") {
	case 0, 1, 2, 3, 4:
		k.Class = "int"
		k.Int = c12Ints[rapid.IntRange(0, len(c12Ints)-1).Draw(t, "int")]
	case 5, 6:
		k.Class = "str"
		k.Text = c12Texts[rapid.IntRange(0, len(c12Texts)-1).Draw(t, "text")]
	case 7:
		k.Class = "rid"
		k.Text = c12Texts[rapid.IntRange(0, len(c12Texts)-1).Draw(t, "text")]
	case 8:
		if rapid.Bool().Draw(t, "uidOrBool") {
			k.Class = "uid"
			k.Text = c12UIDs[rapid.IntRange(0, len(c12UIDs)-1).Draw(t, "uid")]
		} else {
			k.Class = "bool"
			k.Bool = rapid.Bool().Draw(t, "bool")
		}
	default:
		k.Class = "time"
		k.Time = rapid.IntRange(0, len(c12Times)-1).Draw(t, "time")
	}
	c12PickForm(t, &k, via)
	k.Mark = rapid.IntRange(0, 4).Draw(t, "mark") == 0
	return k
}

func c12PickForm(t *rapid.T, k *C12Key, via string) {
	v, _ := new(big.Int).SetString(k.Int, 10)
	switch via {
	case "rules":
		switch k.Class {
		case "int":
			forms := []string{"bigint"}
			if v.IsInt64() {
				forms = append(forms, "int")
			}
			if v.Sign() >= 0 && v.IsUint64() {
				forms = append(forms, "pint")
			}
			if v.Sign() < 0 && new(big.Int).Neg(v).IsUint64() {
				forms = append(forms, "nint")
			}
			k.Form = forms[rapid.IntRange(0, len(forms)-1).Draw(t, "form")]
		case "str", "rid":
			k.Form = rapid.SampledFrom([]string{"array", "sarray", "chunked"}).Draw(t, "form")
			if k.Form == "chunked" {
				n := rapid.IntRange(0, 3).Draw(t, "ncuts")
				for i := 0; i < n; i++ {
					k.Cuts = append(k.Cuts, rapid.IntRange(0, len(k.Text)).Draw(t, "cut"))
				}
				for i, m := 0, rapid.IntRange(0, 3).Draw(t, "ndsplits"); i < m && len(k.Text) > 1; i++ {
					k.DSplits = append(k.DSplits, rapid.IntRange(1, len(k.Text)-1).Draw(t, "dsplit"))
				}
			}
		case "bool":
			k.Form = rapid.SampledFrom([]string{"boolean", "truefalse"}).Draw(t, "form")
		default:
			k.Form = "plain"
		}
	case "cbe":
		switch k.Class {
		case "int":
			m := new(big.Int).Abs(v)
			forms := []string{}
			if m.Cmp(big.NewInt(100)) <= 0 {
				forms = append(forms, "small")
			}
			for _, w := range []uint{8, 16, 32, 64} {
				if m.BitLen() <= int(w) {
					forms = append(forms, fmt.Sprintf("%d", w))
				}
			}
			forms = append(forms, "var")
			k.Form = forms[rapid.IntRange(0, len(forms)-1).Draw(t, "form")]
			if k.Form == "var" {
				k.Pad = rapid.IntRange(0, 6).Draw(t, "pad")
			}
		case "str":
			k.Form = rapid.SampledFrom([]string{"short", "long", "chunked"}).Draw(t, "form")
			if len(k.Text) > 15 && k.Form == "short" {
				k.Form = "long"
			}
			if k.Form == "chunked" {
				n := rapid.IntRange(0, 3).Draw(t, "ncuts")
				for i := 0; i < n; i++ {
					k.Cuts = append(k.Cuts, rapid.IntRange(0, len(k.Text)).Draw(t, "cut"))
				}
			}
		case "rid":
			k.Form = "long"
		default:
			k.Form = "plain"
		}
	case "cte":
		switch k.Class {
		case "int":
			k.Form = rapid.SampledFrom([]string{"dec", "hex", "oct", "bin", "HEX"}).Draw(t, "form")
			k.Pad = rapid.IntRange(0, 2).Draw(t, "sep")
		default:
			k.Form = "plain"
		}
	}
}

func c12Chunks(text []byte, cuts []int, dsplits ...int) (out []ev.Event) {
	// cuts -> sorted boundaries, aligned back to character starts
	bounds := []int{0}
	sorted := append([]int{}, cuts...)
	for i := range sorted {
		for j := i + 1; j < len(sorted); j++ {
			if sorted[j] < sorted[i] {
				sorted[i], sorted[j] = sorted[j], sorted[i]
			}
		}
	}
	for _, c := range sorted {
		for c > 0 && c < len(text) && text[c]&0xc0 == 0x80 {
			c--
		}
		if c > len(text) {
			c = len(text)
		}
		bounds = append(bounds, c)
	}
	bounds = append(bounds, len(text))
	for i := 0; i+1 < len(bounds); i++ {
		lo, hi := bounds[i], bounds[i+1]
		out = append(out, ev.Event{K: ev.ArrayChunk, U: uint64(hi - lo), B: i+2 < len(bounds)})
		for hi > lo {
			next := hi
			for _, d := range dsplits {
				if d > lo && d < next {
					next = d
				}
			}
			out = append(out, ev.Event{K: ev.ArrayData, Bs: text[lo:next]})
			lo = next
		}
	}
	return
}

func (k *C12Key) rulesEvents() []ev.Event {
	v, _ := new(big.Int).SetString(k.Int, 10)
	switch k.Class {
	case "int":
		switch k.Form {
		case "int":
			return []ev.Event{{K: ev.Int, I: v.Int64()}}
		case "pint":
			return []ev.Event{{K: ev.PInt, U: v.Uint64()}}
		case "nint":
			return []ev.Event{{K: ev.NInt, U: new(big.Int).Neg(v).Uint64()}}
		}
		return []ev.Event{{K: ev.BigInt, Big: v}}
	case "str", "rid":
		at := events.ArrayTypeString
		if k.Class == "rid" {
			at = events.ArrayTypeResourceID
		}
		switch k.Form {
		case "sarray":
			return []ev.Event{{K: ev.StringArray, AT: at, S: string(k.Text)}}
		case "chunked":
			return append([]ev.Event{{K: ev.ArrayBegin, AT: at}}, c12Chunks(k.Text, k.Cuts, k.DSplits...)...)
		}
		return []ev.Event{{K: ev.Array, AT: at, U: uint64(len(k.Text)), Bs: k.Text}}
	case "uid":
		return []ev.Event{{K: ev.UID, Bs: k.Text}}
	case "bool":
		if k.Form == "boolean" {
			return []ev.Event{{K: ev.Boolean, B: k.Bool}}
		}
		if k.Bool {
			return []ev.Event{{K: ev.True}}
		}
		return []ev.Event{{K: ev.False}}
	}
	return []ev.Event{{K: ev.Time, T: c12Times[k.Time].t}}
}

func uleb(v uint64) []byte {
	var out []byte
	for {
		b := byte(v & 0x7f)
		v >>= 7
		if v != 0 {
			out = append(out, b|0x80)
		} else {
			return append(out, b)
		}
	}
}

func leBytes(m *big.Int, n int) []byte {
	be := m.Bytes()
	out := make([]byte, n)
	for i := 0; i < len(be) && i < n; i++ {
		out[i] = be[len(be)-1-i]
	}
	return out
}

func (k *C12Key) cbeBytes() []byte {
	v, _ := new(big.Int).SetString(k.Int, 10)
	switch k.Class {
	case "int":
		m := new(big.Int).Abs(v)
		neg := v.Sign() < 0
		t := func(pos, negc byte) byte {
			if neg {
				return negc
			}
			return pos
		}
		switch k.Form {
		case "small":
			return []byte{byte(int8(v.Int64()))}
		case "8":
			return append([]byte{t(0x68, 0x69)}, leBytes(m, 1)...)
		case "16":
			return append([]byte{t(0x6a, 0x6b)}, leBytes(m, 2)...)
		case "32":
			return append([]byte{t(0x6c, 0x6d)}, leBytes(m, 4)...)
		case "64":
			return append([]byte{t(0x6e, 0x6f)}, leBytes(m, 8)...)
		}
		n := (m.BitLen()+7)/8 + k.Pad
		out := []byte{t(0x66, 0x67)}
		out = append(out, uleb(uint64(n))...)
		return append(out, leBytes(m, n)...)
	case "str":
		switch k.Form {
		case "short":
			return append([]byte{0x80 + byte(len(k.Text))}, k.Text...)
		case "chunked":
			out := []byte{0x90}
			for _, e := range c12Chunks(k.Text, k.Cuts) {
				if e.K == ev.ArrayChunk {
					more := uint64(0)
					if e.B {
						more = 1
					}
					out = append(out, uleb(e.U<<1|more)...)
				} else {
					out = append(out, e.Bs...)
				}
			}
			return out
		}
		out := append([]byte{0x90}, uleb(uint64(len(k.Text))<<1)...)
		return append(out, k.Text...)
	case "rid":
		out := append([]byte{0x91}, uleb(uint64(len(k.Text))<<1)...)
		return append(out, k.Text...)
	case "uid":
		return append([]byte{0x65}, k.Text...)
	case "bool":
		if k.Bool {
			return []byte{0x79}
		}
		return []byte{0x78}
	}
	// time: use the library's own encoding of the compact time (dependency, not code under test)
	tv := c12Times[k.Time].t
	buf := make([]byte, tv.EncodedSize()+1)
	buf[0] = []byte{0x7a, 0x7b, 0x7c}[tv.Type]
	n := tv.EncodeToBytes(buf[1:])
	return buf[:n+1]
}

func withSeps(digits string, mode int) string {
	if mode == 0 || len(digits) < 2 {
		return digits
	}
	var sb strings.Builder
	for i, c := range digits {
		if i > 0 && (mode == 2 || i%3 == 0) {
			sb.WriteByte('_')
		}
		sb.WriteRune(c)
	}
	return sb.String()
}

func (k *C12Key) cteText() string {
	v, _ := new(big.Int).SetString(k.Int, 10)
	switch k.Class {
	case "int":
		m := new(big.Int).Abs(v)
		sign := ""
		if v.Sign() < 0 {
			sign = "-"
		}
		switch k.Form {
		case "hex":
			return sign + "0x" + withSeps(m.Text(16), k.Pad)
		case "HEX":
			return sign + "0X" + withSeps(strings.ToUpper(m.Text(16)), k.Pad)
		case "oct":
			return sign + "0o" + withSeps(m.Text(8), k.Pad)
		case "bin":
			return sign + "0b" + withSeps(m.Text(2), k.Pad)
		}
		return sign + withSeps(m.Text(10), k.Pad)
	case "str":
		return `"` + string(k.Text) + `"`
	case "rid":
		return `@"` + string(k.Text) + `"`
	case "uid":
		return fmt.Sprintf("%x-%x-%x-%x-%x", k.Text[0:4], k.Text[4:6], k.Text[6:8], k.Text[8:10], k.Text[10:16])
	case "bool":
		return fmt.Sprintf("%v", k.Bool)
	}
	return c12Times[k.Time].cte
}

// cbeDoc spells the case as a CBE document (hand-assembled: the library's encoder always picks the
// canonical form).
func (c *C12Case) cbeDoc() []byte {
	doc := []byte{0x81, 0x00}
	if c.RecordType {
		doc = append(doc, 0x7f, 0xf1, 0x01, 'r')
	} else {
		doc = append(doc, 0x99)
	}
	for i := range c.Keys {
		if c.Keys[i].Mark && !c.RecordType {
			id := fmt.Sprintf("m%d", i)
			doc = append(doc, 0x7f, 0xf0, byte(len(id)))
			doc = append(doc, id...)
		}
		doc = append(doc, c.Keys[i].cbeBytes()...)
		if !c.RecordType {
			doc = append(doc, 0x7d)
		}
	}
	doc = append(doc, 0x9b)
	if c.RecordType {
		doc = append(doc, 0x7d)
	}
	return doc
}

// cteDoc spells the case as a CTE document.
func (c *C12Case) cteDoc() []byte {
	var sb strings.Builder
	sb.WriteString("c0\n")
	if c.RecordType {
		sb.WriteString("@r<")
	} else {
		sb.WriteString("{")
	}
	for i := range c.Keys {
		sb.WriteString("\n ")
		if c.Keys[i].Mark && !c.RecordType {
			sb.WriteString(fmt.Sprintf("&m%d:", i))
		}
		sb.WriteString(c.Keys[i].cteText())
		if !c.RecordType {
			sb.WriteString(" = null")
		}
	}
	if c.RecordType {
		sb.WriteString("\n>\nnull")
	} else {
		sb.WriteString("\n}")
	}
	return []byte(sb.String())
}

func genC12Case(t *rapid.T, via string) *C12Case {
	c := &C12Case{Via: via}
	c.RecordType = rapid.IntRange(0, 4).Draw(t, "rt") == 0
	n := rapid.IntRange(2, 6).Draw(t, "n")
	for i := 0; i < n; i++ {
		c.Keys = append(c.Keys, genC12Key(t, c.Via))
	}
	if rapid.Bool().Draw(t, "collide") {
		// deliberate collision: re-draw the form of an existing key value
		src := c.Keys[rapid.IntRange(0, n-1).Draw(t, "src")]
		dup := src
		dup.Cuts = nil
		dup.DSplits = nil
		c12PickForm(t, &dup, c.Via)
		dup.Mark = rapid.IntRange(0, 3).Draw(t, "dupmark") == 0
		pos := rapid.IntRange(1, n).Draw(t, "dpos")
		c.Keys = append(c.Keys[:pos], append([]C12Key{dup}, c.Keys[pos:]...)...)
	}
	return c
}

func init() {
	Register(&Prop{
		ID:  "C12",
		New: func() interface{} { return &C12Case{} },
		Gen: func(t *rapid.T, ctx *Ctx) interface{} {
			c := genC12Case(t, rapid.SampledFrom([]string{"rules", "rules", "cbe", "cte"}).Draw(t, "via"))
			return c
		},
		Check: func(ci interface{}, ctx *Ctx) error {
			c := ci.(*C12Case)
			// model
			seen := map[string]int{}
			dupAt := -1
			sameClassForms := false
			for i := range c.Keys {
				id := c.Keys[i].identity()
				if j, ok := seen[id]; ok {
					if dupAt < 0 {
						dupAt = i
					}
					_ = j
				} else {
					seen[id] = i
				}
				for j := 0; j < i; j++ {
					if c.Keys[j].Class == c.Keys[i].Class && c.Keys[j].Form != c.Keys[i].Form {
						sameClassForms = true
					}
				}
			}
			ctx.NonTrivial(sameClassForms)
			ctx.Label("via:" + c.Via)
			ctx.LabelIf(dupAt >= 0, "has-duplicate")
			ctx.LabelIf(c.RecordType, "record-type")
			for i := range c.Keys {
				ctx.Label("form:" + c.Keys[i].Class + "/" + c.Keys[i].Form)
				ctx.LabelIf(c.Keys[i].Mark && !c.RecordType, "marked key: "+c.Keys[i].Class+"/"+c.Keys[i].Form)
				if c.Keys[i].Form == "chunked" && c.Via == "rules" {
					for _, d := range c.Keys[i].DSplits {
						if d > 0 && d < len(c.Keys[i].Text) && c.Keys[i].Text[d]&0xc0 == 0x80 {
							ctx.Label("chunked key data split inside a character")
						}
					}
				}
			}
			cfg := newCfg()
			switch c.Via {
			case "rules":
				evs := []ev.Event{{K: ev.BD}, {K: ev.Version}}
				if c.RecordType {
					evs = append(evs, ev.Event{K: ev.RecordType, Bs: []byte("r")})
				} else {
					evs = append(evs, ev.Event{K: ev.Map})
				}
				type span struct{ lo, hi int }
				var spans []span
				for i := range c.Keys {
					lo := len(evs)
					if c.Keys[i].Mark && !c.RecordType {
						evs = append(evs, ev.Event{K: ev.Marker, Bs: []byte(fmt.Sprintf("m%d", i))})
					}
					evs = append(evs, c.Keys[i].rulesEvents()...)
					spans = append(spans, span{lo, len(evs) - 1})
					if !c.RecordType {
						evs = append(evs, ev.Event{K: ev.Null})
					}
				}
				evs = append(evs, ev.Event{K: ev.End})
				if c.RecordType {
					evs = append(evs, ev.Event{K: ev.Null})
				}
				evs = append(evs, ev.Event{K: ev.ED})
				idx, err := ev.Play(evs, ce.NewRules(nil, cfg))
				if dupAt < 0 {
					if idx >= 0 {
						return fmt.Errorf("all keys denote different values but the validator rejected event %d (%v): %v\n%s", idx, evs[idx], err, ev.ListString(evs))
					}
					return nil
				}
				if idx < 0 {
					return fmt.Errorf("keys %d and %d denote the same value (%s) but the validator accepted the map\n%s", seen[c.Keys[dupAt].identity()], dupAt, c.Keys[dupAt].identity(), ev.ListString(evs))
				}
				if idx < spans[dupAt].lo || idx > spans[dupAt].hi {
					return fmt.Errorf("duplicate key %d (%s) spans events %d..%d but the validator rejected event %d: %v\n%s", dupAt, c.Keys[dupAt].identity(), spans[dupAt].lo, spans[dupAt].hi, idx, err, ev.ListString(evs))
				}
				return nil
			case "cbe":
				doc := c.cbeDoc()
				_, err := decodeCBE(doc, cfg)
				if dupAt < 0 && err != nil {
					return fmt.Errorf("all keys denote different values but CBE decoder+rules rejected: %v\ndoc=%s", err, hexdump(doc))
				}
				if dupAt >= 0 && err == nil {
					return fmt.Errorf("keys %d and %d denote the same value (%s) but CBE decoder+rules accepted\ndoc=%s", seen[c.Keys[dupAt].identity()], dupAt, c.Keys[dupAt].identity(), hexdump(doc))
				}
				return nil
			default:
				doc := c.cteDoc()
				var err error
				o := ctx.Guard(func() { _, err = decodeCTE(doc, cfg) })
				if o.TimedOut || o.Panic != nil {
					return fmt.Errorf("CTE decoder: %v", o)
				}
				if dupAt < 0 && err != nil {
					return fmt.Errorf("all keys denote different values but CTE decoder+rules rejected: %v\ndoc=%s", err, textdump(doc))
				}
				if dupAt >= 0 && err == nil {
					return fmt.Errorf("keys %d and %d denote the same value (%s) but CTE decoder+rules accepted\ndoc=%s", seen[c.Keys[dupAt].identity()], dupAt, c.Keys[dupAt].identity(), textdump(doc))
				}
				return nil
			}
		},
	})
}
