package props

import (
	"fmt"
	"unicode/utf8"

	"github.com/kstenerud/go-concise-encoding/ce"
	"github.com/kstenerud/go-concise-encoding/ce/events"
	"pgregory.net/rapid"

	"verif/internal/ev"
)

// C11 — array validation ignores how the data is split. Oracle M-UTF8: accept iff every chunk receives
// exactly its declared byte count, the last chunk is final, and string-like contents (string, resource
// ID, remote reference, custom text, media type) are valid UTF-8 with every chunk ending on a character
// boundary. Metamorphic: a second split of the same chunks into data events gets the same verdict.

type C11Chunk struct {
	Declared uint64   `json:"declared"` // elements (bits for bit arrays)
	More     bool     `json:"more"`
	Data     [][]byte `json:"data"`  // data events, first split
	Data2    [][]byte `json:"data2"` // same bytes, second split
}

type C11Case struct {
	Pos       string     `json:"pos"`  // top | list | mapkey | mapvalue | marked | node | edge
	Kind      string     `json:"kind"` // array | media | custombin | customtext
	AT        uint8      `json:"at"`
	MediaType []byte     `json:"media_type,omitempty"`
	Whole     string     `json:"whole,omitempty"` // "" chunked; "array" OnArray; "string" OnStringlikeArray
	Count     uint64     `json:"count,omitempty"` // element count for Whole=array
	Content   []byte     `json:"content,omitempty"`
	Chunks    []C11Chunk `json:"chunks,omitempty"`
}

func (c *C11Case) stringy() bool {
	if c.Kind == "customtext" {
		return true
	}
	if c.Kind != "array" {
		return false
	}
	at := events.ArrayType(c.AT)
	return at == events.ArrayTypeString || at == events.ArrayTypeResourceID || at == events.ArrayTypeReferenceRemote
}

func (c *C11Case) elemBits() uint64 {
	if c.Kind != "array" {
		return 8
	}
	return uint64(events.ArrayType(c.AT).ElementSize())
}

func bytesFor(bits uint64, n uint64) uint64 {
	if bits == 1 {
		return (n + 7) / 8
	}
	return n * bits / 8
}

// c11Model returns true when the array must be accepted.
func c11Model(c *C11Case) bool {
	if c.Kind == "media" && !utf8.Valid(c.MediaType) {
		return false
	}
	str := c.stringy()
	if c.Whole != "" {
		if str && !utf8.Valid(c.Content) {
			return false
		}
		if c.Whole == "array" && c.Kind == "array" && !str {
			if uint64(len(c.Content)) != bytesFor(c.elemBits(), c.Count) {
				return false
			}
		}
		return true
	}
	if len(c.Chunks) == 0 {
		return false
	}
	for i, ch := range c.Chunks {
		last := i == len(c.Chunks)-1
		if ch.More == last {
			return false // a non-final last chunk, or a final chunk followed by more chunks
		}
		var all []byte
		for _, d := range ch.Data {
			all = append(all, d...)
		}
		if uint64(len(all)) != bytesFor(c.elemBits(), ch.Declared) {
			return false
		}
		if str && !utf8.Valid(all) {
			return false
		}
	}
	return true
}

func (c *C11Case) events(second bool) []ev.Event {
	evs := []ev.Event{{K: ev.BD}, {K: ev.Version}}
	closers := []ev.Event{}
	switch c.Pos {
	case "list":
		evs = append(evs, ev.Event{K: ev.List})
		closers = append(closers, ev.Event{K: ev.End})
	case "mapvalue":
		evs = append(evs, ev.Event{K: ev.Map}, ev.Event{K: ev.Int, I: 1})
		closers = append(closers, ev.Event{K: ev.End})
	case "mapkey":
		evs = append(evs, ev.Event{K: ev.Map})
		closers = append(closers, ev.Event{K: ev.Null}, ev.Event{K: ev.End})
	case "marked":
		evs = append(evs, ev.Event{K: ev.List}, ev.Event{K: ev.Marker, Bs: []byte("m")})
		closers = append(closers, ev.Event{K: ev.RefLocal, Bs: []byte("m")}, ev.Event{K: ev.End})
	case "node":
		evs = append(evs, ev.Event{K: ev.Node}, ev.Event{K: ev.Null})
		closers = append(closers, ev.Event{K: ev.End})
	case "edge":
		evs = append(evs, ev.Event{K: ev.Edge}, ev.Event{K: ev.Int, I: 1})
		closers = append(closers, ev.Event{K: ev.Int, I: 2}, ev.Event{K: ev.End})
	}
	at := events.ArrayType(c.AT)
	if c.Whole != "" {
		switch {
		case c.Kind == "media":
			evs = append(evs, ev.Event{K: ev.Media, S: string(c.MediaType), Bs: c.Content})
		case c.Kind == "custombin":
			evs = append(evs, ev.Event{K: ev.CustomBinary, U: 7, Bs: c.Content})
		case c.Kind == "customtext":
			evs = append(evs, ev.Event{K: ev.CustomText, U: 7, S: string(c.Content)})
		case c.Whole == "string":
			evs = append(evs, ev.Event{K: ev.StringArray, AT: at, S: string(c.Content)})
		default:
			evs = append(evs, ev.Event{K: ev.Array, AT: at, U: c.Count, Bs: c.Content})
		}
	} else {
		switch c.Kind {
		case "media":
			evs = append(evs, ev.Event{K: ev.MediaBegin, S: string(c.MediaType)})
		case "custombin":
			evs = append(evs, ev.Event{K: ev.CustomBegin, AT: events.ArrayTypeCustomBinary, U: 7})
		case "customtext":
			evs = append(evs, ev.Event{K: ev.CustomBegin, AT: events.ArrayTypeCustomText, U: 7})
		default:
			evs = append(evs, ev.Event{K: ev.ArrayBegin, AT: at})
		}
		for _, ch := range c.Chunks {
			evs = append(evs, ev.Event{K: ev.ArrayChunk, U: ch.Declared, B: ch.More})
			data := ch.Data
			if second {
				data = ch.Data2
			}
			for _, d := range data {
				evs = append(evs, ev.Event{K: ev.ArrayData, Bs: d})
			}
		}
	}
	evs = append(evs, closers...)
	return append(evs, ev.Event{K: ev.ED})
}

var c11Invalid = [][]byte{{0x80}, {0xc0, 0x80}, {0xe4, 0xb8}, {0xed, 0xa0, 0x80}, {0xf4, 0x90, 0x80, 0x80}, {0xff}, {0xf0, 0x9f, 0x98}}
var c11Runes = []rune{'a', 'z', ' ', 0xe9, 0x416, 0x4e2d, 0x20ac, 0x1f600, 0x10ffff, 0x7f, 0x80, 0x7ff, 0x800, 0xffff, 0x10000,
	// U+FFFD correctly encoded is a valid character (a validity test that decodes and looks for RuneError must
	// also look at the width); the last character before and the first after the surrogate range
	0xfffd, 0xfffc, 0xfffe, 0xd7ff, 0xe000}

func c11Text(t *rapid.T, label string, max int, invalidOneIn int) []byte {
	n := rapid.IntRange(0, max).Draw(t, label+".n")
	var b []byte
	for i := 0; i < n; i++ {
		b = utf8.AppendRune(b, c11Runes[rapid.IntRange(0, len(c11Runes)-1).Draw(t, label+".r")])
	}
	if rapid.IntRange(0, invalidOneIn-1).Draw(t, label+".inv") == 0 {
		bad := c11Invalid[rapid.IntRange(0, len(c11Invalid)-1).Draw(t, label+".bad")]
		pos := rapid.IntRange(0, len(b)).Draw(t, label+".pos")
		for pos > 0 && pos < len(b) && !utf8.RuneStart(b[pos]) {
			pos--
		}
		nb := append([]byte{}, b[:pos]...)
		nb = append(nb, bad...)
		b = append(nb, b[pos:]...)
	}
	return b
}

func splitBytes(t *rapid.T, label string, b []byte, align int) [][]byte {
	if len(b) == 0 {
		return nil
	}
	j := rapid.IntRange(1, 4).Draw(t, label+".j")
	cuts := []int{0}
	prev := 0
	for i := 1; i < j; i++ {
		c := rapid.IntRange(prev, len(b)).Draw(t, label+".cut")
		c -= c % align
		if c <= prev {
			continue
		}
		cuts = append(cuts, c)
		prev = c
	}
	cuts = append(cuts, len(b))
	var out [][]byte
	for i := 0; i+1 < len(cuts); i++ {
		if cuts[i+1] > cuts[i] {
			out = append(out, append([]byte{}, b[cuts[i]:cuts[i+1]]...))
		}
	}
	return out
}

var c11Types = []events.ArrayType{events.ArrayTypeString, events.ArrayTypeString, events.ArrayTypeResourceID, events.ArrayTypeReferenceRemote,
	events.ArrayTypeBit, events.ArrayTypeUint8, events.ArrayTypeUint16, events.ArrayTypeUint32, events.ArrayTypeUint64, events.ArrayTypeInt8,
	events.ArrayTypeInt16, events.ArrayTypeInt32, events.ArrayTypeInt64, events.ArrayTypeFloat16, events.ArrayTypeFloat32, events.ArrayTypeFloat64, events.ArrayTypeUID}

func genC11(t *rapid.T, ctx *Ctx) interface{} {
	c := &C11Case{}
	c.Kind = rapid.SampledFrom([]string{"array", "array", "array", "array", "media", "custombin", "customtext"}).Draw(t, "kind")
	max := 24
	if ctx.Thorough() && rapid.IntRange(0, 9).Draw(t, "big") == 0 {
		max = 1500
	}
	if c.Kind == "array" {
		c.AT = uint8(c11Types[rapid.IntRange(0, len(c11Types)-1).Draw(t, "at")])
	}
	if c.Kind == "media" {
		c.MediaType = []byte(rapid.SampledFrom([]string{"a/b", "text/plain", "application/x-e", "image/svg+xml"}).Draw(t, "mt"))
		if rapid.IntRange(0, 7).Draw(t, "mtbad") == 0 {
			if harnessOpen(ctx, "S30-media-type-utf8") {
				// excluded by known finding
			} else {
				c.MediaType = append(c.MediaType, c11Invalid[rapid.IntRange(0, len(c11Invalid)-1).Draw(t, "mtb")]...)
			}
		}
	}
	str := c.stringy()
	at := events.ArrayType(c.AT)
	// positions
	poss := []string{"top", "list", "mapvalue", "node", "edge"}
	if c.Kind == "array" && (at == events.ArrayTypeString || at == events.ArrayTypeResourceID) {
		poss = append(poss, "mapkey", "mapkey")
	}
	if !(c.Kind == "array" && at == events.ArrayTypeReferenceRemote) {
		poss = append(poss, "marked")
	}
	c.Pos = poss[rapid.IntRange(0, len(poss)-1).Draw(t, "pos")]
	bits := c.elemBits()
	// content
	var content []byte
	var count uint64
	switch {
	case str:
		content = c11Text(t, "text", max, 4)
		count = uint64(len(content))
	case bits == 1:
		count = uint64(rapid.IntRange(0, max*4).Draw(t, "nbits"))
		nb := int((count + 7) / 8)
		content = rapid.SliceOfN(rapid.Byte(), nb, nb).Draw(t, "bits")
		if count%8 != 0 {
			content[nb-1] &= byte(1<<(count%8)) - 1
		}
	default:
		count = uint64(rapid.IntRange(0, max).Draw(t, "n"))
		nb := int(count * bits / 8)
		content = rapid.SliceOfN(rapid.Byte(), nb, nb).Draw(t, "bytes")
	}
	// whole forms
	if rapid.IntRange(0, 4).Draw(t, "whole") == 0 {
		c.Content = content
		c.Count = count
		c.Whole = "array"
		if str && c.Kind == "array" && rapid.Bool().Draw(t, "strform") {
			c.Whole = "string"
		}
		if c.Kind == "array" && !str && bits >= 8 && rapid.IntRange(0, 5).Draw(t, "miscount") == 0 {
			c.Count = count + uint64(rapid.IntRange(1, 2).Draw(t, "delta"))
		}
		return c
	}
	// chunking (units: elements; bytes for strings; bits for bit arrays)
	k := rapid.IntRange(1, 4).Draw(t, "k")
	cuts := []uint64{0}
	prev := uint64(0)
	charAligned := !str || rapid.IntRange(0, 9).Draw(t, "chunkalign") < 7
	for i := 1; i < k; i++ {
		cu := uint64(rapid.IntRange(int(prev), int(count)).Draw(t, "ccut"))
		if bits == 1 {
			cu -= cu % 8
		}
		if str && charAligned {
			for cu > 0 && cu < uint64(len(content)) && !utf8.RuneStart(content[cu]) {
				cu--
			}
		}
		if cu < prev {
			cu = prev
		}
		cuts = append(cuts, cu)
		prev = cu
	}
	cuts = append(cuts, count)
	align := 1
	if !str && bits > 8 {
		align = int(bits / 8)
	}
	for i := 0; i+1 < len(cuts); i++ {
		lo, hi := cuts[i], cuts[i+1]
		var b []byte
		if bits == 1 {
			b = content[lo/8 : (hi+7)/8]
		} else {
			b = content[lo*bits/8 : hi*bits/8]
		}
		ch := C11Chunk{Declared: hi - lo, More: i+2 < len(cuts)}
		// declared != delivered
		switch rapid.IntRange(0, 19).Draw(t, "mismatch") {
		case 0:
			ch.Declared++
		case 1:
			if ch.Declared > 0 {
				ch.Declared--
			}
		case 2:
			if bits == 1 {
				ch.Declared += 8
			}
		}
		ch.Data = splitBytes(t, "d1", b, align)
		ch.Data2 = splitBytes(t, "d2", b, align)
		c.Chunks = append(c.Chunks, ch)
	}
	if rapid.IntRange(0, 11).Draw(t, "nonfinal") == 0 {
		c.Chunks[len(c.Chunks)-1].More = true
	}
	return c
}

func harnessOpen(ctx *Ctx, key string) bool {
	if findingOpen(key) {
		ctx.Stats.Exclude(key)
		return true
	}
	return false
}

func c11Run(evs []ev.Event) (int, error) {
	return ev.Play(evs, ce.NewRules(nil, newCfg()))
}

func init() {
	Register(&Prop{
		ID:  "C11",
		New: func() interface{} { return &C11Case{} },
		Gen: genC11,
		Check: func(ci interface{}, ctx *Ctx) error {
			c := ci.(*C11Case)
			want := c11Model(c)
			str := c.stringy()
			multi := false
			for _, ch := range c.Chunks {
				if len(ch.Data) >= 2 || len(ch.Data2) >= 2 {
					multi = true
				}
			}
			hasMB := false
			for _, b := range c.Content {
				if b >= 0x80 {
					hasMB = true
				}
			}
			for _, ch := range c.Chunks {
				for _, d := range ch.Data {
					for _, b := range d {
						if b >= 0x80 {
							hasMB = true
						}
					}
				}
			}
			ctx.NonTrivial(len(c.Chunks) >= 2 || (multi && (hasMB || !str)))
			ctx.Label("kind:" + c.Kind)
			ctx.Label("pos:" + c.Pos)
			ctx.LabelIf(c.Whole != "", "whole")
			ctx.LabelIf(want, "model-accept")
			ctx.LabelIf(!want, "model-reject")
			ctx.LabelIf(str && hasMB && multi, "stringlike-multibyte-multi-data-events")
			if c.Kind == "array" {
				ctx.Label("array:" + events.ArrayType(c.AT).String())
			}
			e1 := c.events(false)
			i1, err1 := c11Run(e1)
			if (i1 < 0) != want {
				return fmt.Errorf("model verdict accept=%v but validator: rejected-at=%d (%v)\n%s", want, i1, err1, ev.ListString(e1))
			}
			if c.Whole == "" {
				e2 := c.events(true)
				i2, err2 := c11Run(e2)
				if (i2 < 0) != (i1 < 0) {
					return fmt.Errorf("verdict depends on the data-event split: first split rejected-at=%d (%v), second rejected-at=%d (%v)\n%s\n%s", i1, err1, i2, err2, ev.ListString(e1), ev.ListString(e2))
				}
			}
			return nil
		},
	})
}
