package props

import (
	"fmt"
	"reflect"
	"sort"

	"pgregory.net/rapid"
)

// C20 — shared and cyclic pointers survive a round trip with recursion support.
// Oracle M-ISO: a lockstep walk from the two roots must build a bijection between pointer identities.

type GInner struct {
	P *GNode
	N int
}

type GNode struct {
	ID    int
	Next  *GNode
	Kids  []*GNode
	Named map[string]*GNode
	Any   interface{}
	// pointers held inside by-value containers
	In   GInner
	Arr  [2]*GNode
	Vals []GInner
	// pointers to plain integers, shared between nodes and between the elements of a slice and a field: the
	// first occurrence of a shared integer is then an element in the middle of a list of scalars
	Counts []*int64
	Num    *int64
}

type C20NodeSpec struct {
	Next  int            `json:"next"` // -1 = nil
	Kids  []int          `json:"kids"`
	Named map[string]int `json:"named,omitempty"`
	Any   int            `json:"any"` // -1 nil, -2 scalar, >= 0 pointer to node
	In    int            `json:"in"`  // In.P: -1 nil
	Arr   [2]int         `json:"arr"` // -1 nil
	Vals  []int          `json:"vals,omitempty"`
	Num   int            `json:"num"` // index into the case's pool of shared integers, -1 nil
	// Counts: indices into the pool of shared integers (the slice of pointers written before Num)
	Counts []int `json:"counts,omitempty"`
}

// GRoot is a non-recursive wrapper written by value: with record types registered it is marshaled as a
// record whose direct fields are pointers - a shared or cyclic pointer then appears as a reference that
// is a direct field of a record.
type GRoot struct {
	A *GNode
	B *GNode
	C *GNode
}

type C20Case struct {
	Records bool          `json:"records,omitempty"` // GNode / GInner / GRoot registered as record types
	RootB   int           `json:"root_b,omitempty"`  // when > 0 the value marshaled is GRoot{A: node 0, B: node RootB-1, C: node RootC-1}
	RootC   int           `json:"root_c,omitempty"`
	Format  string        `json:"format"`
	Nodes   []C20NodeSpec `json:"nodes"`
	Nums    []int64       `json:"nums,omitempty"` // pool of integers that nodes point to (shared *int64)
}

func (c *C20Case) build() *GNode { return c.buildAll()[0] }

func (c *C20Case) buildAll() []*GNode {
	nodes := make([]*GNode, len(c.Nodes))
	for i := range nodes {
		nodes[i] = &GNode{ID: i}
	}
	nums := make([]*int64, len(c.Nums))
	for i := range nums {
		v := c.Nums[i]
		nums[i] = &v
	}
	for i, s := range c.Nodes {
		n := nodes[i]
		if s.In >= 0 {
			n.In = GInner{P: nodes[s.In], N: i}
		}
		for j, a := range s.Arr {
			if a >= 0 {
				n.Arr[j] = nodes[a]
			}
		}
		for _, v := range s.Vals {
			n.Vals = append(n.Vals, GInner{P: nodes[v], N: v})
		}
		if s.Num >= 0 && s.Num < len(nums) {
			n.Num = nums[s.Num]
		}
		for _, k := range s.Counts {
			if k >= 0 && k < len(nums) {
				n.Counts = append(n.Counts, nums[k])
			}
		}
		if s.Next >= 0 {
			n.Next = nodes[s.Next]
		}
		if len(s.Kids) > 0 {
			n.Kids = make([]*GNode, len(s.Kids))
			for j, k := range s.Kids {
				if k >= 0 {
					n.Kids[j] = nodes[k]
				}
			}
		}
		if len(s.Named) > 0 {
			n.Named = map[string]*GNode{}
			for k, v := range s.Named {
				n.Named[k] = nodes[v]
			}
		}
		switch {
		case s.Any >= 0:
			n.Any = nodes[s.Any]
		case s.Any == -2:
			n.Any = int64(i + 1000)
		}
	}
	return nodes
}

// reachable computes features of the graph reachable from node 0.
func (c *C20Case) features() (shared bool, cyclic bool) {
	indeg := map[int]int{}
	state := map[int]int{} // 0 unseen 1 on stack 2 done
	var dfs func(i int)
	dfs = func(i int) {
		state[i] = 1
		s := c.Nodes[i]
		var outs []int
		if s.Next >= 0 {
			outs = append(outs, s.Next)
		}
		for _, k := range s.Kids {
			if k >= 0 {
				outs = append(outs, k)
			}
		}
		keys := make([]string, 0, len(s.Named))
		for k := range s.Named {
			keys = append(keys, k)
		}
		sort.Strings(keys)
		for _, k := range keys {
			outs = append(outs, s.Named[k])
		}
		if s.Any >= 0 {
			outs = append(outs, s.Any)
		}
		if s.In >= 0 {
			outs = append(outs, s.In)
		}
		for _, a := range s.Arr {
			if a >= 0 {
				outs = append(outs, a)
			}
		}
		outs = append(outs, s.Vals...)
		for _, o := range outs {
			indeg[o]++
			if indeg[o] > 1 {
				shared = true
			}
			switch state[o] {
			case 0:
				dfs(o)
			case 1:
				cyclic = true
			}
		}
		state[i] = 2
	}
	indeg[0] = 1
	dfs(0)
	return
}

// isoNums: bijection between the shared *int64 of the original and of the copy (reset per case).
var isoNums = map[*int64]*int64{}

// isoNum: one shared integer of the original against the copy's: same value, and the same identity pattern.
func isoNum(a, b *int64, path string) error {
	if (a == nil) != (b == nil) {
		return fmt.Errorf("%s: nil-ness differs", path)
	}
	if a == nil {
		return nil
	}
	if *a != *b {
		return fmt.Errorf("%s: %d, expected %d", path, *b, *a)
	}
	if m, ok := isoNums[a]; ok {
		if m != b {
			return fmt.Errorf("%s: the original shares this integer with another place, the copy does not", path)
		}
		return nil
	}
	for oa, ob := range isoNums {
		if ob == b && oa != a {
			return fmt.Errorf("%s: the copy shares an integer where the original has two distinct ones", path)
		}
	}
	isoNums[a] = b
	return nil
}

func iso(a, b *GNode, fwd, rev map[*GNode]*GNode, path string) error {
	if a == nil || b == nil {
		if a != b {
			return fmt.Errorf("%s: nil-ness differs (original nil=%v, copy nil=%v)", path, a == nil, b == nil)
		}
		return nil
	}
	if m, ok := fwd[a]; ok {
		if m != b {
			return fmt.Errorf("%s: the original reaches node %d, which it also reaches elsewhere, but the copy has a different object here (sharing lost)", path, a.ID)
		}
		return nil
	}
	if m, ok := rev[b]; ok && m != a {
		return fmt.Errorf("%s: the copy shares an object (ID %d) where the original has two distinct nodes %d and %d", path, b.ID, m.ID, a.ID)
	}
	fwd[a], rev[b] = b, a
	if a.ID != b.ID {
		return fmt.Errorf("%s: ID %d, expected %d", path, b.ID, a.ID)
	}
	if err := iso(a.Next, b.Next, fwd, rev, path+".Next"); err != nil {
		return err
	}
	if err := iso(a.In.P, b.In.P, fwd, rev, path+".In.P"); err != nil {
		return err
	}
	if a.In.N != b.In.N {
		return fmt.Errorf("%s.In.N: %d, expected %d", path, b.In.N, a.In.N)
	}
	for i := range a.Arr {
		if err := iso(a.Arr[i], b.Arr[i], fwd, rev, fmt.Sprintf("%s.Arr[%d]", path, i)); err != nil {
			return err
		}
	}
	if len(a.Vals) != len(b.Vals) {
		return fmt.Errorf("%s.Vals: %d elements, expected %d", path, len(b.Vals), len(a.Vals))
	}
	for i := range a.Vals {
		if a.Vals[i].N != b.Vals[i].N {
			return fmt.Errorf("%s.Vals[%d].N: %d, expected %d", path, i, b.Vals[i].N, a.Vals[i].N)
		}
		if err := iso(a.Vals[i].P, b.Vals[i].P, fwd, rev, fmt.Sprintf("%s.Vals[%d].P", path, i)); err != nil {
			return err
		}
	}
	if len(a.Counts) != len(b.Counts) {
		return fmt.Errorf("%s.Counts: %d elements, expected %d", path, len(b.Counts), len(a.Counts))
	}
	for i := range a.Counts {
		if err := isoNum(a.Counts[i], b.Counts[i], fmt.Sprintf("%s.Counts[%d]", path, i)); err != nil {
			return err
		}
	}
	if err := isoNum(a.Num, b.Num, path+".Num"); err != nil {
		return err
	}
	if len(a.Kids) != len(b.Kids) {
		return fmt.Errorf("%s.Kids: %d elements, expected %d", path, len(b.Kids), len(a.Kids))
	}
	for i := range a.Kids {
		if err := iso(a.Kids[i], b.Kids[i], fwd, rev, fmt.Sprintf("%s.Kids[%d]", path, i)); err != nil {
			return err
		}
	}
	if len(a.Named) != len(b.Named) {
		return fmt.Errorf("%s.Named: %d entries, expected %d", path, len(b.Named), len(a.Named))
	}
	keys := make([]string, 0, len(a.Named))
	for k := range a.Named {
		keys = append(keys, k)
	}
	sort.Strings(keys)
	for _, k := range keys {
		bv, ok := b.Named[k]
		if !ok {
			return fmt.Errorf("%s.Named: key %q missing", path, k)
		}
		if err := iso(a.Named[k], bv, fwd, rev, fmt.Sprintf("%s.Named[%s]", path, k)); err != nil {
			return err
		}
	}
	switch av := a.Any.(type) {
	case nil:
		if b.Any != nil {
			return fmt.Errorf("%s.Any: %T, expected nil", path, b.Any)
		}
	case *GNode:
		bv, ok := b.Any.(*GNode)
		if !ok {
			return fmt.Errorf("%s.Any: %T, expected *GNode", path, b.Any)
		}
		return iso(av, bv, fwd, rev, path+".Any")
	default:
		ar, _ := ratOfAny(a.Any)
		br, ok := ratOfAny(b.Any)
		if !ok || ar.Cmp(br) != 0 {
			return fmt.Errorf("%s.Any: %v (%T), expected %v", path, b.Any, b.Any, a.Any)
		}
	}
	return nil
}

func init() {
	Register(&Prop{
		ID:  "C20",
		New: func() interface{} { return &C20Case{} },
		Gen: func(t *rapid.T, ctx *Ctx) interface{} {
			c := &C20Case{Format: rapid.SampledFrom([]string{"cbe", "cte"}).Draw(t, "format")}
			c.Records = rapid.IntRange(0, 3).Draw(t, "records") == 0
			wrapRoot := rapid.IntRange(0, 3).Draw(t, "wraproot") == 0
			n := rapid.IntRange(1, 12).Draw(t, "n")
			pickNode := func(label string) int { return rapid.IntRange(0, n-1).Draw(t, label) }
			byValue := !findingOpen("S80-pointers-inside-by-value-containers")
			if !byValue {
				ctx.Stats.Exclude("S80-pointers-inside-by-value-containers")
			}
			for i, k := 0, rapid.IntRange(0, 4).Draw(t, "nnums"); i < k; i++ {
				c.Nums = append(c.Nums, rapid.SampledFrom([]int64{0, 5, 100, 101, 300, -7, 70000, 1 << 40, -(1 << 40)}).Draw(t, "numv"))
			}
			for i := 0; i < n; i++ {
				s := C20NodeSpec{Next: -1, Any: -1, In: -1, Arr: [2]int{-1, -1}, Num: -1}
				if byValue && rapid.IntRange(0, 3).Draw(t, "hasin") == 0 {
					s.In = pickNode("in")
				}
				if byValue {
					for j := range s.Arr {
						if rapid.IntRange(0, 3).Draw(t, "hasarr") == 0 {
							s.Arr[j] = pickNode("arr")
						}
					}
					for j, k := 0, rapid.IntRange(0, 2).Draw(t, "nvals")*rapid.IntRange(0, 1).Draw(t, "hasvals"); j < k; j++ {
						s.Vals = append(s.Vals, pickNode("val"))
					}
				}
				if len(c.Nums) > 0 && rapid.IntRange(0, 2).Draw(t, "hasnum") == 0 {
					s.Num = rapid.IntRange(0, len(c.Nums)-1).Draw(t, "num")
				}
				if len(c.Nums) > 0 && rapid.IntRange(0, 2).Draw(t, "hascounts") == 0 {
					for j, k := 0, rapid.IntRange(1, 4).Draw(t, "ncounts"); j < k; j++ {
						s.Counts = append(s.Counts, rapid.IntRange(0, len(c.Nums)-1).Draw(t, "count"))
					}
				}
				if rapid.IntRange(0, 2).Draw(t, "hasnext") != 0 {
					s.Next = pickNode("next")
				}
				nk := rapid.IntRange(0, 3).Draw(t, "nkids")
				if rapid.IntRange(0, 3).Draw(t, "manykids") == 0 {
					nk = rapid.IntRange(4, 18).Draw(t, "nkids2") // slices that grow past their capacity while references are pending
				}
				for j, k := 0, nk; j < k; j++ {
					if rapid.IntRange(0, 7).Draw(t, "nilkid") == 0 {
						s.Kids = append(s.Kids, -1)
					} else {
						s.Kids = append(s.Kids, pickNode("kid"))
					}
				}
				if rapid.IntRange(0, 3).Draw(t, "hasnamed") == 0 {
					s.Named = map[string]int{}
					for j, k := 0, rapid.IntRange(1, 3).Draw(t, "nnamed"); j < k; j++ {
						s.Named[rapid.SampledFrom([]string{"a", "b", "c", "long_key_name_over_15_bytes"}).Draw(t, "nkey")] = pickNode("nval")
					}
				}
				// interface{} fields hold nil or a scalar only: a struct first met behind an interface{}
				// has no static type to be rebuilt into, so a pointer there cannot round-trip by design
				if rapid.IntRange(0, 2).Draw(t, "any") == 0 {
					s.Any = -2
				}
				c.Nodes = append(c.Nodes, s)
			}
			if wrapRoot {
				c.RootB = 1 + pickNode("rootb")
				c.RootC = 1 + pickNode("rootc")
			}
			return c
		},
		Check: func(ci interface{}, ctx *Ctx) error {
			c := ci.(*C20Case)
			cfg := newCfg()
			cfg.Iterator.RecursionSupport = true
			if c.Records {
				cfg.Iterator.RecordTypes[reflect.TypeOf(GNode{})] = "node"
				cfg.Iterator.RecordTypes[reflect.TypeOf(GInner{})] = "inner"
				cfg.Iterator.RecordTypes[reflect.TypeOf(GRoot{})] = "root"
				ctx.Label("record-types")
			}
			shared, cyclic := c.features()
			ctx.NonTrivial(shared || cyclic)
			ctx.LabelIf(shared, "shared")
			ctx.LabelIf(cyclic, "cyclic")
			for _, n := range c.Nodes {
				if len(n.Kids) > 4 {
					ctx.Label("slice > 4 pointers")
					break
				}
			}
			ctx.Label("format:" + c.Format)
			if c.RootB > 0 && c.RootB <= len(c.Nodes) && c.RootC > 0 && c.RootC <= len(c.Nodes) {
				// the wrapper by value: its direct fields are (possibly shared) pointers
				ctx.Label("root wrapped in a by-value struct")
				nodes := c.buildAll()
				w := GRoot{A: nodes[0], B: nodes[c.RootB-1], C: nodes[c.RootC-1]}
				doc, err, bad := marshalDoc(ctx, c.Format, w, cfg)
				if bad != nil {
					return bad
				}
				if err != nil {
					return fmt.Errorf("marshal of a pointer graph failed: %v", err)
				}
				res, err, bad := unmarshalDoc(ctx, c.Format, doc, GRoot{}, cfg)
				if bad != nil {
					return fmt.Errorf("%v\ndoc=%s", bad, docdump(c.Format, doc))
				}
				if err != nil {
					return fmt.Errorf("unmarshal of the marshaled graph failed: %v\ndoc=%s", err, docdump(c.Format, doc))
				}
				var cp GRoot
				switch r := res.(type) {
				case GRoot:
					cp = r
				case *GRoot:
					cp = *r
				default:
					return fmt.Errorf("result is a %v, expected GRoot", reflect.TypeOf(res))
				}
				isoNums = map[*int64]*int64{}
				fwd, rev := map[*GNode]*GNode{}, map[*GNode]*GNode{}
				for _, p := range []struct {
					name string
					a, b *GNode
				}{{"$.A", w.A, cp.A}, {"$.B", w.B, cp.B}, {"$.C", w.C, cp.C}} {
					if err := iso(p.a, p.b, fwd, rev, p.name); err != nil {
						return fmt.Errorf("graph shape changed: %v\ndoc=%s", err, docdump(c.Format, doc))
					}
				}
				return nil
			}
			root := c.build()
			doc, err, bad := marshalDoc(ctx, c.Format, root, cfg)
			if bad != nil {
				return bad
			}
			if err != nil {
				return fmt.Errorf("marshal of a pointer graph failed: %v", err)
			}
			res, err, bad := unmarshalDoc(ctx, c.Format, doc, (*GNode)(nil), cfg)
			if bad != nil {
				return fmt.Errorf("%v\ndoc=%s", bad, docdump(c.Format, doc))
			}
			if err != nil {
				return fmt.Errorf("unmarshal of the marshaled graph failed: %v\ndoc=%s", err, docdump(c.Format, doc))
			}
			cp, ok := res.(*GNode)
			if !ok {
				return fmt.Errorf("result is a %v, expected *GNode", reflect.TypeOf(res))
			}
			isoNums = map[*int64]*int64{}
			if err := iso(root, cp, map[*GNode]*GNode{}, map[*GNode]*GNode{}, "$"); err != nil {
				return fmt.Errorf("graph shape changed: %v\ndoc=%s", err, docdump(c.Format, doc))
			}
			return nil
		},
	})
}
