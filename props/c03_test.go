package props

import (
	"bytes"
	"fmt"
	"math/big"
	"strings"

	"github.com/cockroachdb/apd/v2"
	compact_float "github.com/kstenerud/go-compact-float"
	compact_time "github.com/kstenerud/go-compact-time"
	"github.com/kstenerud/go-concise-encoding/ce/events"
	"pgregory.net/rapid"

	"verif/internal/canon"
	"verif/internal/ev"
	"verif/internal/gen"
)

// C03 — CBE and CTE are 1:1 convertible. Every document the CBE decoder + rules accept converts,
// through the CTE encoder, into a CTE document that the CTE decoder + rules accept and that carries
// the same data, and converting that back to CBE reproduces the data again; every accepted CTE
// document without custom text converts to an accepted CBE document with the same data apart from
// comments.
//
// Domain: documents are byte strings (CBE) / texts (CTE); a case is only judged when the first decoder
// + rules accept it (the acceptance rate is reported). Sources: encoder output for G-EV streams drawn
// from the WIDE alphabet (media types, area/location names, identifiers from everything the validator
// might accept), and byte-level mutations of such documents.

type C03Case struct {
	Side string `json:"side"` // bin | text
	Doc  []byte `json:"doc"`
	Note string `json:"note,omitempty"`
}

func c03Opts(ctx *Ctx, text bool) gen.EvOpts {
	o := gen.EvOpts{Comments: text, Padding: !text, CustomBinary: true, Media: true, Markers: true, Records: true, RemoteRef: true, FullUnicode: true,
		Chunked: true, MaxDepth: 4, MaxArr: 30, Budget: 20}
	if ctx.Thorough() {
		o.MaxArr, o.Budget = 300, 60
	}
	avoid(ctx, &o, "S36-marker-inside-marked-container", "S37-marked-chunked-key")
	return o
}

// narrow reports whether the wide-alphabet features of a stream all stay inside what the CTE grammar
// can spell (used for labelling and for the known-finding exclusion).
func c03WideFeatures(evs []ev.Event) (labels []string) {
	seen := map[string]bool{}
	add := func(l string) {
		if !seen[l] {
			seen[l] = true
			labels = append(labels, l)
		}
	}
	for i := range evs {
		e := &evs[i]
		switch e.K {
		case ev.Media, ev.MediaBegin:
			if !cteCanSpellMediaType(e.S) {
				add("wide:media-type")
			}
		case ev.Time:
			if e.T.Timezone.Type == compact_time.TimezoneTypeAreaLocation && !cteCanSpellAreaLocation(e.T.Timezone.LongAreaLocation) { // area/location
				add("wide:area-location")
			}
		case ev.Marker, ev.RefLocal, ev.RecordType, ev.Record:
			for _, r := range string(e.Bs) {
				if r >= 0x80 {
					add("wide:non-ascii-identifier")
					break
				}
			}
		}
	}
	return
}

// c03HasHugeCoefficient: a big decimal float whose coefficient needs more than 448 bits (the region of
// the open finding S71: go-uleb128 cannot encode it).
func c03HasHugeCoefficient(evs []ev.Event) bool {
	for i := range evs {
		if evs[i].K == ev.BigDFloat && evs[i].BDF != nil && evs[i].BDF.Coeff.BitLen() > 448 {
			return true
		}
	}
	return false
}

// c03HasExtremeBigFloat: a big float whose binary exponent is beyond +-20000 (region of the open finding S75).
func c03HasExtremeBigFloat(evs []ev.Event) bool {
	for i := range evs {
		if evs[i].K == ev.BigFloat && evs[i].BF != nil {
			if e := evs[i].BF.MantExp(nil); e > 20000 || e < -20000 {
				return true
			}
		}
	}
	return false
}

func isAlpha(c byte) bool { return (c >= 'a' && c <= 'z') || (c >= 'A' && c <= 'Z') }
func isDigit(c byte) bool { return c >= '0' && c <= '9' }

// cteCanSpellMediaType: the MEDIA_TYPE fragment of CTELexer.g4.
func cteCanSpellMediaType(s string) bool {
	next := func(c byte) bool { return isAlpha(c) || isDigit(c) || strings.IndexByte("!#$%&'*+.^_`|~{}-", c) >= 0 }
	slash := strings.IndexByte(s, '/')
	if slash < 1 || slash == len(s)-1 || !isAlpha(s[0]) {
		return false
	}
	for i := 1; i < slash; i++ {
		if !next(s[i]) {
			return false
		}
	}
	for i := slash + 1; i < len(s); i++ {
		if !next(s[i]) {
			return false
		}
	}
	return true
}

// cteCanSpellAreaLocation: the TZ_AREALOC fragment of CTELexer.g4.
func cteCanSpellAreaLocation(s string) bool {
	if len(s) == 0 || s[0] < 'A' || s[0] > 'Z' {
		return false
	}
	for i := 1; i < len(s); i++ {
		c := s[i]
		if !(isAlpha(c) || isDigit(c) || c == '_' || c == '-' || c == '.' || c == '/' || c == '+') {
			return false
		}
	}
	return true
}

func genC03(t *rapid.T, ctx *Ctx) interface{} {
	gen.WideNames = true
	c := &C03Case{Side: rapid.SampledFrom([]string{"bin", "bin", "text"}).Draw(t, "side")}
	cfg := newCfg()
	text := c.Side == "text"
	evs := gen.Document(t, c03Opts(ctx, text))
	var doc []byte
	var idx int
	if text {
		doc, idx, _ = encodeCTE(evs, cfg)
	} else {
		doc, idx, _ = encodeCBE(evs, cfg)
	}
	if idx >= 0 || len(doc) < 2 {
		// the validator rejects this wide-alphabet stream: fall back to a fixed valid document (counted)
		c.Note = "generator-rejected"
		if text {
			doc = []byte("c0\n[1 2 3]")
		} else {
			doc = []byte{0x81, 0x00, 0x9a, 0x01, 0x9b}
		}
	}
	if rapid.IntRange(0, 9).Draw(t, "keyspellings") == 0 {
		// a map / record type whose keys use every spelling either format offers (integer widths,
		// big-integer forms with leading zero bytes, bases, separators, chunked strings, markers), colliding
		// or not: the two decoders must agree on which of these documents are valid
		if text {
			doc = genC12Case(t, "cte").cteDoc()
		} else {
			doc = genC12Case(t, "cbe").cbeDoc()
		}
		c.Note = "key-spellings"
	}
	if text && rapid.IntRange(0, 3).Draw(t, "relayout") == 0 {
		// the same text laid out differently: the line breaks of the encoder's output (which fall between
		// tokens, or inside a string / comment, where the result is simply another document) replaced by
		// other white space or by comments. Only what the CTE decoder accepts is judged, as always.
		var sb bytes.Buffer
		for _, b := range doc {
			if b == '\n' && rapid.IntRange(0, 2).Draw(t, "relayout.at") == 0 {
				sb.WriteString(rapid.SampledFrom([]string{"\r\n", "\n\t", " ", "  \n", "\n// c\n", " /* c */ ", "\n\n", "\n/* a /* nested */ b */\n", "\t", "\n //\n"}).Draw(t, "relayout.ws"))
				continue
			}
			sb.WriteByte(b)
		}
		doc = sb.Bytes()
		c.Note += " relayout"
	}
	if rapid.IntRange(0, 3).Draw(t, "mutate") == 0 {
		other, _, _ := encodeCBE(gen.Document(t, c03Opts(ctx, false)), cfg)
		if text {
			other, _, _ = encodeCTE(gen.Document(t, c03Opts(ctx, true)), cfg)
		}
		var n string
		doc, n = gen.Mutate(t, doc, other, !text)
		c.Note += " mutated: " + n
	}
	c.Doc = doc
	return c
}

// c03Check is the oracle for one document.
func c03Check(ci interface{}, ctx *Ctx) error {
	c := ci.(*C03Case)
	cfg := newCfg()
	ctx.Label("side:" + c.Side)
	ctx.LabelIf(strings.Contains(c.Note, "mutated"), "mutated")
	ctx.LabelIf(strings.Contains(c.Note, "generator-rejected"), "generator-rejected")
	ctx.LabelIf(strings.Contains(c.Note, "key-spellings"), "key-spellings")
	ctx.LabelIf(strings.Contains(c.Note, "relayout"), "relayout")
	doc := append([]byte{}, c.Doc...)
	guard := func(what string, f func()) error {
		o := ctx.Guard(f)
		if o.TimedOut || o.Panic != nil {
			return fmt.Errorf("%s: %v", what, o)
		}
		return nil
	}
	var e1 []ev.Event
	var err error
	if c.Side == "bin" {
		// ---- CBE -> CTE -> CBE
		if g := guard("CBE decoder", func() { e1, err = decodeCBE(doc, cfg) }); g != nil {
			ctx.Hung, ctx.Abandoned = false, true // the first decoder hanging is C07's business
			return nil
		}
		if err != nil {
			ctx.Label("first-decoder-rejects")
			return nil
		}
		ctx.Label("first-decoder-accepts")
		for _, l := range c03WideFeatures(e1) {
			ctx.Label(l)
		}
		if key := "S27-cbe-accepts-names-cte-cannot-spell"; findingOpen(key) && !ctx.Replaying {
			if w := c03WideFeatures(e1); containsStr(w, "wide:media-type") || containsStr(w, "wide:area-location") {
				ctx.Stats.Exclude(key)
				return nil
			}
		}
		if key := "S71-uleb128-coefficient-over-448-bits"; findingOpen(key) && !ctx.Replaying && c03HasHugeCoefficient(e1) {
			ctx.Stats.Exclude(key)
			return nil
		}
		ctx.NonTrivial(len(e1) >= 6)
		var text []byte
		var idx int
		var eerr error
		if g := guard("CTE encoder", func() { text, idx, eerr = encodeCTE(e1, cfg) }); g != nil {
			return fmt.Errorf("%v\ncbe=%s", g, hexdump(c.Doc))
		}
		if idx >= 0 {
			return fmt.Errorf("an accepted CBE document cannot be written as CTE: the CTE encoder (behind rules) failed at event %d (%v): %v\ncbe=%s", idx, e1[idx], eerr, hexdump(c.Doc))
		}
		var e2 []ev.Event
		if g := guard("CTE decoder", func() { e2, err = decodeCTE(text, cfg) }); g != nil {
			return fmt.Errorf("%v\ncbe=%s\ncte=%s", g, hexdump(c.Doc), textdump(text))
		}
		if err != nil {
			return fmt.Errorf("the CTE written for an accepted CBE document is rejected by the CTE decoder + rules: %v\ncbe=%s\ncte=%s", err, hexdump(c.Doc), textdump(text))
		}
		t1, err := buildTree(e1, canon.Opts{DropPadding: true, DropComments: true})
		if err != nil {
			return fmt.Errorf("harness: decoded CBE events do not parse: %v\n%s", err, ev.ListString(e1))
		}
		t2, err := buildTree(e2, canon.Opts{DropPadding: true, DropComments: true})
		if err != nil {
			return fmt.Errorf("decoded CTE events are not a well-formed document: %v", err)
		}
		if d := canon.Diff(t1, t2, canon.EqOpts{FloatArrayNaNKind: true}); d != "" {
			return fmt.Errorf("CBE -> CTE changed the data: %s\ncbe=%s\ncte=%s", d, hexdump(c.Doc), textdump(text))
		}
		var back []byte
		if g := guard("CBE encoder", func() { back, idx, eerr = encodeCBE(e2, cfg) }); g != nil {
			return g
		}
		if idx >= 0 {
			return fmt.Errorf("the CTE form cannot be converted back to CBE: encoder failed at event %d (%v): %v\ncte=%s", idx, e2[idx], eerr, textdump(text))
		}
		var e3 []ev.Event
		if g := guard("CBE decoder", func() { e3, err = decodeCBE(back, cfg) }); g != nil {
			return g
		}
		if err != nil {
			return fmt.Errorf("CBE -> CTE -> CBE: the final CBE document is rejected: %v\ncbe=%s\ncte=%s\ncbe2=%s", err, hexdump(c.Doc), textdump(text), hexdump(back))
		}
		t3, err := buildTree(e3, canon.Opts{DropPadding: true, DropComments: true})
		if err != nil {
			return fmt.Errorf("final CBE events are not a well-formed document: %v", err)
		}
		if d := canon.Diff(t1, t3, canon.EqOpts{FloatArrayNaNKind: true, TolBigFloat: true}); d != "" {
			return fmt.Errorf("CBE -> CTE -> CBE changed the data: %s\ncbe=%s\ncte=%s\ncbe2=%s", d, hexdump(c.Doc), textdump(text), hexdump(back))
		}
		return nil
	}
	// ---- CTE -> CBE
	if g := guard("CTE decoder", func() { e1, err = decodeCTE(doc, cfg) }); g != nil {
		ctx.Hung, ctx.Abandoned = false, true
		return nil
	}
	if err != nil {
		ctx.Label("first-decoder-rejects")
		return nil
	}
	for i := range e1 {
		if e1[i].K == ev.CustomText || (e1[i].K == ev.CustomBegin && e1[i].AT == 4) {
			ctx.Label("custom-text-skipped")
			return nil
		}
	}
	ctx.Label("first-decoder-accepts")
	if key := "S71-uleb128-coefficient-over-448-bits"; findingOpen(key) && !ctx.Replaying && c03HasHugeCoefficient(e1) {
		ctx.Stats.Exclude(key)
		return nil
	}
	if findingOpen(s75) && !ctx.Replaying && c03HasExtremeBigFloat(e1) {
		ctx.Stats.Exclude(s75)
		return nil
	}
	ctx.NonTrivial(len(e1) >= 6)
	var bin []byte
	var idx int
	var eerr error
	if g := guard("CBE encoder", func() { bin, idx, eerr = encodeCBE(e1, cfg) }); g != nil {
		return fmt.Errorf("%v\ncte=%s", g, textdump(c.Doc))
	}
	if idx >= 0 {
		return fmt.Errorf("an accepted CTE document cannot be written as CBE: the CBE encoder (behind rules) failed at event %d (%v): %v\ncte=%s", idx, e1[idx], eerr, textdump(c.Doc))
	}
	var e2 []ev.Event
	if g := guard("CBE decoder", func() { e2, err = decodeCBE(bin, cfg) }); g != nil {
		return g
	}
	if err != nil {
		return fmt.Errorf("the CBE written for an accepted CTE document is rejected by the CBE decoder + rules: %v\ncte=%s\ncbe=%s", err, textdump(c.Doc), hexdump(bin))
	}
	t1, err := buildTree(e1, canon.Opts{DropPadding: true, DropComments: true})
	if err != nil {
		return fmt.Errorf("harness: decoded CTE events do not parse: %v\n%s", err, ev.ListString(e1))
	}
	t2, err := buildTree(e2, canon.Opts{DropPadding: true, DropComments: true})
	if err != nil {
		return fmt.Errorf("decoded CBE events are not a well-formed document: %v", err)
	}
	if d := canon.Diff(t1, t2, canon.EqOpts{FloatArrayNaNKind: true, TolBigFloat: true}); d != "" {
		return fmt.Errorf("CTE -> CBE changed the data: %s\ncte=%s\ncbe=%s", d, textdump(c.Doc), hexdump(bin))
	}
	return nil
}

func init() {
	Register(&Prop{
		ID:  "C03",
		New: func() interface{} { return &C03Case{} },
		Gen: genC03,
		FromBytes: func(data []byte) interface{} {
			if len(data) < 3 {
				return nil
			}
			side := "bin"
			if data[0] == 'c' || data[0] == 'C' {
				side = "text"
			}
			return &C03Case{Side: side, Doc: append([]byte{}, data...), Note: "native-fuzz"}
		},
		FuzzSeeds: func() [][]byte { return fuzzSeedDocs(0) },
		Fixed:     c03LengthSweep,
		Check:     c03Check,
	})
}

// c03LengthSweep is the deterministic part: every length-carrying item at every length around the sizes
// at which either encoder switches form or grows its buffer (0..130 bytes / elements; 1..127 for the
// items whose length is limited to 127), each followed by a small integer so that a length that is off by
// one shows as a changed neighbour. Both directions, every shard takes its share.
// sweepFamily is one length-carrying or value-carrying item swept over a range (n = length, or index into a
// list of boundary values).
type sweepFamily struct {
	name     string
	min, max int
	item     func(n int) []ev.Event
}

// sweepFamilies lists the boundary sweeps shared by C01, C02 and C03.
func sweepFamilies() []sweepFamily {
	type family = sweepFamily
	rep := func(n int, s string) []byte { return []byte(strings.Repeat(s, n)) }
	name := func(n int) string { return "A" + strings.Repeat("b", n-1) }
	tm := func(t compact_time.Time) []ev.Event { return []ev.Event{{K: ev.Time, T: t}} }
	fams := []family{
		{"string", 0, 130, func(n int) []ev.Event {
			return []ev.Event{{K: ev.Array, AT: events.ArrayTypeString, U: uint64(n), Bs: rep(n, "s")}}
		}},
		{"resource-id", 0, 130, func(n int) []ev.Event {
			return []ev.Event{{K: ev.Array, AT: events.ArrayTypeResourceID, U: uint64(n), Bs: rep(n, "r")}}
		}},
		{"uint8-array", 0, 130, func(n int) []ev.Event {
			return []ev.Event{{K: ev.Array, AT: events.ArrayTypeUint8, U: uint64(n), Bs: rep(n, "\x07")}}
		}},
		{"uint16-array", 0, 70, func(n int) []ev.Event {
			return []ev.Event{{K: ev.Array, AT: events.ArrayTypeUint16, U: uint64(n), Bs: rep(2*n, "\x07")}}
		}},
		{"float64-array", 0, 40, func(n int) []ev.Event {
			return []ev.Event{{K: ev.Array, AT: events.ArrayTypeFloat64, U: uint64(n), Bs: rep(8*n, "\x01")}}
		}},
		{"bit-array", 0, 130, func(n int) []ev.Event {
			return []ev.Event{{K: ev.Array, AT: events.ArrayTypeBit, U: uint64(n), Bs: make([]byte, (n+7)/8)}}
		}},
		{"custom-binary", 0, 130, func(n int) []ev.Event { return []ev.Event{{K: ev.CustomBinary, U: 5, Bs: rep(n, "\x09")}} }},
		{"media", 0, 130, func(n int) []ev.Event { return []ev.Event{{K: ev.Media, S: "a/b", Bs: rep(n, "\x09")}} }},
		{"media-type", 3, 127, func(n int) []ev.Event {
			return []ev.Event{{K: ev.Media, S: "a/" + strings.Repeat("b", n-2), Bs: []byte{1, 2}}}
		}},
		{"marker-id", 1, 127, func(n int) []ev.Event { return []ev.Event{{K: ev.Marker, Bs: []byte(name(n))}, {K: ev.Int, I: 1}} }},
		{"big-int-bytes", 1, 70, func(n int) []ev.Event {
			return []ev.Event{{K: ev.BigInt, Big: new(big.Int).Lsh(big.NewInt(0x81), uint(8*(n-1)))}}
		}},
		{"negative-big-int-bytes", 1, 70, func(n int) []ev.Event {
			return []ev.Event{{K: ev.BigInt, Big: new(big.Int).Neg(new(big.Int).Lsh(big.NewInt(0x81), uint(8*(n-1))))}}
		}},
		{"time-zone/time", 1, 127, func(n int) []ev.Event {
			return tm(compact_time.NewTime(10, 0, 0, 0, compact_time.TZAtAreaLocation(name(n))))
		}},
		{"time-zone/time-ns", 1, 127, func(n int) []ev.Event {
			return tm(compact_time.NewTime(10, 0, 0, 123456789, compact_time.TZAtAreaLocation(name(n))))
		}},
		{"time-zone/timestamp", 1, 127, func(n int) []ev.Event {
			return tm(compact_time.NewTimestamp(2020, 1, 1, 10, 0, 0, 0, compact_time.TZAtAreaLocation(name(n))))
		}},
		{"time-zone/timestamp-ms", 1, 127, func(n int) []ev.Event {
			return tm(compact_time.NewTimestamp(2020, 1, 1, 10, 0, 0, 123000000, compact_time.TZAtAreaLocation(name(n))))
		}},
		{"time-zone/timestamp-us", 1, 127, func(n int) []ev.Event {
			return tm(compact_time.NewTimestamp(2020, 1, 1, 10, 0, 0, 123456000, compact_time.TZAtAreaLocation(name(n))))
		}},
		{"time-zone/timestamp-ns", 1, 127, func(n int) []ev.Event {
			return tm(compact_time.NewTimestamp(2020, 1, 1, 10, 0, 0, 123456789, compact_time.TZAtAreaLocation(name(n))))
		}},
		{"time-zone/timestamp-far-year", 1, 127, func(n int) []ev.Event {
			return tm(compact_time.NewTimestamp(-500000, 12, 31, 23, 59, 59, 1, compact_time.TZAtAreaLocation(name(n))))
		}},
	}
	// value sweeps ("length" = index into a list of boundary values)
	bigDecExps := []int32{-2147483648, -2147483647, -1000000000, -524972, -100200, -100001, -100000, -99999, -99990, -6, 0, 5, 99990, 99999, 100000, 100001,
		100200, 524972, 1000000000, 2147483646, 2147483647}
	coeff := func(digits int) *big.Int {
		v, _ := new(big.Int).SetString("7"+strings.Repeat("3", digits-2)+"1", 10)
		return v
	}
	for _, digits := range []int{20, 27, 100} {
		digits := digits
		fams = append(fams, family{fmt.Sprintf("big-decimal-exponent/%d-digit-coefficient", digits), 0, len(bigDecExps) - 1, func(n int) []ev.Event {
			d := &apd.Decimal{Exponent: bigDecExps[n]}
			d.Coeff.Set(coeff(digits))
			d.Negative = n%2 == 1
			return []ev.Event{{K: ev.BigDFloat, BDF: d}}
		}})
	}
	// coefficients with trailing zeros (an encoder that reduces them moves the exponent)
	for _, zeros := range []int{3, 30} {
		zeros := zeros
		fams = append(fams, family{fmt.Sprintf("big-decimal-exponent/coefficient-with-%d-trailing-zeros", zeros), 0, len(bigDecExps) - 1, func(n int) []ev.Event {
			d := &apd.Decimal{Exponent: bigDecExps[n]}
			d.Coeff.SetString("73000000000000000001"+strings.Repeat("0", zeros), 10)
			return []ev.Event{{K: ev.BigDFloat, BDF: d}}
		}})
		fams = append(fams, family{fmt.Sprintf("big-decimal-exponent/power-of-ten-coefficient-%d", zeros), 0, len(bigDecExps) - 1, func(n int) []ev.Event {
			d := &apd.Decimal{Exponent: bigDecExps[n]}
			d.Coeff.SetString("1"+strings.Repeat("0", zeros+20), 10)
			return []ev.Event{{K: ev.BigDFloat, BDF: d}}
		}})
	}
	// (-2147483648 is the marker of the special values in a DFloat, not an exponent)
	dfloatExps := []int32{-2147483647, -1000000, -100001, -99999, -400, 400, 99999, 100001, 1000000, 2147483646, 2147483647}
	fams = append(fams, family{"decimal-float-exponent", 0, len(dfloatExps) - 1, func(n int) []ev.Event {
		return []ev.Event{{K: ev.DFloat, DF: compact_float.DFloatValue(dfloatExps[n], 1234567890123456789)}}
	}})
	fams = append(fams, family{"decimal-float-exponent/coefficient-with-trailing-zeros", 0, len(dfloatExps) - 1, func(n int) []ev.Event {
		return []ev.Event{{K: ev.DFloat, DF: compact_float.DFloatValue(dfloatExps[n], 1230000)}, {K: ev.DFloat, DF: compact_float.DFloatValue(dfloatExps[n], -10)}}
	}})
	customCodes := []uint64{0, 1, 255, 256, 65535, 65536, 1<<32 - 2, 1<<32 - 1, 1 << 32, 1<<32 + 1, 1 << 40, 1<<63 - 1, 1 << 63, 1<<64 - 1}
	fams = append(fams, family{"custom-binary-type-code", 0, len(customCodes) - 1, func(n int) []ev.Event {
		return []ev.Event{{K: ev.CustomBinary, U: customCodes[n], Bs: []byte{1, 2, 3}}}
	}})
	fams = append(fams, family{"custom-text-type-code", 0, len(customCodes) - 1, func(n int) []ev.Event {
		return []ev.Event{{K: ev.CustomText, U: customCodes[n], S: "abc"}}
	}})
	bigFloatExps := []int{-19000, -1100, -1075, -1074, -1023, -1022, 0, 1023, 1024, 1100, 19000}
	fams = append(fams, family{"big-float-binary-exponent", 0, len(bigFloatExps) - 1, func(n int) []ev.Event {
		f := new(big.Float).SetPrec(70).SetInt64(0x1d3)
		f.SetMantExp(f, bigFloatExps[n])
		return []ev.Event{{K: ev.BigFloat, BF: f}}
	}})
	// big integers around the sizes at which either side may stop: 2^(8k) for k up to 1100 bytes
	bigIntBytes := []int{100, 127, 128, 129, 255, 256, 257, 511, 512, 513, 1000, 1023, 1024, 1025, 1100}
	fams = append(fams, family{"big-int-many-bytes", 0, len(bigIntBytes) - 1, func(n int) []ev.Event {
		return []ev.Event{{K: ev.BigInt, Big: new(big.Int).Lsh(big.NewInt(0x81), uint(8*(bigIntBytes[n]-1)))}}
	}})
	fams = append(fams, family{"negative-big-int-many-bytes", 0, len(bigIntBytes) - 1, func(n int) []ev.Event {
		return []ev.Event{{K: ev.BigInt, Big: new(big.Int).Neg(new(big.Int).Lsh(big.NewInt(0x81), uint(8*(bigIntBytes[n]-1))))}}
	}})
	// identifiers, media types and zone names beyond the one-byte lengths
	longLens := []int{126, 127, 128, 129, 200, 255, 256, 257, 999, 1000, 1001}
	fams = append(fams, family{"long-marker-id", 0, len(longLens) - 1, func(n int) []ev.Event {
		return []ev.Event{{K: ev.Marker, Bs: []byte(name(longLens[n]))}, {K: ev.Int, I: 1}}
	}})
	fams = append(fams, family{"long-media-type", 0, len(longLens) - 1, func(n int) []ev.Event {
		return []ev.Event{{K: ev.Media, S: "a/" + strings.Repeat("b", longLens[n]-2), Bs: []byte{1, 2}}}
	}})
	fams = append(fams, family{"long-zone-name", 0, len(longLens) - 1, func(n int) []ev.Event {
		return tm(compact_time.NewTime(10, 0, 0, 0, compact_time.TZAtAreaLocation(name(longLens[n]))))
	}})
	dfCoeffs := []int64{1, -1, 999999999999999999, 1000000000000000000, 9223372036854775807, -9223372036854775807, -9223372036854775808, 4611686018427387904, 123456789012345678}
	fams = append(fams, family{"decimal-float-coefficient", 0, len(dfCoeffs) - 1, func(n int) []ev.Event {
		return []ev.Event{{K: ev.DFloat, DF: compact_float.DFloatValue(-3, dfCoeffs[n])}, {K: ev.DFloat, DF: compact_float.DFloatValue(40, dfCoeffs[n])}}
	}})
	// times: years, sub-seconds and zone forms at their edges
	years := []int{-2000000000, -131072, -131071, -100000, -10000, -9999, -1001, -1, 1, 999, 1000, 1999, 2000, 2001, 2127, 2128, 9999, 10000, 99999, 131071, 131072, 2000000000}
	fams = append(fams, family{"time/date-years", 0, len(years) - 1, func(n int) []ev.Event { return tm(compact_time.NewDate(years[n], 12, 31)) }})
	fams = append(fams, family{"time/timestamp-years", 0, len(years) - 1, func(n int) []ev.Event {
		return tm(compact_time.NewTimestamp(years[n], 1, 1, 0, 0, 0, 0, compact_time.TZAtUTC()))
	}})
	nanos := []int{0, 1, 999, 1000, 999000, 999999, 1000000, 1000001, 999000000, 999999000, 999999999, 500000000, 123456789}
	fams = append(fams, family{"time/nanoseconds", 0, len(nanos) - 1, func(n int) []ev.Event {
		return tm(compact_time.NewTime(23, 59, 60, nanos[n], compact_time.TZAtAreaLocation("Asia/Tokyo")))
	}})
	latlongs := [][2]int{{0, 0}, {9000, 18000}, {-9000, -18000}, {9000, -18000}, {-9000, 18000}, {1, -1}, {8999, 17999}, {-8999, -17999}, {4512, -12233}, {-1, 18000}}
	fams = append(fams, family{"time/lat-long", 0, len(latlongs) - 1, func(n int) []ev.Event {
		return tm(compact_time.NewTimestamp(2020, 2, 29, 12, 0, 0, 250000000, compact_time.TZAtLatLong(latlongs[n][0], latlongs[n][1])))
	}})
	offsets := []int{-1439, -1438, -720, -61, -60, -59, -1, 1, 59, 60, 61, 330, 720, 1438, 1439}
	fams = append(fams, family{"time/utc-offset", 0, len(offsets) - 1, func(n int) []ev.Event {
		return tm(compact_time.NewTime(1, 2, 3, 0, compact_time.TZWithMiutesOffsetFromUTC(offsets[n])))
	}})
	return fams
}

// c03LengthSweep is the deterministic part: see sweepFamilies. Both directions, every shard takes its share.
func c03LengthSweep(ctx *Ctx, report func(c interface{}, err error)) {
	fams := sweepFamilies()
	rep := func(n int, s string) []byte { return []byte(strings.Repeat(s, n)) }
	cfg := newCfg()
	var evals, nontrivial int64
	k := 0
	for fi := range fams {
		f := &fams[fi]
		for n := f.min; n <= f.max; n++ {
			k++
			if k%ctx.Shards != ctx.Shard {
				continue
			}
			for _, before := range []int{0, 1, 3} { // items in front of it: the encoder's buffer has grown already or not
				evs := []ev.Event{{K: ev.BD}, {K: ev.Version}, {K: ev.List}}
				for b := 0; b < before; b++ {
					evs = append(evs, ev.Event{K: ev.Array, AT: events.ArrayTypeString, U: 20, Bs: rep(20, "p")})
				}
				evs = append(evs, f.item(n)...)
				evs = append(evs, ev.Event{K: ev.Int, I: 0x41}, ev.Event{K: ev.End}, ev.Event{K: ev.ED})
				for _, side := range []string{"bin", "text"} {
					var doc []byte
					var idx int
					if side == "bin" {
						doc, idx, _ = encodeCBE(evs, cfg)
					} else {
						doc, idx, _ = encodeCTE(evs, cfg)
					}
					if idx >= 0 {
						ctx.Stats.Count("sweep_item_rejected_by_validator:"+f.name, 1)
						continue
					}
					c := &C03Case{Side: side, Doc: doc, Note: fmt.Sprintf("length-sweep %s n=%d after %d items", f.name, n, before)}
					evals++
					nontrivial++
					if err := c03Check(c, ctx); err != nil {
						report(c, err)
						return
					}
					if ctx.Hung || ctx.Abandoned {
						return
					}
				}
			}
		}
	}
	ctx.Stats.Bulk(evals, nontrivial)
	ctx.Stats.Note(fmt.Sprintf("length sweep: %d families x every length in their range x 3 positions x 2 directions (shard %d/%d)", len(fams), ctx.Shard, ctx.Shards))
}

// sweepEventCases runs check over every item of every sweep family (the shard's share), each placed in a
// list after 0, 1 or 3 strings and followed by a small integer. Used by C01 and C02: there the decoded events
// are compared with the ORIGINAL events, which the C03 sweep (decoder against decoder) cannot do.
func sweepEventCases(ctx *Ctx, report func(c interface{}, err error), check func(ci interface{}, ctx *Ctx) error, skip ...string) {
	var fams []sweepFamily
	for _, f := range sweepFamilies() {
		if !containsStr(skip, f.name) {
			fams = append(fams, f)
		}
	}
	rep := func(n int, s string) []byte { return []byte(strings.Repeat(s, n)) }
	var evals int64
	k := 0
	for fi := range fams {
		f := &fams[fi]
		for n := f.min; n <= f.max; n++ {
			k++
			if k%ctx.Shards != ctx.Shard {
				continue
			}
			for _, before := range []int{0, 1, 3} {
				evs := []ev.Event{{K: ev.BD}, {K: ev.Version}, {K: ev.List}}
				for b := 0; b < before; b++ {
					evs = append(evs, ev.Event{K: ev.Array, AT: events.ArrayTypeString, U: 20, Bs: rep(20, "p")})
				}
				evs = append(evs, f.item(n)...)
				evs = append(evs, ev.Event{K: ev.Int, I: 0x41}, ev.Event{K: ev.End}, ev.Event{K: ev.ED})
				c := &EvCase{Events: evs}
				evals++
				if err := check(c, ctx); err != nil {
					if strings.Contains(err.Error(), "the validator rejects this stream") {
						continue // the item is outside what the validator accepts (strict-generator mode only)
					}
					report(c, fmt.Errorf("sweep %s n=%d after %d items: %v", f.name, n, before, err))
					return
				}
				if ctx.Hung || ctx.Abandoned {
					return
				}
			}
		}
	}
	ctx.Stats.Bulk(evals, evals)
	ctx.Stats.Note(fmt.Sprintf("boundary sweep: %d families x every length / value in their range x 3 positions (shard %d/%d)", len(fams), ctx.Shard, ctx.Shards))
}
