package props

import (
	"bytes"
	"fmt"
	"math"
	"math/big"

	"github.com/kstenerud/go-concise-encoding/ce/events"
	"pgregory.net/rapid"

	"verif/internal/ev"
	"verif/internal/gen"
)

// C22 — CBE encoding is minimal and canonical.
// Part A: single values against M-SIZE, an independent reference encoder for the minimal forms (written
// from the format description, DESIGN appendix B). Part B: decode+encode of encoder output is the identity.

type C22Case struct {
	Mode   string     `json:"mode"` // value | idempotent
	Events []ev.Event `json:"events"`
}

func cbeInt(v *big.Int, negZero bool) [][]byte {
	if negZero {
		return [][]byte{{0x69, 0x00}}
	}
	m := new(big.Int).Abs(v)
	neg := v.Sign() < 0
	t := func(pos byte) byte {
		if neg {
			return pos + 1
		}
		return pos
	}
	switch {
	case m.Cmp(big.NewInt(100)) <= 0:
		return [][]byte{{byte(int8(v.Int64()))}}
	case m.BitLen() <= 8:
		return [][]byte{append([]byte{t(0x68)}, leBytes(m, 1)...)}
	case m.BitLen() <= 16:
		return [][]byte{append([]byte{t(0x6a)}, leBytes(m, 2)...)}
	case m.BitLen() <= 32:
		return [][]byte{append([]byte{t(0x6c)}, leBytes(m, 4)...)}
	case m.BitLen() <= 48:
		n := (m.BitLen() + 7) / 8
		return [][]byte{append([]byte{t(0x66), byte(n)}, leBytes(m, n)...)}
	case m.BitLen() <= 56:
		// the variable-length form (1+1+7) and the 64-bit form (1+8) tie at 9 bytes
		return [][]byte{append([]byte{t(0x66), 7}, leBytes(m, 7)...), append([]byte{t(0x6e)}, leBytes(m, 8)...)}
	case m.BitLen() <= 64:
		return [][]byte{append([]byte{t(0x6e)}, leBytes(m, 8)...)}
	}
	n := (m.BitLen() + 7) / 8
	out := append([]byte{t(0x66)}, uleb(uint64(n))...)
	return [][]byte{append(out, leBytes(m, n)...)}
}

func cbeFloat(f float64) [][]byte {
	if f == 0 {
		if math.Signbit(f) {
			return [][]byte{{0x69, 0x00}}
		}
		return [][]byte{{0x00}}
	}
	f32 := float32(f)
	if float64(f32) == f && !math.IsInf(float64(f32), 0) {
		b := math.Float32bits(f32)
		if b&0xffff == 0 {
			return [][]byte{{0x70, byte(b >> 16), byte(b >> 24)}}
		}
		return [][]byte{{0x71, byte(b), byte(b >> 8), byte(b >> 16), byte(b >> 24)}}
	}
	b := math.Float64bits(f)
	out := []byte{0x72}
	for i := 0; i < 8; i++ {
		out = append(out, byte(b>>(8*uint(i))))
	}
	return [][]byte{out}
}

var cbeShortCode = map[events.ArrayType]byte{events.ArrayTypeUID: 0x00, events.ArrayTypeInt8: 0x10, events.ArrayTypeUint16: 0x20, events.ArrayTypeInt16: 0x30,
	events.ArrayTypeUint32: 0x40, events.ArrayTypeInt32: 0x50, events.ArrayTypeUint64: 0x60, events.ArrayTypeInt64: 0x70, events.ArrayTypeFloat16: 0x80,
	events.ArrayTypeFloat32: 0x90, events.ArrayTypeFloat64: 0xa0}
var cbeLongCode = map[events.ArrayType][]byte{events.ArrayTypeUID: {0x7f, 0xe0}, events.ArrayTypeInt8: {0x7f, 0xe1}, events.ArrayTypeUint16: {0x7f, 0xe2},
	events.ArrayTypeInt16: {0x7f, 0xe3}, events.ArrayTypeUint32: {0x7f, 0xe4}, events.ArrayTypeInt32: {0x7f, 0xe5}, events.ArrayTypeUint64: {0x7f, 0xe6},
	events.ArrayTypeInt64: {0x7f, 0xe7}, events.ArrayTypeFloat16: {0x7f, 0xe8}, events.ArrayTypeFloat32: {0x7f, 0xe9}, events.ArrayTypeFloat64: {0x7f, 0xea},
	events.ArrayTypeUint8: {0x93}, events.ArrayTypeBit: {0x94}, events.ArrayTypeResourceID: {0x91}, events.ArrayTypeString: {0x90}}

func cbeArray(at events.ArrayType, count uint64, data []byte) []byte {
	if at == events.ArrayTypeString && count <= 15 {
		return append([]byte{0x80 + byte(count)}, data...)
	}
	if sc, ok := cbeShortCode[at]; ok && count <= 15 {
		return append([]byte{0x7f, sc | byte(count)}, data...)
	}
	out := append([]byte{}, cbeLongCode[at]...)
	out = append(out, uleb(count<<1)...)
	return append(out, data...)
}

var c22ArrayTypes = []events.ArrayType{events.ArrayTypeString, events.ArrayTypeString, events.ArrayTypeResourceID, events.ArrayTypeUint8, events.ArrayTypeBit,
	events.ArrayTypeUID, events.ArrayTypeInt8, events.ArrayTypeUint16, events.ArrayTypeInt16, events.ArrayTypeUint32, events.ArrayTypeInt32,
	events.ArrayTypeUint64, events.ArrayTypeInt64, events.ArrayTypeFloat16, events.ArrayTypeFloat32, events.ArrayTypeFloat64}

func genC22(t *rapid.T, ctx *Ctx) interface{} {
	c := &C22Case{}
	if rapid.IntRange(0, 3).Draw(t, "mode") == 0 {
		c.Mode = "idempotent"
		o := gen.EvOpts{Comments: true, Padding: true, CustomBinary: true, Media: true, Markers: true, Records: true, RemoteRef: true,
			FullUnicode: true, Chunked: true, MidCharSplit: true, WideBigFloat: true, MaxDepth: 4, MaxArr: 60, Budget: 30}
		if ctx.Thorough() {
			o.MaxArr, o.Budget = 1000, 100
		}
		avoid(ctx, &o)
		c.Events = gen.Document(t, o)
		return c
	}
	c.Mode = "value"
	var val []ev.Event
	switch rapid.IntRange(0, 9).Draw(t, "kind") {
	case 0, 1, 2, 3:
		v := gen.BigIntValue(t, "int")
		forms := []int{3}
		if v.IsInt64() {
			forms = append(forms, 0)
		}
		if v.Sign() >= 0 && v.IsUint64() {
			forms = append(forms, 1)
		}
		if v.Sign() <= 0 && new(big.Int).Neg(v).IsUint64() {
			forms = append(forms, 2)
		}
		switch forms[rapid.IntRange(0, len(forms)-1).Draw(t, "form")] {
		case 0:
			val = []ev.Event{{K: ev.Int, I: v.Int64()}}
		case 1:
			val = []ev.Event{{K: ev.PInt, U: v.Uint64()}}
		case 2:
			val = []ev.Event{{K: ev.NInt, U: new(big.Int).Neg(v).Uint64()}}
		default:
			val = []ev.Event{{K: ev.BigInt, Big: v}}
		}
	case 4, 5, 6:
		f := gen.Float64NonNaN(t, "float")
		for math.IsInf(f, 0) {
			f = 1.5
		}
		if rapid.IntRange(0, 3).Draw(t, "asbig") == 0 && f != 0 {
			// the capacity of the big.Float (its precision) says nothing about the value: a float64 value held
			// at 54, 64 or 1000 bits of precision is still that float64
			prec := uint(rapid.SampledFrom([]int{53, 53, 54, 64, 100, 200, 1000}).Draw(t, "bfprec"))
			val = []ev.Event{{K: ev.BigFloat, BF: new(big.Float).SetPrec(prec).SetFloat64(f)}}
		} else {
			val = []ev.Event{{K: ev.Float, F: f}}
		}
	default:
		at := c22ArrayTypes[rapid.IntRange(0, len(c22ArrayTypes)-1).Draw(t, "at")]
		var n int
		switch rapid.IntRange(0, 3).Draw(t, "lenclass") {
		case 0:
			n = rapid.IntRange(13, 17).Draw(t, "n15")
		case 1:
			n = rapid.IntRange(0, 40).Draw(t, "n40")
		case 2:
			n = rapid.SampledFrom([]int{0, 1, 15, 16, 63, 64, 127, 128, 8191, 8192}).Draw(t, "nb")
			if !ctx.Thorough() && n > 200 {
				n = 64
			}
		default:
			n = rapid.IntRange(0, 6).Draw(t, "n6")
		}
		var data []byte
		count := uint64(n)
		switch {
		case at == events.ArrayTypeString || at == events.ArrayTypeResourceID:
			data = bytes.Repeat([]byte("a"), n)
			if n >= 2 && rapid.Bool().Draw(t, "mb") {
				copy(data[n-2:], "é")
			}
		case at == events.ArrayTypeBit:
			nb := (n + 7) / 8
			data = rapid.SliceOfN(rapid.Byte(), nb, nb).Draw(t, "bits")
			if n%8 != 0 {
				data[nb-1] &= byte(1<<uint(n%8)) - 1
			}
		default:
			w := at.ElementSize() / 8
			data = rapid.SliceOfN(rapid.Byte(), n*w, n*w).Draw(t, "data")
		}
		str := at == events.ArrayTypeString || at == events.ArrayTypeResourceID
		switch rapid.IntRange(0, 2).Draw(t, "aform") {
		case 0:
			val = []ev.Event{{K: ev.Array, AT: at, U: count, Bs: data}}
		case 1:
			if str {
				val = []ev.Event{{K: ev.StringArray, AT: at, S: string(data)}}
			} else {
				val = []ev.Event{{K: ev.Array, AT: at, U: count, Bs: data}}
			}
		default:
			// a single final chunk, data in 1-3 element-aligned events
			val = []ev.Event{{K: ev.ArrayBegin, AT: at}, {K: ev.ArrayChunk, U: count, B: false}}
			w := 1
			if !str && at != events.ArrayTypeBit {
				w = at.ElementSize() / 8
			}
			for _, d := range splitBytes(t, "split", data, w) {
				val = append(val, ev.Event{K: ev.ArrayData, Bs: d})
			}
		}
	}
	c.Events = append([]ev.Event{{K: ev.BD}, {K: ev.Version}}, val...)
	c.Events = append(c.Events, ev.Event{K: ev.ED})
	return c
}

// c22Expected computes the reference minimal encodings of the single value in a "value" case.
func c22Expected(c *C22Case) ([][]byte, string, bool) {
	val := c.Events[2 : len(c.Events)-1]
	e := val[0]
	boundary := func(m *big.Int) bool {
		for _, b := range []uint{8, 16, 32, 40, 48, 56, 63, 64} {
			d := new(big.Int).Sub(m, new(big.Int).Lsh(big.NewInt(1), b))
			if d.CmpAbs(big.NewInt(3)) <= 0 {
				return true
			}
		}
		d := new(big.Int).Sub(m, big.NewInt(100))
		return d.CmpAbs(big.NewInt(3)) <= 0 || m.CmpAbs(big.NewInt(3)) <= 0
	}
	switch e.K {
	case ev.Int:
		v := big.NewInt(e.I)
		return cbeInt(v, false), "int", boundary(new(big.Int).Abs(v))
	case ev.PInt:
		v := new(big.Int).SetUint64(e.U)
		return cbeInt(v, false), "int", boundary(v)
	case ev.NInt:
		v := new(big.Int).SetUint64(e.U)
		return cbeInt(new(big.Int).Neg(v), e.U == 0), "int", boundary(v)
	case ev.BigInt:
		return cbeInt(e.Big, false), "int", boundary(new(big.Int).Abs(e.Big))
	case ev.Float:
		return cbeFloat(e.F), "float", true
	case ev.BigFloat:
		f, _ := e.BF.Float64()
		return cbeFloat(f), "float", true
	case ev.Array:
		return [][]byte{cbeArray(e.AT, e.U, e.Bs)}, "array", e.U >= 13 && e.U <= 17
	case ev.StringArray:
		return [][]byte{cbeArray(e.AT, uint64(len(e.S)), []byte(e.S))}, "array", len(e.S) >= 13 && len(e.S) <= 17
	case ev.ArrayBegin:
		var data []byte
		for _, d := range val[2:] {
			data = append(data, d.Bs...)
		}
		return [][]byte{cbeArray(e.AT, val[1].U, data)}, "array", val[1].U >= 13 && val[1].U <= 17
	}
	return nil, "?", false
}

func init() {
	Register(&Prop{
		ID:  "C22",
		New: func() interface{} { return &C22Case{} },
		Gen: genC22,
		Check: func(ci interface{}, ctx *Ctx) error {
			c := ci.(*C22Case)
			cfg := newCfg()
			ctx.Label("mode:" + c.Mode)
			if c.Mode == "value" {
				if idx, err := rulesAccept(c.Events, cfg); idx >= 0 {
					return genInvalid(ctx, idx, err, c.Events)
				}
				doc, idx, err := encodeCBE(c.Events, cfg)
				if idx >= 0 {
					return fmt.Errorf("CBE encoder failed at event %d: %v", idx, err)
				}
				want, kind, nt := c22Expected(c)
				ctx.Label("value:" + kind)
				ctx.NonTrivial(nt)
				if len(doc) < 2 || doc[0] != 0x81 || doc[1] != 0 {
					return fmt.Errorf("document does not start with the signature and version 0: %s", hexdump(doc))
				}
				for _, w := range want {
					if bytes.Equal(doc[2:], w) {
						return nil
					}
				}
				exp := ""
				for _, w := range want {
					exp += " " + hexdump(w)
				}
				return fmt.Errorf("value %s: encoder wrote %s (%d bytes), the minimal form is%s (%d bytes)", ev.ListString(c.Events[2:len(c.Events)-1]), hexdump(doc[2:]), len(doc)-2, exp, len(want[0]))
			}
			// idempotence
			if idx, err := rulesAccept(c.Events, cfg); idx >= 0 {
				return genInvalid(ctx, idx, err, c.Events)
			}
			ctx.NonTrivial(features(ctx, c.Events))
			doc, idx, err := encodeCBE(c.Events, cfg)
			if idx >= 0 {
				return fmt.Errorf("CBE encoder failed at event %d: %v", idx, err)
			}
			out, err := decodeCBE(doc, cfg)
			if err != nil {
				return fmt.Errorf("CBE decoder rejected encoder output: %v\ndoc=%s", err, hexdump(doc))
			}
			doc2, idx, err := encodeCBE(out, cfg)
			if idx >= 0 {
				return fmt.Errorf("CBE encoder failed on decoded events at %d: %v", idx, err)
			}
			if !bytes.Equal(doc, doc2) {
				return fmt.Errorf("decode+encode is not the identity:\nfirst =%s\nsecond=%s", hexdump(doc), hexdump(doc2))
			}
			return nil
		},
	})
}
