package props

import (
	"fmt"

	"github.com/kstenerud/go-concise-encoding/ce"

	"github.com/kstenerud/go-concise-encoding/configuration"

	"pgregory.net/rapid"

	"verif/internal/gen"
)

// C18 — marshaling never modifies the value being marshaled. The value is rebuilt from its
// specification before the call and compared, strictly (nil-ness, NaN payloads, big-number sign /
// words / precision / mode / form / exponent), against the same specification afterwards.

// C18Case: a C05 case plus the scalar numeric formats of the CTE encoder (a setting may change how a number
// is written, never the number the caller holds).
type C18Case struct {
	C05Case
	IntFmt uint8 `json:"int_fmt"` // Encoder.CTE.DefaultNumericFormats.Int / Uint / BinaryFloat (0 = decimal, 4..9; floats 0, 8, 9)
	// FailAt > 0: the value is marshaled once more, to a writer that accepts FailAt-1 bytes (modulo the
	// document's length) and then fails: a call that ends in an error must leave the value alone too
	FailAt int `json:"fail_at,omitempty"`
}

// c18LimitWriter accepts a number of bytes, then fails every write.
type c18LimitWriter struct{ left int }

func (w *c18LimitWriter) Write(p []byte) (int, error) {
	if len(p) <= w.left {
		w.left -= len(p)
		return len(p), nil
	}
	n := w.left
	w.left = 0
	return n, fmt.Errorf("c18: destination full")
}

func init() {
	Register(&Prop{
		ID:  "C18",
		New: func() interface{} { return &C18Case{} },
		Gen: func(t *rapid.T, ctx *Ctx) interface{} {
			o := valOpts(ctx)
			o.BigPtrBias = true
			o.WideBigFloat = true
			o.HandBuiltTimes = true
			avoidVal(o)
			c := &C18Case{C05Case: C05Case{ValCase: *genValCase(t, ctx, o)}}
			c.IntFmt = uint8(rapid.SampledFrom([]int{0, 0, 4, 5, 6, 7, 8, 9}).Draw(t, "intfmt"))
			c.Recursion = rapid.IntRange(0, 3).Draw(t, "recursion") == 0
			c.Omit = rapid.SampledFrom([]string{"empty", "never", "zero"}).Draw(t, "omit")
			c.Camel = rapid.Bool().Draw(t, "camel")
			if rapid.Bool().Draw(t, "failing") {
				c.FailAt = rapid.IntRange(1, 300).Draw(t, "failat")
			}
			return c
		},
		Check: func(ci interface{}, ctx *Ctx) error {
			c := ci.(*C18Case)
			cfg, _ := c.config()
			nf := &cfg.Encoder.CTE.DefaultNumericFormats
			nf.Int, nf.Uint = configuration.CTENumericFormat(c.IntFmt), configuration.CTENumericFormat(c.IntFmt)
			if c.IntFmt == 0 || c.IntFmt >= 8 {
				nf.BinaryFloat = configuration.CTENumericFormat(c.IntFmt)
			}
			valFeatures(ctx, c.Type, c.Val)
			// non-trivial: the value reaches a pointer-held big number or a slice
			nt := false
			var walk func(s *gen.TypeSpec, viaPtr bool)
			walk = func(s *gen.TypeSpec, viaPtr bool) {
				if s == nil {
					return
				}
				switch s.K {
				case "bigint", "bigfloat", "apd":
					if viaPtr {
						nt = true
						ctx.Label("pointer-held-" + s.K)
					}
				case "slice":
					nt = true
				}
				walk(s.Elem, s.K == "ptr")
				for _, f := range s.Fields {
					walk(f.Type, false)
				}
			}
			walk(c.Type, false)
			ctx.NonTrivial(nt)
			ctx.Label("format:" + c.Format)
			value := gen.Build(c.Type, c.Val)
			if err := gen.Check(value, c.Type, c.Val, gen.EqMode{Strict: true}, "$"); err != nil {
				return fmt.Errorf("harness: freshly built value does not match its own specification: %v", err)
			}
			// the marshal result itself is not judged here
			var iface interface{} = value.Interface()
			if value.CanAddr() && c.Format == "cte" {
				// also exercise the addressable path for half of the cases
				iface = value.Addr().Interface()
				_, _, bad := marshalDoc(ctx, c.Format, iface, cfg)
				if bad != nil {
					return bad
				}
			} else {
				_, _, bad := marshalDoc(ctx, c.Format, iface, cfg)
				if bad != nil {
					return bad
				}
			}
			if err := gen.Check(value, c.Type, c.Val, gen.EqMode{Strict: true}, "$"); err != nil {
				return fmt.Errorf("marshaling (%s) modified the value: %v\ntype=%v", c.Format, err, c.Type)
			}
			if c.FailAt > 0 {
				doc, _, _ := marshalDoc(ctx, c.Format, iface, cfg)
				w := &c18LimitWriter{left: (c.FailAt - 1) % (len(doc) + 1)}
				ctx.Label("marshal to a destination that fails part-way")
				o := ctx.Guard(func() {
					if c.Format == "cbe" {
						ce.MarshalCBE(iface, w, cfg)
					} else {
						ce.MarshalCTE(iface, w, cfg)
					}
				})
				if o.TimedOut || o.Panic != nil {
					return nil // C07 / C29 territory
				}
				if err := gen.Check(value, c.Type, c.Val, gen.EqMode{Strict: true}, "$"); err != nil {
					return fmt.Errorf("a marshal call (%s) that failed after %d bytes modified the value: %v\ntype=%v", c.Format, (c.FailAt-1)%(len(doc)+1), err, c.Type)
				}
			}
			return nil
		},
	})
}
