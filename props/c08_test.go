package props

import (
	"bytes"
	"fmt"
	compact_time "github.com/kstenerud/go-compact-time"
	"math"
	"math/big"
	"runtime"
	"strings"
	"sync"
	"syscall"
	"time"

	"github.com/kstenerud/go-concise-encoding/ce"
	"github.com/kstenerud/go-concise-encoding/configuration"
	"github.com/kstenerud/go-concise-encoding/nullevent"
	"pgregory.net/rapid"

	"verif/internal/gen"
	"verif/internal/harness"
)

// C08 — decoding cost is bounded by document size and configured limits.
//
// Memory oracle (random part): bytes allocated during one decode (runtime.MemStats.TotalAlloc delta)
//   <= c08Base + c08PerByte[format] * len(document) + 4 * MaxArraySizeBytes.
// Allocation-scaling oracle (deterministic part): for every document family, bytes allocated at n, 2n, 4n,
// 8n; more than tripling on each of the last two doublings (log-log slope >= 1.5, >= 8 MiB) is a violation.
// Time oracle (deterministic part): for every document family, CPU time at n, 2n, 4n, 8n; the log-log
// slope must stay below 1.8 (re-measured over five doublings, where the last two doublings must each cost >= 3x, before it is called a violation; 1.5..1.8 is reported
// as inconclusive, never as a violation).

type C08Case struct {
	Family   string `json:"family"`
	N        int    `json:"n"`
	Hostile  int    `json:"hostile"` // index into gen.HostileULEB for the hostile-length families
	MaxArray int    `json:"max_array"`
	Pipeline string `json:"pipeline"`       // decode | unmarshal
	Mode     string `json:"mode,omitempty"` // "" = memory bound; "time" = replay of a timing violation
}

const c08Base = 4 << 20

// Allocation per document byte that is still called "a fixed multiple": calibrated on valid documents
// in a warmed-up process (measured maxima over all families below: CBE 590 B per input byte - deeply
// nested containers through unmarshal -, the ANTLR-based CTE decoder 2.3 KiB per input byte - unclosed
// nested lists -) with about 7-10x head-room.
var c08PerByte = map[string]int{"cbe": 4 << 10, "cte": 24 << 10}

// families listed as open known findings (excluded by construction, counted)
var c08KnownFamilies = map[string]string{"cte-open-braces": "S68-cte-map-as-key-nesting-superlinear",
	"cte-long-verbatim-sentinel": "S88-cte-verbatim-sequences-superlinear", "cte-many-verbatim": "S88-cte-verbatim-sequences-superlinear",
	"cte-long-key-many-records": "S95-record-key-replay-amplification", "cbe-long-key-many-records": "S95-record-key-replay-amplification"}

var c08WarmOnce sync.Once

// c08Warm runs every family once at a small size so that one-time costs (ANTLR's lazily built
// prediction caches, type caches) are not charged to a measured document.
func c08Warm() {
	c08WarmOnce.Do(func() {
		cfg := c08Config(1 << 20)
		for i := range c08Families {
			f := &c08Families[i]
			if f.hostile {
				continue
			}
			for _, n := range []int{3, 64} {
				doc := f.build(n, nil)
				harness.Guard(harness.DefaultDeadline, func() {
					c08Run(f.format, "decode", doc, cfg)
					c08Run(f.format, "unmarshal", doc, cfg)
					if c08Templates[f.name] != nil {
						c08Run(f.format, "unmarshal-typed:"+f.name, doc, cfg)
					}
				})
			}
		}
	})
}

type c08Family struct {
	name    string
	format  string
	hostile bool                         // tiny document declaring a huge length (N unused)
	build   func(n int, h []byte) []byte // document for size parameter n
	maxN    int
	timing  bool // included in the time-linearity sweep
	// perByte overrides c08PerByte for a family whose cost per input byte is known to be high but constant
	// (measured and explained where it is set); the scaling oracles apply to it like to any other family
	perByte int
}

func rep(s string, n int) string { return strings.Repeat(s, n) }

func cbeDoc(parts ...[]byte) []byte {
	out := []byte{0x81, 0x00}
	for _, p := range parts {
		out = append(out, p...)
	}
	return out
}

func repB(b []byte, n int) []byte { return bytes.Repeat(b, n) }

var c08Families = func() []c08Family {
	hostileAfter := func(name string, code ...byte) c08Family {
		return c08Family{name: "cbe-hostile-" + name, format: "cbe", hostile: true, build: func(n int, h []byte) []byte {
			// n bytes of real payload follow the hostile length (a reader that trusts the declared
			// length only after it has seen some data must be caught too)
			return cbeDoc(code, h, bytes.Repeat([]byte{'a'}, n))
		}}
	}
	fams := []c08Family{
		hostileAfter("string", 0x90), hostileAfter("rid", 0x91), hostileAfter("custom-type", 0x92), hostileAfter("custom-chunk", 0x92, 0x01),
		hostileAfter("u8-array", 0x93), hostileAfter("bit-array", 0x94), hostileAfter("u16-array", 0x7f, 0xe2), hostileAfter("f64-array", 0x7f, 0xea),
		hostileAfter("uid-array", 0x7f, 0xe0), hostileAfter("i64-array", 0x7f, 0xe7), hostileAfter("media-type-length", 0x7f, 0xf3),
		hostileAfter("media-chunk", 0x7f, 0xf3, 0x03, 'a', '/', 'b'), hostileAfter("marker-id", 0x7f, 0xf0), hostileAfter("record-type-id", 0x7f, 0xf1),
		hostileAfter("remote-ref", 0x7f, 0xf2), hostileAfter("record-id", 0x96), hostileAfter("reference-id", 0x77), hostileAfter("posint-length", 0x66),
		hostileAfter("negint-length", 0x67), hostileAfter("second-chunk", 0x90, 0x03, 'a'), hostileAfter("list-then-string", 0x9a, 0x90),
		hostileAfter("map-key-string", 0x99, 0x90),
		{name: "cbe-hostile-version", format: "cbe", hostile: true, build: func(n int, h []byte) []byte {
			return append(append([]byte{0x81}, h...), bytes.Repeat([]byte{1}, n)...)
		}},
		// --- CBE, linear families
		{name: "cbe-nested-lists", format: "cbe", timing: true, maxN: 1 << 20, build: func(n int, _ []byte) []byte {
			return cbeDoc(repB([]byte{0x9a}, n), []byte{1}, repB([]byte{0x9b}, n))
		}},
		{name: "cbe-nested-lists-unclosed", format: "cbe", timing: true, maxN: 1 << 20, build: func(n int, _ []byte) []byte {
			return cbeDoc(repB([]byte{0x9a}, n), []byte{1})
		}},
		{name: "cbe-nested-maps", format: "cbe", timing: true, maxN: 1 << 19, build: func(n int, _ []byte) []byte {
			return cbeDoc(repB([]byte{0x99, 0x01}, n), []byte{1}, repB([]byte{0x9b}, n))
		}},
		{name: "cbe-nested-nodes", format: "cbe", timing: true, maxN: 1 << 19, build: func(n int, _ []byte) []byte {
			return cbeDoc(repB([]byte{0x98, 0x01}, n), repB([]byte{0x9b}, n))
		}},
		{name: "cbe-many-small-ints", format: "cbe", timing: true, maxN: 1 << 21, build: func(n int, _ []byte) []byte {
			return cbeDoc([]byte{0x9a}, repB([]byte{0x05}, n), []byte{0x9b})
		}},
		{name: "cbe-many-empty-lists", format: "cbe", timing: true, maxN: 1 << 20, build: func(n int, _ []byte) []byte {
			return cbeDoc([]byte{0x9a}, repB([]byte{0x9a, 0x9b}, n), []byte{0x9b})
		}},
		{name: "cbe-many-short-strings", format: "cbe", timing: true, maxN: 1 << 20, build: func(n int, _ []byte) []byte {
			return cbeDoc([]byte{0x9a}, repB([]byte{0x82, 'h', 'i'}, n), []byte{0x9b})
		}},
		{name: "cbe-many-map-entries", format: "cbe", timing: true, maxN: 1 << 17, build: func(n int, _ []byte) []byte {
			out := []byte{0x99}
			for i := 0; i < n; i++ {
				out = append(out, 0x6c, byte(i), byte(i>>8), byte(i>>16), byte(i>>24), 0x01)
			}
			return cbeDoc(out, []byte{0x9b})
		}},
		// one map with n keys, closed, then n one-entry maps (and the other way round): whatever the validator keeps
		// per container must not be sized by the largest container seen so far
		{name: "cbe-big-map-then-small-maps", format: "cbe", timing: true, maxN: 1 << 16, build: func(n int, _ []byte) []byte {
			out := []byte{0x9a, 0x99}
			for i := 0; i < n; i++ {
				out = append(out, 0x6c, byte(i), byte(i>>8), byte(i>>16), byte(i>>24), 0x01)
			}
			out = append(out, 0x9b)
			out = append(out, repB([]byte{0x99, 0x01, 0x7d, 0x9b}, n)...)
			return cbeDoc(out, []byte{0x9b})
		}},
		{name: "cte-big-map-then-small-maps", format: "cte", timing: true, maxN: 1 << 14, build: func(n int, _ []byte) []byte {
			var b strings.Builder
			b.WriteString("c0\n[{")
			for i := 0; i < n; i++ {
				fmt.Fprintf(&b, "%d=1 ", i)
			}
			b.WriteString("} " + rep("{1=null} ", n) + "]")
			return []byte(b.String())
		}},
		{name: "cbe-padding-run", format: "cbe", timing: true, maxN: 1 << 21, build: func(n int, _ []byte) []byte {
			return cbeDoc(repB([]byte{0x95}, n), []byte{1})
		}},
		{name: "cbe-uleb-continuation-run", format: "cbe", timing: true, maxN: 1 << 20, build: func(n int, _ []byte) []byte {
			return cbeDoc([]byte{0x90}, repB([]byte{0x80}, n), []byte{0x02, 'a'})
		}},
		{name: "cbe-zero-length-chunks", format: "cbe", timing: true, maxN: 1 << 20, build: func(n int, _ []byte) []byte {
			return cbeDoc([]byte{0x93}, repB([]byte{0x01}, n), []byte{0x00})
		}},
		{name: "cbe-one-byte-chunks", format: "cbe", timing: true, maxN: 1 << 19, build: func(n int, _ []byte) []byte {
			return cbeDoc([]byte{0x90}, repB([]byte{0x03, 'a'}, n), []byte{0x00})
		}},
		{name: "cbe-big-u8-array", format: "cbe", timing: true, maxN: 1 << 22, build: func(n int, _ []byte) []byte {
			return cbeDoc([]byte{0x93}, uleb(uint64(n)<<1), make([]byte, n))
		}},
		{name: "cbe-long-string", format: "cbe", timing: true, maxN: 1 << 22, build: func(n int, _ []byte) []byte {
			return cbeDoc([]byte{0x90}, uleb(uint64(n)<<1), bytes.Repeat([]byte{'x'}, n))
		}},
		{name: "cbe-many-markers", format: "cbe", timing: true, maxN: 1 << 16, build: func(n int, _ []byte) []byte {
			out := []byte{0x9a}
			for i := 0; i < n; i++ {
				id := fmt.Sprintf("m%d", i)
				out = append(out, 0x7f, 0xf0, byte(len(id)))
				out = append(out, id...)
				out = append(out, 0x01)
			}
			return cbeDoc(out, []byte{0x9b})
		}},
		{name: "cbe-many-references", format: "cbe", timing: true, maxN: 1 << 16, build: func(n int, _ []byte) []byte {
			out := []byte{0x9a, 0x7f, 0xf0, 0x01, 'a', 0x01}
			out = append(out, repB([]byte{0x77, 0x01, 'a'}, n)...)
			return cbeDoc(out, []byte{0x9b})
		}},
		{name: "cbe-bigint", format: "cbe", timing: true, maxN: 1000, build: func(n int, _ []byte) []byte {
			return cbeDoc([]byte{0x66}, uleb(uint64(n)), bytes.Repeat([]byte{0xff}, n))
		}},
		// --- CTE, linear families
		{name: "cte-many-small-ints", format: "cte", timing: true, maxN: 1 << 17, build: func(n int, _ []byte) []byte {
			return []byte("c0\n[" + rep("1 ", n) + "]")
		}},
		{name: "cte-many-strings", format: "cte", timing: true, maxN: 1 << 16, build: func(n int, _ []byte) []byte {
			return []byte("c0\n[" + rep("\"ab\" ", n) + "]")
		}},
		{name: "cte-nested-lists", format: "cte", timing: true, maxN: 1 << 13, build: func(n int, _ []byte) []byte {
			return []byte("c0\n" + rep("[", n) + "1" + rep("]", n))
		}},
		{name: "cte-nested-lists-unclosed", format: "cte", timing: true, maxN: 1 << 13, build: func(n int, _ []byte) []byte {
			return []byte("c0\n" + rep("[", n) + "1")
		}},
		{name: "cte-nested-maps", format: "cte", timing: true, maxN: 1 << 13, build: func(n int, _ []byte) []byte {
			return []byte("c0\n" + rep("{1=", n) + "1" + rep("}", n))
		}},
		{name: "cte-open-braces", format: "cte", timing: true, maxN: 1 << 13, build: func(n int, _ []byte) []byte {
			return []byte("c0\n" + rep("{", n) + "\nfalse")
		}},
		{name: "cte-nested-nodes", format: "cte", timing: true, maxN: 1 << 13, build: func(n int, _ []byte) []byte {
			return []byte("c0\n" + rep("(1 ", n) + rep(")", n))
		}},
		{name: "cte-nested-comments", format: "cte", timing: true, maxN: 1 << 13, build: func(n int, _ []byte) []byte {
			return []byte("c0\n" + rep("/*", n) + rep("*/", n) + "1")
		}},
		{name: "cte-many-comments", format: "cte", timing: true, maxN: 1 << 15, build: func(n int, _ []byte) []byte {
			return []byte("c0\n[" + rep("/**/ 1 ", n) + "]")
		}},
		{name: "cte-long-string", format: "cte", timing: true, maxN: 1 << 20, build: func(n int, _ []byte) []byte {
			return []byte("c0\n\"" + rep("x", n) + "\"")
		}},
		{name: "cte-long-escapes", format: "cte", timing: true, maxN: 1 << 17, build: func(n int, _ []byte) []byte {
			return []byte("c0\n\"" + rep("\\[41]", n) + "\"")
		}},
		{name: "cte-long-whitespace", format: "cte", timing: true, maxN: 1 << 20, build: func(n int, _ []byte) []byte {
			return []byte("c0\n" + rep(" ", n) + "1")
		}},
		{name: "cte-long-integer", format: "cte", timing: true, maxN: 1 << 14, build: func(n int, _ []byte) []byte {
			return []byte("c0\n1" + rep("0", n))
		}},
		{name: "cte-long-hex-float", format: "cte", timing: true, maxN: 1 << 12, build: func(n int, _ []byte) []byte {
			return []byte("c0\n0x1." + rep("8", n) + "p1")
		}},
		{name: "cte-u8x-array", format: "cte", timing: true, maxN: 1 << 17, build: func(n int, _ []byte) []byte {
			return []byte("c0\n@u8x[" + rep("ff ", n) + "]")
		}},
		{name: "cte-f32-array", format: "cte", timing: true, maxN: 1 << 16, build: func(n int, _ []byte) []byte {
			return []byte("c0\n@f32[" + rep("1.5 ", n) + "]")
		}},
		{name: "cte-many-markers", format: "cte", timing: true, maxN: 1 << 14, build: func(n int, _ []byte) []byte {
			var b strings.Builder
			b.WriteString("c0\n[")
			for i := 0; i < n; i++ {
				fmt.Fprintf(&b, "&m%d:1 ", i)
			}
			b.WriteString("]")
			return []byte(b.String())
		}},
		{name: "cte-many-map-entries", format: "cte", timing: true, maxN: 1 << 15, build: func(n int, _ []byte) []byte {
			var b strings.Builder
			b.WriteString("c0\n{")
			for i := 0; i < n; i++ {
				fmt.Fprintf(&b, "%d=1 ", i)
			}
			b.WriteString("}")
			return []byte(b.String())
		}},
		{name: "cte-long-line-comment", format: "cte", timing: true, maxN: 1 << 20, build: func(n int, _ []byte) []byte {
			return []byte("c0\n//" + rep("x", n) + "\n1")
		}},
		{name: "cte-media-hex", format: "cte", timing: true, maxN: 1 << 17, build: func(n int, _ []byte) []byte {
			return []byte("c0\n@application/x[" + strings.TrimSpace(rep("0a ", n)) + "]")
		}},
		{name: "cte-escapes-in-one-string", format: "cte", timing: true, maxN: 1 << 17, build: func(n int, _ []byte) []byte {
			return []byte("c0\n\"" + rep("a\\n", n) + "\"")
		}},
		{name: "cte-escapes-in-one-resource-id", format: "cte", timing: true, maxN: 1 << 16, build: func(n int, _ []byte) []byte {
			return []byte("c0\n@\"" + rep("a\\[e9]\\t", n) + "\"")
		}},
		{name: "cte-many-strings-with-an-escape", format: "cte", timing: true, maxN: 1 << 15, build: func(n int, _ []byte) []byte {
			return []byte("c0\n[" + rep("\"a\\n\" ", n) + "]")
		}},
		// record type with n keys, then n records begun inside one another (each as the first field of the
		// enclosing one): what a record reserves up front must not depend on the key count
		{name: "cbe-many-keys-nested-records", format: "cbe", timing: true, maxN: 1 << 15, build: func(n int, _ []byte) []byte {
			out := []byte{0x7f, 0xf1, 0x01, 'r'}
			for i := 0; i < n; i++ {
				out = append(out, 0x6c, byte(i), byte(i>>8), byte(i>>16), byte(i>>24))
			}
			out = append(out, 0x9b)
			return cbeDoc(out, repB([]byte{0x96, 0x01, 'r'}, n), []byte{1})
		}},
		{name: "cte-many-keys-nested-records", format: "cte", timing: true, maxN: 1 << 12, build: func(n int, _ []byte) []byte {
			var b strings.Builder
			b.WriteString("c0\n@r<")
			for i := 0; i < n; i++ {
				fmt.Fprintf(&b, "%d ", i)
			}
			b.WriteString(">\n" + rep("@r{", n) + "1")
			return []byte(b.String())
		}},
		// maps read into a struct: n keys no field answers to; one field assigned n times
		{name: "cte-struct-unknown-fields", format: "cte", timing: true, maxN: 1 << 14, build: func(n int, _ []byte) []byte {
			var b strings.Builder
			b.WriteString("c0\n{")
			for i := 0; i < n; i++ {
				fmt.Fprintf(&b, "\"k%d\"=[1 2] ", i)
			}
			b.WriteString("\"a\"=1}")
			return []byte(b.String())
		}},
		{name: "cte-struct-repeated-field", format: "cte", timing: true, maxN: 1 << 14, build: func(n int, _ []byte) []byte {
			// not valid (duplicate keys): the cost is paid before or while it is rejected
			return []byte("c0\n{" + rep("\"s\"=[\"x\" \"y\"] ", n) + "}")
		}},
		{name: "cbe-struct-unknown-fields", format: "cbe", timing: true, maxN: 1 << 16, build: func(n int, _ []byte) []byte {
			out := []byte{0x99}
			for i := 0; i < n; i++ {
				out = append(out, 0x84, 'k', byte('a'+i%26), byte('a'+(i/26)%26), byte('a'+(i/676)%26), 0x9a, 0x01, 0x9b)
			}
			return cbeDoc(out, []byte{0x81, 'a', 0x01, 0x9b})
		}},
		// --- more CTE token kinds, one family each
		{name: "cte-many-records", format: "cte", timing: true, maxN: 1 << 14, build: func(n int, _ []byte) []byte {
			return []byte("c0\n@r<1 2>\n[" + rep("@r{1 2} ", n) + "]")
		}},
		{name: "cte-many-edges", format: "cte", timing: true, maxN: 1 << 14, build: func(n int, _ []byte) []byte {
			return []byte("c0\n[" + rep("@(1 2 3) ", n) + "]")
		}},
		{name: "cte-nested-edges", format: "cte", timing: true, maxN: 1 << 12, build: func(n int, _ []byte) []byte {
			return []byte("c0\n" + rep("@(", n) + "1" + rep(" 2 3)", n))
		}},
		{name: "cte-many-nodes", format: "cte", timing: true, maxN: 1 << 14, build: func(n int, _ []byte) []byte {
			return []byte("c0\n[" + rep("(1 2) ", n) + "]")
		}},
		{name: "cte-many-times", format: "cte", timing: true, maxN: 1 << 14, build: func(n int, _ []byte) []byte {
			return []byte("c0\n[" + rep("2020-01-15/10:30:00.5/Europe/Berlin ", n) + "]")
		}},
		{name: "cte-many-uids", format: "cte", timing: true, maxN: 1 << 14, build: func(n int, _ []byte) []byte {
			return []byte("c0\n[" + rep("f81d4fae-7dec-11d0-a765-00a0c91e6bf6 ", n) + "]")
		}},
		{name: "cte-many-floats", format: "cte", timing: true, maxN: 1 << 15, build: func(n int, _ []byte) []byte {
			return []byte("c0\n[" + rep("1.5e10 0x1.8p3 ", n) + "]")
		}},
		{name: "cte-many-references", format: "cte", timing: true, maxN: 1 << 14, build: func(n int, _ []byte) []byte {
			return []byte("c0\n[&a:1 " + rep("$a ", n) + "]")
		}},
		{name: "cte-many-resource-ids", format: "cte", timing: true, maxN: 1 << 14, build: func(n int, _ []byte) []byte {
			return []byte("c0\n[" + rep("@\"http://x.y/z\" ", n) + "]")
		}},
		{name: "cte-many-custom-text", format: "cte", timing: true, maxN: 1 << 13, build: func(n int, _ []byte) []byte {
			return []byte("c0\n[" + rep("@5\"ab\" ", n) + "]")
		}},
		{name: "cte-many-verbatim", format: "cte", timing: true, maxN: 1 << 13, build: func(n int, _ []byte) []byte {
			return []byte("c0\n[" + rep("\"\\.ZZ a\\bZZ\" ", n) + "]")
		}},
		{name: "cte-long-verbatim", format: "cte", timing: true, maxN: 1 << 18, build: func(n int, _ []byte) []byte {
			return []byte("c0\n\"\\.ZZ " + rep("a\\b", n) + "ZZ\"")
		}},
		{name: "cte-long-verbatim-sentinel", format: "cte", timing: true, maxN: 1 << 14, build: func(n int, _ []byte) []byte {
			return []byte("c0\n\"\\." + rep("Z", n) + " abc" + rep("Z", n) + "\"")
		}},
		{name: "cte-long-decimal-coefficient", format: "cte", timing: true, maxN: 1 << 12, build: func(n int, _ []byte) []byte {
			return []byte("c0\n1." + rep("7", n) + "e5")
		}},
		{name: "cte-long-multiline-comment", format: "cte", timing: true, maxN: 1 << 19, build: func(n int, _ []byte) []byte {
			return []byte("c0\n/*" + rep("x\n", n) + "*/1")
		}},
		{name: "cte-many-null-bool", format: "cte", timing: true, maxN: 1 << 15, build: func(n int, _ []byte) []byte {
			return []byte("c0\n[" + rep("null true false ", n) + "]")
		}},
		// every record type definition costs ANTLR one full-context prediction (272 KB allocated, 4 ms) because
		// "another record type or the top-level value" cannot be told apart with the local context: 30 KB per
		// input byte, but the same 30 KB at every size - a (large) fixed multiple, hence its own allowance
		{name: "cte-many-record-types", format: "cte", timing: true, maxN: 1 << 12, perByte: 64 << 10, build: func(n int, _ []byte) []byte {
			var b strings.Builder
			b.WriteString("c0\n")
			for i := 0; i < n; i++ {
				fmt.Fprintf(&b, "@r%d<1>\n", i)
			}
			b.WriteString("1")
			return []byte(b.String())
		}},
		{name: "cte-many-remote-refs", format: "cte", timing: true, maxN: 1 << 13, build: func(n int, _ []byte) []byte {
			return []byte("c0\n[" + rep("$\"http://x.y/z\" ", n) + "]")
		}},
		{name: "cte-bit-array", format: "cte", timing: true, maxN: 1 << 17, build: func(n int, _ []byte) []byte {
			return []byte("c0\n@b[" + rep("1 0 ", n) + "]")
		}},
		{name: "cte-uid-array", format: "cte", timing: true, maxN: 1 << 13, build: func(n int, _ []byte) []byte {
			return []byte("c0\n@uid[" + rep("f81d4fae-7dec-11d0-a765-00a0c91e6bf6 ", n) + "]")
		}},
		// --- more CBE kinds
		{name: "cbe-many-records", format: "cbe", timing: true, maxN: 1 << 17, build: func(n int, _ []byte) []byte {
			return cbeDoc([]byte{0x7f, 0xf1, 0x01, 'r', 0x01, 0x02, 0x9b, 0x9a}, repB([]byte{0x96, 0x01, 'r', 0x01, 0x02, 0x9b}, n), []byte{0x9b})
		}},
		{name: "cbe-many-edges", format: "cbe", timing: true, maxN: 1 << 17, build: func(n int, _ []byte) []byte {
			return cbeDoc([]byte{0x9a}, repB([]byte{0x97, 0x01, 0x02, 0x03, 0x9b}, n), []byte{0x9b})
		}},
		{name: "cbe-many-times", format: "cbe", timing: true, maxN: 1 << 17, build: func(n int, _ []byte) []byte {
			tv := compact_time.NewTimestamp(2020, 1, 15, 10, 30, 0, 500000000, compact_time.TZAtAreaLocation("Europe/Berlin"))
			buf := make([]byte, tv.EncodedSize()+1)
			buf[0] = 0x7c
			k := tv.EncodeToBytes(buf[1:])
			return cbeDoc([]byte{0x9a}, repB(buf[:k+1], n), []byte{0x9b})
		}},
		{name: "cbe-many-uids", format: "cbe", timing: true, maxN: 1 << 17, build: func(n int, _ []byte) []byte {
			return cbeDoc([]byte{0x9a}, repB(append([]byte{0x65}, make([]byte, 16)...), n), []byte{0x9b})
		}},
		{name: "cbe-many-floats", format: "cbe", timing: true, maxN: 1 << 18, build: func(n int, _ []byte) []byte {
			return cbeDoc([]byte{0x9a}, repB([]byte{0x70, 0xc0, 0x3f, 0x71, 0, 0, 0xc0, 0x3f, 0x76, 0x06, 0x0f}, n), []byte{0x9b})
		}},
		{name: "cbe-many-media", format: "cbe", timing: true, maxN: 1 << 16, build: func(n int, _ []byte) []byte {
			return cbeDoc([]byte{0x9a}, repB([]byte{0x7f, 0xf3, 0x03, 'a', '/', 'b', 0x04, 1, 2}, n), []byte{0x9b})
		}},
		{name: "cbe-many-custom", format: "cbe", timing: true, maxN: 1 << 17, build: func(n int, _ []byte) []byte {
			return cbeDoc([]byte{0x9a}, repB([]byte{0x92, 0x05, 0x04, 1, 2}, n), []byte{0x9b})
		}},
		{name: "cbe-many-short-typed-arrays", format: "cbe", timing: true, maxN: 1 << 17, build: func(n int, _ []byte) []byte {
			return cbeDoc([]byte{0x9a}, repB([]byte{0x7f, 0x22, 1, 0, 2, 0, 0x7f, 0x13, 1, 2, 3}, n), []byte{0x9b})
		}},
		// one large array-like value followed by many small ones: what a value costs must not depend on the
		// size of an earlier one
		{name: "cte-big-string-then-many-small", format: "cte", timing: true, maxN: 1 << 15, build: func(n int, _ []byte) []byte {
			return []byte("c0\n[\"" + rep("x", 16*n) + "\" " + rep("\"a\" ", n) + "]")
		}},
		{name: "cte-big-array-then-many-small", format: "cte", timing: true, maxN: 1 << 14, build: func(n int, _ []byte) []byte {
			return []byte("c0\n[@u8x[" + strings.TrimSpace(rep("ff ", 8*n)) + "] " + rep("@u8x[01] ", n) + "]")
		}},
		{name: "cbe-big-string-then-many-small", format: "cbe", timing: true, maxN: 1 << 17, build: func(n int, _ []byte) []byte {
			return cbeDoc([]byte{0x9a, 0x90}, uleb(uint64(16*n)<<1), bytes.Repeat([]byte{'x'}, 16*n), repB([]byte{0x90, 0x02, 'a'}, n), []byte{0x9b})
		}},
		// a record type with one long key, then n records of it: every record replays the key
		{name: "cte-long-key-many-records", format: "cte", timing: true, maxN: 1 << 13, build: func(n int, _ []byte) []byte {
			return []byte("c0\n@r<\"" + rep("k", 16*n) + "\">\n[" + rep("@r{1} ", n) + "]")
		}},
		{name: "cbe-long-key-many-records", format: "cbe", timing: true, maxN: 1 << 15, build: func(n int, _ []byte) []byte {
			key := append(append([]byte{0x90}, uleb(uint64(16*n)<<1)...), bytes.Repeat([]byte{'k'}, 16*n)...)
			return cbeDoc([]byte{0x7f, 0xf1, 0x01, 'r'}, key, []byte{0x9b, 0x9a}, repB([]byte{0x96, 0x01, 'r', 0x01, 0x9b}, n), []byte{0x9b})
		}},
		{name: "cte-record-many-values", format: "cte", timing: true, maxN: 1 << 14, build: func(n int, _ []byte) []byte {
			var b strings.Builder
			b.WriteString("c0\n@r<")
			for i := 0; i < n; i++ {
				fmt.Fprintf(&b, "%d ", i)
			}
			b.WriteString(">\n@r{" + rep("1 ", n) + "}")
			return []byte(b.String())
		}},
		{name: "cte-nested-records-closed", format: "cte", timing: true, maxN: 1 << 12, build: func(n int, _ []byte) []byte {
			return []byte("c0\n@r<1 2 3>\n" + rep("@r{", n) + "1" + rep(" 1 1}", n))
		}},
		{name: "cbe-many-record-types", format: "cbe", timing: true, maxN: 1 << 15, build: func(n int, _ []byte) []byte {
			var out []byte
			for i := 0; i < n; i++ {
				id := fmt.Sprintf("r%d", i)
				out = append(out, 0x7f, 0xf1, byte(len(id)))
				out = append(out, id...)
				out = append(out, 0x01, 0x9b)
			}
			return cbeDoc(out, []byte{1})
		}},
	}
	// tiny documents holding numbers with extreme decimal exponents, read into typed destinations: a
	// conversion must decide "does not fit" from the exponent, not by computing 10^exponent first
	// (hexadecimal floats are left out: their decimal conversion is the open finding S75)
	for _, dest := range c08NumberDests {
		dest := dest
		fams = append(fams, c08Family{name: "cte-extreme-exponents-into-" + dest, format: "cte", maxN: 64, build: func(n int, _ []byte) []byte {
			var b strings.Builder
			b.WriteString("c0\n[")
			for i := 0; i < 1+n/len(c08ExtremeNumbers); i++ {
				b.WriteString(c08ExtremeNumbers[(n+i)%len(c08ExtremeNumbers)] + " ")
			}
			b.WriteString("]")
			return []byte(b.String())
		}})
	}
	return fams
}()

var c08NumberDests = []string{"uint64", "uint8", "uint", "int64", "int8", "float64", "float32", "bigint", "bigfloat", "iface"}

var c08ExtremeNumbers = []string{
	"12345678901234567890123e2147483647", "12345678901234567890123e300000000", "12345678901234567890123e30000000", "12345678901234567890123e3000000",
	"-12345678901234567890123e2147483647", "-12345678901234567890123e30000000", "1e2147483647", "1e300000000", "7e30000000", "-3e30000000",
	"12345678901234567890123e-2147483640", "12345678901234567890123e-30000000", "1e-2147483000", "1.5e-30000000", "18446744073709551615000000000000e-12", "18446744073709551616e0",
	"100000000000000000000000e-4", "1e19", "1e20",
}

func init() {
	tm := map[string]func() interface{}{
		"uint64": func() interface{} { return []uint64{} }, "uint8": func() interface{} { return []uint8{} }, "uint": func() interface{} { return []uint{} },
		"int64": func() interface{} { return []int64{} }, "int8": func() interface{} { return []int8{} },
		"float64": func() interface{} { return []float64{} }, "float32": func() interface{} { return []float32{} },
		"bigint": func() interface{} { return []*big.Int{} }, "bigfloat": func() interface{} { return []*big.Float{} },
		"iface": func() interface{} { return []interface{}{} },
	}
	for _, d := range c08NumberDests {
		c08Templates["cte-extreme-exponents-into-"+d] = tm[d]
	}
}

func c08Family_(name string) *c08Family {
	for i := range c08Families {
		if c08Families[i].name == name {
			return &c08Families[i]
		}
	}
	return nil
}

func c08Config(maxArray int) *configuration.Configuration {
	cfg := configuration.New()
	cfg.Rules.MaxArraySizeBytes = uint64(maxArray)
	// the sweep measures decoding cost, not the other limits: leave room so that long documents are
	// processed to their end
	cfg.Rules.MaxContainerDepth = 1 << 30
	cfg.Rules.MaxObjectCount = 1 << 40
	cfg.Rules.MaxMarkerCount = 1 << 30
	cfg.Rules.MaxLocalReferenceCount = 1 << 30
	cfg.Rules.MaxIdentifierLength = 1000
	return cfg
}

// typed destinations for the "unmarshal-typed" pipeline (builder side): family name -> template
type c08Wide struct {
	A, B, C, D, E, F, G, H int
	S                      []string
	M                      map[string]int
}

var c08Templates = map[string]func() interface{}{
	"cbe-many-small-ints":       func() interface{} { return []int{} },
	"cte-many-small-ints":       func() interface{} { return []int16{} },
	"cbe-many-short-strings":    func() interface{} { return []string{} },
	"cte-many-strings":          func() interface{} { return []interface{}{} },
	"cbe-many-map-entries":      func() interface{} { return map[uint32]int8{} },
	"cte-many-map-entries":      func() interface{} { return map[int]int{} },
	"cbe-many-empty-lists":      func() interface{} { return [][]int{} },
	"cbe-big-u8-array":          func() interface{} { return []byte{} },
	"cbe-long-string":           func() interface{} { return "" },
	"cte-long-string":           func() interface{} { return "" },
	"cte-u8x-array":             func() interface{} { return []uint8{} },
	"cte-f32-array":             func() interface{} { return []float32{} },
	"cbe-nested-lists":          func() interface{} { return []interface{}{} },
	"cte-struct-unknown-fields": func() interface{} { return c08Wide{} },
	"cte-struct-repeated-field": func() interface{} { return c08Wide{} },
	"cbe-struct-unknown-fields": func() interface{} { return &c08Wide{} },
}

func c08Run(format, pipeline string, doc []byte, cfg *configuration.Configuration) {
	defer func() { recover() }() // an escaping panic is C07's business
	if strings.HasPrefix(pipeline, "unmarshal-typed:") {
		tmpl := c08Templates[strings.TrimPrefix(pipeline, "unmarshal-typed:")]()
		if format == "cbe" {
			ce.UnmarshalFromCBEDocument(doc, tmpl, cfg)
		} else {
			ce.UnmarshalFromCTEDocument(doc, tmpl, cfg)
		}
		return
	}
	if pipeline == "unmarshal-norules" {
		// the validator out of the way (Marshal.EnforceRules = false): what the decoder and the builders
		// reserve must still follow the data that arrived, not the lengths a header declares
		c2 := *cfg
		c2.Marshal.EnforceRules = false
		if format == "cbe" {
			ce.UnmarshalFromCBEDocument(doc, nil, &c2)
		} else {
			ce.UnmarshalFromCTEDocument(doc, nil, &c2)
		}
		return
	}
	if pipeline == "unmarshal" {
		if format == "cbe" {
			ce.UnmarshalFromCBEDocument(doc, nil, cfg)
		} else {
			ce.UnmarshalFromCTEDocument(doc, nil, cfg)
		}
		return
	}
	var d ce.Decoder
	if format == "cbe" {
		d = ce.NewCBEDecoder(cfg)
	} else {
		d = ce.NewCTEDecoder(cfg)
	}
	d.DecodeDocument(doc, ce.NewRules(nullevent.NewNullEventReceiver(), cfg))
}

// c08Alloc measures the bytes allocated by one decode (the test process runs one case at a time).
func c08Alloc(format, pipeline string, doc []byte, cfg *configuration.Configuration) (alloc uint64, timedOut bool) {
	var before, after runtime.MemStats
	runtime.ReadMemStats(&before)
	o := harness.Guard(harness.DefaultDeadline, func() { c08Run(format, pipeline, doc, cfg) })
	runtime.ReadMemStats(&after)
	return after.TotalAlloc - before.TotalAlloc, o.TimedOut
}

func cpuNow() time.Duration {
	var ru syscall.Rusage
	syscall.Getrusage(syscall.RUSAGE_SELF, &ru)
	return time.Duration(ru.Utime.Nano() + ru.Stime.Nano())
}

// c08Time returns the CPU time (user+system, whole process) of one decode: the smallest mean over
// `reps` batches, each batch repeating the decode until it has used at least 20 ms of CPU.
func c08Time(format, pipeline string, doc []byte, cfg *configuration.Configuration, reps int) time.Duration {
	best := time.Duration(math.MaxInt64)
	for i := 0; i < reps; i++ {
		runtime.GC()
		t0 := cpuNow()
		count := 0
		var used time.Duration
		for used < 20*time.Millisecond && count < 5000 {
			c08Run(format, pipeline, doc, cfg)
			count++
			used = cpuNow() - t0
		}
		if d := used / time.Duration(count); d < best {
			best = d
		}
	}
	return best
}

type c08Timing struct {
	Family   string    `json:"family"`
	Pipeline string    `json:"pipeline"`
	N        int       `json:"n"`
	DocBytes []int     `json:"doc_bytes"`
	Millis   []float64 `json:"cpu_ms"`
	Slope    float64   `json:"loglog_slope"`
	Verdict  string    `json:"verdict"`
}

// c08Slope measures a family at n, 2n, 4n, 8n (n chosen so that the smallest costs >= 10 ms of CPU).
func c08Slope(f *c08Family, pipeline string, steps int) c08Timing {
	cfg := c08Config(64 << 20)
	n := 256
	for n*2*(1<<uint(steps-1)) <= f.maxN {
		if c08Time(f.format, pipeline, f.build(n, nil), cfg, 1) >= 4*time.Millisecond {
			break
		}
		n *= 2
	}
	r := c08Timing{Family: f.name, Pipeline: pipeline, N: n}
	for s := 0; s < steps; s++ {
		doc := f.build(n<<uint(s), nil)
		r.DocBytes = append(r.DocBytes, len(doc))
		r.Millis = append(r.Millis, float64(c08Time(f.format, pipeline, doc, cfg, 3).Microseconds())/1000)
	}
	first, last := r.Millis[0], r.Millis[len(r.Millis)-1]
	if first < 0.05 {
		first = 0.05
	}
	r.Slope = math.Log2(last/first) / float64(steps-1)
	return r
}

// c08AllocScaling measures the bytes allocated by one decode at n, 2n, 4n and 8n (each document is
// decoded once before it is measured, so that lazily built caches are not charged) and the log-log
// slope between the first and the last. Allocation counts, unlike times, do not depend on the load of
// the machine.
type c08Scaling struct {
	Family   string   `json:"family"`
	Pipeline string   `json:"pipeline"`
	N        int      `json:"n"`
	DocBytes []int    `json:"doc_bytes"`
	Alloc    []uint64 `json:"alloc_bytes"`
	Slope    float64  `json:"alloc_log_log_slope"`
	Verdict  string   `json:"verdict"`
}

func c08AllocScaling(f *c08Family, pipeline string, thorough bool) (r c08Scaling, timedOut bool) {
	cfg := c08Config(64 << 20)
	n := 512
	if thorough {
		n = 2048
	}
	for n*8 > f.maxN && n > 1 {
		n /= 2
	}
	r = c08Scaling{Family: f.name, Pipeline: pipeline, N: n}
	for s := 0; s < 4; s++ {
		doc := f.build(n<<uint(s), nil)
		if _, to := c08Alloc(f.format, pipeline, doc, cfg); to {
			return r, true
		}
		a, to := c08Alloc(f.format, pipeline, doc, cfg)
		if to {
			return r, true
		}
		r.DocBytes = append(r.DocBytes, len(doc))
		r.Alloc = append(r.Alloc, a)
	}
	first, last := float64(r.Alloc[0]), float64(r.Alloc[3])
	if first < 4096 {
		first = 4096
	}
	r.Slope = math.Log2(last/first) / 3
	r.Verdict = "linear"
	// quadratic growth quadruples the allocation with every doubling; anything that still more than
	// triples on each of the last two doublings, and is not small, is not "a fixed multiple of the length"
	if r.Slope >= 1.5 && r.Alloc[3] >= 8<<20 && float64(r.Alloc[3]) >= 3*float64(r.Alloc[2]) && float64(r.Alloc[2]) >= 3*float64(r.Alloc[1]) {
		r.Verdict = "super-linear"
	}
	return r, false
}

func genC08(t *rapid.T, ctx *Ctx) interface{} {
	f := c08Families[rapid.IntRange(0, len(c08Families)-1).Draw(t, "family")]
	if key := c08KnownFamilies[f.name]; key != "" && harness.Open(key) {
		ctx.Stats.Exclude(key)
		f = c08Families[0]
	}
	c := &C08Case{Family: f.name, MaxArray: rapid.SampledFrom([]int{1 << 10, 64 << 10, 1 << 20}).Draw(t, "maxarray"),
		Pipeline: rapid.SampledFrom([]string{"decode", "unmarshal", "unmarshal", "unmarshal-norules"}).Draw(t, "pipeline")}
	if c08Templates[f.name] != nil && rapid.Bool().Draw(t, "typed") {
		c.Pipeline = "unmarshal-typed:" + f.name
	}
	if f.hostile {
		c.Hostile = rapid.IntRange(0, len(gen.HostileULEB)-1).Draw(t, "hostile")
		c.N = rapid.SampledFrom([]int{0, 1, 3, 16, 100, 126, 127, 128, 129, 200, 255, 256, 300, 600, 1000, 5000}).Draw(t, "payload")
	} else {
		hi := 4096
		if ctx.Thorough() {
			hi = 65536
		}
		if hi > f.maxN {
			hi = f.maxN
		}
		c.N = rapid.IntRange(1, hi).Draw(t, "n")
	}
	return c
}

func init() {
	Register(&Prop{
		ID:  "C08",
		New: func() interface{} { return &C08Case{} },
		Gen: genC08,
		Fixed: func(ctx *Ctx, report func(c interface{}, err error)) {
			// time linearity: families are partitioned over the shards
			c08Warm()
			idx := 0
			for i := range c08Families {
				f := &c08Families[i]
				if !f.timing {
					continue
				}
				idx++
				if idx%ctx.Shards != ctx.Shard {
					continue
				}
				pipelines := []string{"decode", "unmarshal"}
				if c08Templates[f.name] != nil {
					pipelines = append(pipelines, "unmarshal-typed:"+f.name)
				}
				for _, pipeline := range pipelines {
					famStart := time.Now()
					if key := c08KnownFamilies[f.name]; key != "" && harness.Open(key) {
						ctx.Stats.Exclude(key)
						continue
					}
					if sc, to := c08AllocScaling(f, pipeline, ctx.Thorough()); !to {
						ctx.Stats.Count("alloc-scaling:"+sc.Verdict, 1)
						ctx.Stats.Bulk(int64(len(sc.Alloc)), 1)
						if sc.Slope > 1.15 {
							ctx.Stats.Note(fmt.Sprintf("alloc-scaling slope above 1.15: %s (%s) %.2f, bytes allocated %v for documents of %v bytes", f.name, pipeline, sc.Slope, sc.Alloc, sc.DocBytes))
						}
						if f.name == "cte-escapes-in-one-string" || f.name == "cbe-many-keys-nested-records" {
							ctx.Stats.AddSample(sc)
						}
						if sc.Verdict == "super-linear" {
							report(&C08Case{Family: f.name, N: sc.N, Pipeline: pipeline, MaxArray: 64 << 20, Mode: "alloc"},
								fmt.Errorf("allocation of family %s (%s) grows faster than linearly with the document: %v bytes allocated for document sizes %v (log-log slope %.2f)", f.name, pipeline, sc.Alloc, sc.DocBytes, sc.Slope))
							return
						}
					}
					r := c08Slope(f, pipeline, 4)
					switch {
					case r.Slope < 1.5:
						r.Verdict = "linear"
					case r.Slope < 1.8:
						r.Verdict = "inconclusive"
					default:
						// confirm with a fresh, longer measurement before calling it a violation
						r2 := c08Slope(f, pipeline, 5)
						k := len(r2.Millis)
						if r2.Slope >= 1.8 && r2.Millis[k-1] >= 3*r2.Millis[k-2] && r2.Millis[k-2] >= 3*r2.Millis[k-3] {
							r = r2
							r.Verdict = "super-linear"
						} else {
							r.Verdict = "inconclusive"
						}
					}
					if d := time.Since(famStart); d > 8*time.Second {
						ctx.Stats.Note(fmt.Sprintf("cost of the deterministic part: %s (%s) took %.0f s", f.name, pipeline, d.Seconds()))
					}
					if r.Slope >= 1.3 {
						ctx.Stats.Note(fmt.Sprintf("timing slope above 1.3: %s (%s) %.2f (%s), CPU ms %v for documents of %v bytes", f.name, pipeline, r.Slope, r.Verdict, r.Millis, r.DocBytes))
					}
					ctx.Stats.Count("timing:"+r.Verdict, 1)
					ctx.Stats.Bulk(int64(len(r.Millis)), 1)
					ctx.Stats.AddSample(r)
					if r.Verdict == "super-linear" {
						report(&C08Case{Family: f.name, N: r.N, Pipeline: pipeline, MaxArray: 64 << 20, Mode: "time"},
							fmt.Errorf("decoding time of family %s (%s) grows faster than linearly: CPU ms %v for document sizes %v (log-log slope %.2f)", f.name, pipeline, r.Millis, r.DocBytes, r.Slope))
					}
				}
			}
		},
		Check: func(ci interface{}, ctx *Ctx) error {
			c := ci.(*C08Case)
			f := c08Family_(c.Family)
			if f == nil {
				return fmt.Errorf("harness: unknown family %q", c.Family)
			}
			c08Warm()
			if c.Mode == "alloc" {
				sc, to := c08AllocScaling(f, c.Pipeline, ctx.Thorough())
				if to {
					ctx.Hung = true
					return fmt.Errorf("decoding documents of family %s did not finish within the deadline", c.Family)
				}
				if sc.Verdict == "super-linear" {
					return fmt.Errorf("allocation of family %s (%s) grows faster than linearly with the document: %v bytes allocated for document sizes %v (log-log slope %.2f)", f.name, c.Pipeline, sc.Alloc, sc.DocBytes, sc.Slope)
				}
				return nil
			}
			if c.Mode == "time" {
				r := c08Slope(f, c.Pipeline, 5)
				k := len(r.Millis)
				if r.Slope >= 1.8 && r.Millis[k-1] >= 3*r.Millis[k-2] && r.Millis[k-2] >= 3*r.Millis[k-3] {
					return fmt.Errorf("decoding time of family %s (%s) grows faster than linearly: CPU ms %v for document sizes %v (log-log slope %.2f)", f.name, c.Pipeline, r.Millis, r.DocBytes, r.Slope)
				}
				return nil
			}
			var h []byte
			if f.hostile {
				h = gen.HostileULEB[c.Hostile%len(gen.HostileULEB)]
			}
			doc := f.build(c.N, h)
			cfg := c08Config(c.MaxArray)
			ctx.Label("family:" + c.Family)
			ctx.Label("pipeline:" + c.Pipeline)
			ctx.Label(fmt.Sprintf("max-array:%d", c.MaxArray))
			ctx.LabelIf(f.hostile, "hostile-length")
			ctx.LabelIf(f.hostile && c.N >= 127, "hostile-length with >= 127 payload bytes")
			ctx.NonTrivial(f.hostile || c.N >= 1000)
			caseStart := time.Now()
			alloc, timedOut := c08Alloc(f.format, c.Pipeline, doc, cfg)
			ctx.Stats.Count("ms_in_random_part:"+c.Family, time.Since(caseStart).Milliseconds())
			if timedOut {
				ctx.Hung = true
				return fmt.Errorf("decoding a %d-byte document of family %s did not finish within the deadline", len(doc), c.Family)
			}
			perByte := c08PerByte[f.format]
			if f.perByte > 0 {
				perByte = f.perByte
			}
			bound := uint64(c08Base) + uint64(perByte)*uint64(len(doc)) + 4*uint64(c.MaxArray)
			ctx.Stats.Count("alloc_bytes_total", int64(alloc))
			ctx.Stats.Count("doc_bytes_total", int64(len(doc)))
			if alloc > bound {
				return fmt.Errorf("family %s (%s): a %d-byte document made the decoder allocate %d bytes; bound = %d + %d*len + 4*MaxArraySizeBytes(%d) = %d\ndoc=%s",
					c.Family, c.Pipeline, len(doc), alloc, c08Base, perByte, c.MaxArray, bound, docdump(f.format, doc[:min(len(doc), 64)]))
			}
			return nil
		},
	})
}
