package props

import (
	"bytes"
	"fmt"
	"reflect"
	"strings"

	"github.com/kstenerud/go-concise-encoding/ce"
	"pgregory.net/rapid"

	"verif/internal/ev"
	"verif/internal/gen"
)

// C27 — format detection and version headers are handled consistently: the universal entry points
// behave exactly like the format-specific one selected by the first byte ('c' / 'C' -> CTE, 0x81 -> CBE,
// anything else -> error); versions 0 and 1 are accepted and reported as 0, all others rejected; every
// encoder writes version 0.

type C27Case struct {
	Doc      []byte `json:"doc"`
	Template string `json:"template"` // nil | list | map
	Note     string `json:"note,omitempty"`
}

func c27Template(name string) interface{} {
	switch name {
	case "list":
		return []interface{}{}
	case "map":
		return map[interface{}]interface{}{}
	}
	return nil
}

// resultsAgree compares two unmarshal outcomes (value by a cycle-safe structural comparison).
func sameValue(a, b interface{}) bool {
	return looseEq(reflect.ValueOf(a), reflect.ValueOf(b), 0)
}

func looseEq(a, b reflect.Value, depth int) bool {
	if depth > 64 {
		return true
	}
	if !a.IsValid() || !b.IsValid() {
		return a.IsValid() == b.IsValid()
	}
	if a.Type() != b.Type() {
		return false
	}
	switch a.Kind() {
	case reflect.Interface, reflect.Ptr:
		if a.IsNil() || b.IsNil() {
			return a.IsNil() == b.IsNil()
		}
		return looseEq(a.Elem(), b.Elem(), depth+1)
	case reflect.Slice, reflect.Array:
		if a.Kind() == reflect.Slice && (a.IsNil() != b.IsNil()) {
			return false
		}
		if a.Len() != b.Len() {
			return false
		}
		for i := 0; i < a.Len(); i++ {
			if !looseEq(a.Index(i), b.Index(i), depth+1) {
				return false
			}
		}
		return true
	case reflect.Map:
		if a.Len() != b.Len() {
			return false
		}
		var loose []reflect.Value // keys of a that b does not have by == (pointer keys such as *url.URL)
		for _, k := range a.MapKeys() {
			bv := b.MapIndex(k)
			if !bv.IsValid() {
				loose = append(loose, k)
				continue
			}
			if !looseEq(a.MapIndex(k), bv, depth+1) {
				return false
			}
		}
		if len(loose) > 0 {
			// match them one to one against b's keys by content
			used := map[int]bool{}
			bkeys := b.MapKeys()
			for _, k := range loose {
				found := false
				for j, bk := range bkeys {
					if used[j] || a.MapIndex(bk).IsValid() {
						continue
					}
					if looseEq(k, bk, depth+1) && looseEq(a.MapIndex(k), b.MapIndex(bk), depth+1) {
						used[j], found = true, true
						break
					}
				}
				if !found {
					return false
				}
			}
		}
		return true
	case reflect.Struct:
		// structs with exported fields only (types.Node, types.Edge, types.Media, user structs) are
		// compared field by field: their printed form is not stable when they hold a map with several
		// pointer keys (fmt sorts such keys by address)
		allExported := a.NumField() > 0
		for i := 0; i < a.NumField(); i++ {
			if a.Type().Field(i).PkgPath != "" {
				allExported = false
			}
		}
		if allExported {
			for i := 0; i < a.NumField(); i++ {
				if !looseEq(a.Field(i), b.Field(i), depth+1) {
					return false
				}
			}
			return true
		}
		if a.CanInterface() && b.CanInterface() {
			return fmt.Sprintf("%+v", a.Interface()) == fmt.Sprintf("%+v", b.Interface()) || reflect.DeepEqual(a.Interface(), b.Interface())
		}
		return true
	case reflect.Float32, reflect.Float64:
		x, y := a.Float(), b.Float()
		return x == y || (x != x && y != y)
	}
	if a.CanInterface() && b.CanInterface() {
		return reflect.DeepEqual(a.Interface(), b.Interface())
	}
	return true
}

func eventsEqual(a, b []ev.Event) bool {
	if len(a) != len(b) {
		return false
	}
	for i := range a {
		if !ev.StrictEqual(&a[i], &b[i]) {
			if a[i].K == ev.Float && b[i].K == ev.Float && a[i].F != a[i].F && b[i].F != b[i].F {
				continue
			}
			return false
		}
	}
	return true
}

func genC27(t *rapid.T, ctx *Ctx) interface{} {
	c := &C27Case{Template: rapid.SampledFrom([]string{"nil", "nil", "list", "map"}).Draw(t, "template")}
	if rapid.IntRange(0, 19).Draw(t, "empty") == 0 {
		c.Doc = []byte{}
		c.Note = "empty"
		return c
	}
	cfg := newCfg()
	o := gen.EvOpts{Comments: true, Padding: true, CustomBinary: true, Media: true, Markers: true, Records: true, Chunked: true, URLRID: true,
		MaxDepth: 3, MaxArr: 20, Budget: 12, NoEdge: true}
	avoid(ctx, &o, "S59-marked-node-value", "S35-key-reference", "S34-reference-in-node")
	o.NoBitArray, o.NoUIDArray = true, true
	evs := gen.Document(t, o)
	isCBE := rapid.Bool().Draw(t, "cbe")
	var doc []byte
	var idx int
	if isCBE {
		doc, idx, _ = encodeCBE(evs, cfg)
	} else {
		doc, idx, _ = encodeCTE(evs, cfg)
	}
	if idx >= 0 || len(doc) < 2 {
		doc = []byte("c0\nnull")
		isCBE = false
	}
	// version variants
	switch rapid.IntRange(0, 5).Draw(t, "ver") {
	case 0, 1: // keep version 0
	case 2: // version 1
		if isCBE && rapid.Bool().Draw(t, "padded") {
			// version 0 or 1 spelled with redundant ULEB groups: still version 0 / 1
			pad := rapid.SampledFrom([][]byte{{0x80, 0x00}, {0x81, 0x00}, {0x80, 0x80, 0x00}, {0x81, 0x80, 0x80, 0x00}, {0x80, 0x80, 0x80, 0x80, 0x80, 0x80, 0x80, 0x80, 0x80, 0x00}}).Draw(t, "padver")
			doc = append(append([]byte{doc[0]}, pad...), doc[2:]...)
			c.Note = fmt.Sprintf("padded-version:%d", len(pad))
			break
		}
		if isCBE {
			doc[1] = 1
		} else {
			doc[1] = '1'
		}
		c.Note = "version1"
	default:
		if isCBE {
			var vb []byte
			if rapid.IntRange(0, 2).Draw(t, "cbewide") == 0 {
				// version numbers of 64 bits and more (10+ ULEB bytes): 2^64 + {0, 1, 2}, 2^70, 2^127 + 1, 2^64 with a redundant zero group
				vb = rapid.SampledFrom([][]byte{
					{0x80, 0x80, 0x80, 0x80, 0x80, 0x80, 0x80, 0x80, 0x80, 0x02},
					{0x81, 0x80, 0x80, 0x80, 0x80, 0x80, 0x80, 0x80, 0x80, 0x02},
					{0x82, 0x80, 0x80, 0x80, 0x80, 0x80, 0x80, 0x80, 0x80, 0x02},
					{0x80, 0x80, 0x80, 0x80, 0x80, 0x80, 0x80, 0x80, 0x80, 0x80, 0x01},
					{0x81, 0x80, 0x80, 0x80, 0x80, 0x80, 0x80, 0x80, 0x80, 0x80, 0x80, 0x80, 0x80, 0x80, 0x80, 0x80, 0x80, 0x80, 0x02},
					{0x80, 0x80, 0x80, 0x80, 0x80, 0x80, 0x80, 0x80, 0x80, 0x82, 0x00},
					{0xff, 0xff, 0xff, 0xff, 0xff, 0xff, 0xff, 0xff, 0xff, 0x01}, // 2^64 - 1
				}).Draw(t, "cbeverwide")
			} else {
				vb = uleb(rapid.SampledFrom([]uint64{2, 3, 127, 128, 129, 255, 256, 300, 16384, 1 << 32, 1<<32 + 1, 1 << 63, 1<<64 - 1}).Draw(t, "cbever"))
			}
			doc = append(append([]byte{doc[0]}, vb...), doc[2:]...)
		} else {
			v := rapid.SampledFrom([]string{"2", "9", "10", "01", "00", "11", "", "18446744073709551616", "18446744073709551617", "4294967296", "4294967297", "-1", "-0", "1.0", "0x1", "1_"}).Draw(t, "ctever")
			doc = append(append([]byte{doc[0]}, v...), doc[2:]...)
		}
		c.Note = "other-version"
	}
	// first byte variants
	switch rapid.IntRange(0, 7).Draw(t, "first") {
	case 0, 1, 2: // keep
	case 3:
		if !isCBE {
			doc[0] = 'C'
			c.Note += " upper-C"
		}
	case 4:
		doc[0] = byte(rapid.IntRange(0, 255).Draw(t, "b0"))
		c.Note += " random-first-byte"
	case 5:
		doc[0] = rapid.SampledFrom([]byte{'c', 'C', 0x81}).Draw(t, "swap")
		c.Note += " swapped-signature"
	default:
		// body mutation: flip / truncate
		if len(doc) > 3 {
			if rapid.Bool().Draw(t, "trunc") {
				doc = doc[:rapid.IntRange(1, len(doc)-1).Draw(t, "cut")]
			} else {
				i := rapid.IntRange(2, len(doc)-1).Draw(t, "pos")
				doc[i] ^= byte(1 << uint(rapid.IntRange(0, 7).Draw(t, "bit")))
			}
			c.Note += " mutated-body"
		}
	}
	c.Doc = doc
	return c
}

func init() {
	Register(&Prop{
		ID:  "C27",
		New: func() interface{} { return &C27Case{} },
		Gen: genC27,
		// encoders write version 0 (deterministic part)
		Fixed: func(ctx *Ctx, report func(c interface{}, err error)) {
			if ctx.Shard != 0 {
				return
			}
			cfg := newCfg()
			evs := []ev.Event{{K: ev.BD}, {K: ev.Version, U: 0}, {K: ev.Null}, {K: ev.ED}}
			b, _, _ := encodeCBE(evs, cfg)
			if len(b) < 2 || b[0] != 0x81 || b[1] != 0 {
				report(&C27Case{Doc: b, Note: "cbe encoder header"}, fmt.Errorf("CBE encoder does not start with signature and version 0: %x", b))
			}
			tx, _, _ := encodeCTE(evs, cfg)
			if !bytes.HasPrefix(tx, []byte("c0")) {
				report(&C27Case{Doc: tx, Note: "cte encoder header"}, fmt.Errorf("CTE encoder does not start with c0: %q", tx))
			}
			for _, f := range []string{"cbe", "cte"} {
				d, err, _ := marshalDoc(ctx, f, []int{1}, cfg)
				if err != nil || len(d) < 2 || (f == "cbe" && (d[0] != 0x81 || d[1] != 0)) || (f == "cte" && !bytes.HasPrefix(d, []byte("c0"))) {
					report(&C27Case{Doc: d, Note: f + " marshaler header"}, fmt.Errorf("%s marshaler does not write version 0: %x", f, d))
				}
			}
		},
		Check: func(ci interface{}, ctx *Ctx) error {
			c := ci.(*C27Case)
			cfg := newCfg()
			tmpl := c27Template(c.Template)
			kind := "other"
			if len(c.Doc) > 0 {
				switch c.Doc[0] {
				case 'c', 'C':
					kind = "cte"
				case 0x81:
					kind = "cbe"
				}
			}
			ctx.Label("detected:" + kind)
			ctx.LabelIf(c.Note != "", "variant:"+c.Note)
			doc := func() []byte { return append([]byte{}, c.Doc...) }
			// ---- specific entry points
			var sres interface{}
			var serr error
			var sevs []ev.Event
			var sderr error
			if kind != "other" {
				var bad error
				sres, serr, bad = unmarshalDoc(ctx, kind, doc(), tmpl, cfg)
				if bad != nil {
					return fmt.Errorf("specific unmarshal: %v", bad)
				}
				o := ctx.Guard(func() {
					if kind == "cbe" {
						sevs, sderr = decodeCBE(doc(), cfg)
					} else {
						sevs, sderr = decodeCTE(doc(), cfg)
					}
				})
				if o.TimedOut || o.Panic != nil {
					return fmt.Errorf("specific decoder: %v", o)
				}
			}
			ctx.NonTrivial(kind != "other" && serr == nil)
			ctx.LabelIf(serr == nil && kind != "other", "specific-accepts")
			// ---- universal entry points
			type ures struct {
				name string
				res  interface{}
				err  error
			}
			var us []ures
			for _, name := range []string{"UnmarshalFromCEDocument", "UnmarshalCE"} {
				var r interface{}
				var e error
				o := ctx.Guard(func() {
					if name == "UnmarshalCE" {
						r, e = ce.UnmarshalCE(bytes.NewReader(doc()), tmpl, cfg)
					} else {
						r, e = ce.UnmarshalFromCEDocument(doc(), tmpl, cfg)
					}
				})
				if o.TimedOut || o.Panic != nil {
					return fmt.Errorf("%s: %v\ndoc=%s", name, o, hexdump(c.Doc))
				}
				us = append(us, ures{name, r, e})
			}
			for _, u := range us {
				if kind == "other" {
					if u.err == nil {
						return fmt.Errorf("%s accepted a document whose first byte is neither c, C nor 0x81: %s", u.name, hexdump(c.Doc))
					}
					continue
				}
				if (u.err == nil) != (serr == nil) {
					return fmt.Errorf("%s: error=%v, the %s entry point: error=%v\ndoc=%s", u.name, u.err, kind, serr, docdump(kind, c.Doc))
				}
				if serr == nil && !sameValue(u.res, sres) {
					return fmt.Errorf("%s returned a different value than the %s entry point\ndoc=%s", u.name, kind, docdump(kind, c.Doc))
				}
				if serr != nil && !sameValue(u.res, sres) {
					// what was built before the error is returned together with it (C09 relies on that)
					return fmt.Errorf("%s returned %s together with its error, the %s entry point %s\ndoc=%s", u.name, describe(u.res), kind, describe(sres), docdump(kind, c.Doc))
				}
			}
			// "after ...": the same universal decoder object has read a document of the other (or of the same)
			// format before - detection is per document, not per decoder
			for _, name := range []string{"DecodeDocument", "Decode", "DecodeDocument after CBE", "Decode after CBE", "DecodeDocument after CTE", "Decode after CTE"} {
				rec := ev.NewRecorder()
				var e error
				o := ctx.Guard(func() {
					d := ce.NewCEDecoder(cfg)
					if strings.HasSuffix(name, "after CBE") {
						if pe := d.DecodeDocument([]byte{0x81, 0x00, 0x01}, ce.NewRules(ev.NewRecorder(), cfg)); pe != nil {
							panic(fmt.Sprintf("harness: priming document rejected: %v", pe))
						}
					} else if strings.HasSuffix(name, "after CTE") {
						if pe := d.Decode(strings.NewReader("c0\n[1]"), ce.NewRules(ev.NewRecorder(), cfg)); pe != nil {
							panic(fmt.Sprintf("harness: priming document rejected: %v", pe))
						}
					}
					if strings.HasPrefix(name, "Decode ") || name == "Decode" {
						e = d.Decode(bytes.NewReader(doc()), ce.NewRules(rec, cfg))
					} else {
						e = d.DecodeDocument(doc(), ce.NewRules(rec, cfg))
					}
				})
				if o.TimedOut || o.Panic != nil {
					return fmt.Errorf("universal decoder %s: %v\ndoc=%s", name, o, hexdump(c.Doc))
				}
				if kind == "other" {
					if e == nil {
						return fmt.Errorf("universal decoder %s accepted a document whose first byte is neither c, C nor 0x81: %s", name, hexdump(c.Doc))
					}
					continue
				}
				if (e == nil) != (sderr == nil) {
					return fmt.Errorf("universal decoder %s: error=%v, the %s decoder: error=%v\ndoc=%s", name, e, kind, sderr, docdump(kind, c.Doc))
				}
				if sderr == nil && !eventsEqual(rec.Events, sevs) {
					return fmt.Errorf("universal decoder %s produced different events than the %s decoder\n%s\n%s", name, kind, ev.ListString(rec.Events), ev.ListString(sevs))
				}
			}
			// ---- versions
			if kind != "other" && sderr == nil {
				if len(sevs) < 2 || sevs[1].K != ev.Version || sevs[1].U != 0 {
					return fmt.Errorf("accepted document reports version event %v, expected version 0\ndoc=%s", sevs[1], docdump(kind, c.Doc))
				}
			}
			// the notes say how the header was made; "version1" / "other-version" stay meaningful when the
			// header letter was upper-cased, and "version1" also when the body was damaged
			firstByteReplaced := strings.Contains(c.Note, "random-first-byte") || strings.Contains(c.Note, "swapped-signature")
			if strings.HasPrefix(c.Note, "version1") && !firstByteReplaced && kind != "other" && len(c.Doc) >= 2 && (c.Doc[1] == 1 || c.Doc[1] == '1') {
				// a version-1 header must be treated exactly like version 0
				d0 := doc()
				if kind == "cbe" {
					d0[1] = 0
				} else {
					d0[1] = '0'
				}
				var e0 error
				o := ctx.Guard(func() {
					if kind == "cbe" {
						_, e0 = decodeCBE(d0, cfg)
					} else {
						_, e0 = decodeCTE(d0, cfg)
					}
				})
				if o.TimedOut || o.Panic != nil {
					return fmt.Errorf("decoder: %v", o)
				}
				if (e0 == nil) != (sderr == nil) {
					return fmt.Errorf("version 1 is not handled like version 0 by the %s decoder: v0 error=%v, v1 error=%v\ndoc=%s", kind, e0, sderr, docdump(kind, c.Doc))
				}
			}
			if strings.HasPrefix(c.Note, "padded-version:") && !firstByteReplaced && !strings.Contains(c.Note, "mutated-body") && kind == "cbe" {
				var k int
				fmt.Sscanf(c.Note, "padded-version:%d", &k)
				if len(c.Doc) > 1+k {
					d0 := append([]byte{0x81, 0x00}, c.Doc[1+k:]...)
					_, e0 := decodeCBE(d0, cfg)
					if (e0 == nil) != (sderr == nil) {
						return fmt.Errorf("a version 0 / 1 spelled with redundant ULEB groups is not handled like version 0 by the cbe decoder: canonical error=%v, padded error=%v\ndoc=%s", e0, sderr, docdump(kind, c.Doc))
					}
				}
			}
			if strings.HasPrefix(c.Note, "other-version") && !firstByteReplaced && !strings.Contains(c.Note, "mutated-body") && kind != "other" && sderr == nil {
				return fmt.Errorf("a version other than 0 or 1 was accepted by the %s decoder\ndoc=%s", kind, docdump(kind, c.Doc))
			}
			return nil
		},
	})
}
