package props

import (
	"encoding/binary"
	"fmt"
	"math"
	"math/big"
	"strings"
	"unicode"

	compact_float "github.com/kstenerud/go-compact-float"
	compact_time "github.com/kstenerud/go-compact-time"
	"github.com/kstenerud/go-concise-encoding/ce/events"

	"verif/internal/canon"
	"verif/internal/ev"
	"verif/internal/gen"
)

// M-ITER / M-FIELDS: an independent function from a Go value (type spec + value spec) and an iterator
// configuration to the document tree the marshaler must describe.

type iterModel struct {
	Snake       bool
	DefaultOmit string            // never | empty | zero
	RecordNames map[string]string // type spec JSON -> record name
}

// snakeName: the conventional snake_case of the names the generators use.
func snakeName(name string) string {
	var sb strings.Builder
	rs := []rune(name)
	for i, r := range rs {
		if unicode.IsUpper(r) {
			prevLower := i > 0 && (unicode.IsLower(rs[i-1]) || unicode.IsDigit(rs[i-1]))
			nextLower := i+1 < len(rs) && unicode.IsLower(rs[i+1])
			prevUpper := i > 0 && unicode.IsUpper(rs[i-1])
			if i > 0 && (prevLower || (prevUpper && nextLower)) {
				sb.WriteByte('_')
			}
			sb.WriteRune(unicode.ToLower(r))
		} else {
			sb.WriteRune(r)
		}
	}
	return sb.String()
}

type fieldTag struct {
	name  string
	omit  string // "", always, never, empty, zero
	order int64
	has   bool
}

func parseTag(f gen.FieldSpec) fieldTag {
	t := fieldTag{name: f.Name, order: math.MaxInt64}
	tag := f.Tag
	if !strings.HasPrefix(tag, `ce:"`) {
		return t
	}
	body := strings.TrimSuffix(strings.TrimPrefix(tag, `ce:"`), `"`)
	for _, e := range strings.Split(body, ",") {
		kv := strings.SplitN(strings.TrimSpace(e), "=", 2)
		switch strings.TrimSpace(kv[0]) {
		case "omit":
			t.omit = "always"
		case "omit_empty":
			t.omit = "empty"
		case "omit_zero":
			t.omit = "zero"
		case "omit_never":
			t.omit = "never"
		case "name":
			t.name = strings.TrimSpace(kv[1])
		case "order":
			fmt.Sscanf(strings.TrimSpace(kv[1]), "%d", &t.order)
		}
	}
	return t
}

func isEmptyVal(s *gen.TypeSpec, v *gen.Val) bool {
	switch s.K {
	case "ptr":
		return v.Nil
	case "iface":
		return v.Dyn == nil
	case "slice":
		return v.Nil || len(v.Elems) == 0
	case "map":
		return v.Nil || len(v.Keys) == 0
	case "array":
		return s.Len == 0
	case "string":
		return len(v.S) == 0
	}
	return false
}

// goZero follows Go's notion of the zero value (reflect.Value.IsZero): nil for pointers, interfaces,
// slices and maps; all elements / fields zero for arrays and structs.
func goZero(s *gen.TypeSpec, v *gen.Val) bool {
	switch s.K {
	case "bool":
		return !v.B
	case "int", "int8", "int16", "int32", "int64":
		return v.I == 0
	case "uint", "uint8", "uint16", "uint32", "uint64":
		return v.U == 0
	case "float32":
		return math.Float32frombits(uint32(v.F)) == 0 // Go's == : -0 counts as zero
	case "float64":
		return math.Float64frombits(v.F) == 0
	case "string":
		return len(v.S) == 0
	case "ptr", "slice", "map":
		return v.Nil
	case "iface":
		return v.Dyn == nil
	case "array":
		for _, e := range v.Elems {
			if !goZero(s.Elem, e) {
				return false
			}
		}
		return true
	case "struct":
		for i, f := range s.Fields {
			if !goZero(f.Type, v.Elems[i]) {
				return false
			}
		}
		return true
	}
	// special struct types: decided by reflect's IsZero on the realised value
	return gen.Build(s, v).IsZero()
}

// isZeroVal: the Go zero value, or empty.
func isZeroVal(s *gen.TypeSpec, v *gen.Val) bool {
	return goZero(s, v) || isEmptyVal(s, v)
}

type flatField struct {
	tag fieldTag
	typ *gen.TypeSpec
	val *gen.Val
}

// flatten lists the fields a struct contributes, embedded structs inlined, sorted by order (stable).
func (m *iterModel) flatten(s *gen.TypeSpec, v *gen.Val, out []flatField) []flatField {
	for i, f := range s.Fields {
		t := parseTag(f)
		if t.omit == "always" {
			continue
		}
		var fv *gen.Val
		if v != nil {
			fv = v.Elems[i]
		}
		if f.Embedded {
			out = m.flatten(f.Type, fv, out)
			continue
		}
		out = append(out, flatField{t, f.Type, fv})
	}
	// stable sort by order
	for i := 1; i < len(out); i++ {
		for j := i; j > 0 && out[j].tag.order < out[j-1].tag.order; j-- {
			out[j], out[j-1] = out[j-1], out[j]
		}
	}
	return out
}

// recordFields: the fields a record type declares (and every record of it supplies): everything that is
// not omitted in all cases, i.e. not tagged omit and - under the default "always" - carrying an omit tag of its own.
func (m *iterModel) recordFields(s *gen.TypeSpec, v *gen.Val) []flatField {
	var out []flatField
	for _, f := range m.flatten(s, v, nil) {
		if f.tag.omit == "" && m.DefaultOmit == "always" {
			continue
		}
		out = append(out, f)
	}
	return out
}

func (m *iterModel) fieldName(t fieldTag) string {
	if m.Snake {
		return snakeName(t.name)
	}
	return t.name
}

func (m *iterModel) keep(f flatField) bool {
	omit := f.tag.omit
	if omit == "" {
		omit = m.DefaultOmit
	}
	switch omit {
	case "always":
		return false
	case "never":
		return true
	case "empty":
		return !isEmptyVal(f.typ, f.val)
	case "zero":
		return !isZeroVal(f.typ, f.val)
	}
	return true
}

func strNode(s string) *canon.Node {
	return &canon.Node{Kind: canon.KArray, AT: events.ArrayTypeString, Count: uint64(len(s)), Bytes: []byte(s)}
}

func numNode(e ev.Event) *canon.Node {
	n, _ := canon.NumOf(&e)
	return &canon.Node{Kind: canon.KNum, Num: n}
}

var typedAT = map[string]events.ArrayType{"uint8": events.ArrayTypeUint8, "uint16": events.ArrayTypeUint16, "uint32": events.ArrayTypeUint32,
	"uint64": events.ArrayTypeUint64, "uint": events.ArrayTypeUint64, "int8": events.ArrayTypeInt8, "int16": events.ArrayTypeInt16, "int32": events.ArrayTypeInt32,
	"int64": events.ArrayTypeInt64, "int": events.ArrayTypeInt64, "float32": events.ArrayTypeFloat32, "float64": events.ArrayTypeFloat64, "bool": events.ArrayTypeBit}

func (m *iterModel) typedArray(s *gen.TypeSpec, v *gen.Val) *canon.Node {
	at := typedAT[s.Elem.K]
	n := &canon.Node{Kind: canon.KArray, AT: at, Count: uint64(len(v.Elems)), Bytes: []byte{}}
	if at == events.ArrayTypeBit {
		n.Bytes = make([]byte, (len(v.Elems)+7)/8)
		for i, e := range v.Elems {
			if e.B {
				n.Bytes[i/8] |= 1 << uint(i%8)
			}
		}
		return n
	}
	for _, e := range v.Elems {
		switch s.Elem.K {
		case "uint8":
			n.Bytes = append(n.Bytes, byte(e.U))
		case "int8":
			n.Bytes = append(n.Bytes, byte(e.I))
		case "uint16":
			n.Bytes = binary.LittleEndian.AppendUint16(n.Bytes, uint16(e.U))
		case "int16":
			n.Bytes = binary.LittleEndian.AppendUint16(n.Bytes, uint16(e.I))
		case "uint32":
			n.Bytes = binary.LittleEndian.AppendUint32(n.Bytes, uint32(e.U))
		case "int32":
			n.Bytes = binary.LittleEndian.AppendUint32(n.Bytes, uint32(e.I))
		case "uint64", "uint":
			n.Bytes = binary.LittleEndian.AppendUint64(n.Bytes, e.U)
		case "int64", "int":
			n.Bytes = binary.LittleEndian.AppendUint64(n.Bytes, uint64(e.I))
		case "float32":
			n.Bytes = binary.LittleEndian.AppendUint32(n.Bytes, uint32(e.F))
		case "float64":
			n.Bytes = binary.LittleEndian.AppendUint64(n.Bytes, e.F)
		}
	}
	return n
}

var nullNode = func() *canon.Node { return &canon.Node{Kind: canon.KNull} }

// tree returns the expected document tree of a value.
func (m *iterModel) tree(s *gen.TypeSpec, v *gen.Val) *canon.Node {
	switch s.K {
	case "bool":
		return &canon.Node{Kind: canon.KBool, Bool: v.B}
	case "int", "int8", "int16", "int32", "int64":
		return numNode(ev.Event{K: ev.Int, I: v.I})
	case "uint", "uint8", "uint16", "uint32", "uint64":
		return numNode(ev.Event{K: ev.PInt, U: v.U})
	case "float32":
		return numNode(ev.Event{K: ev.Float, F: float64(math.Float32frombits(uint32(v.F)))})
	case "float64":
		return numNode(ev.Event{K: ev.Float, F: math.Float64frombits(v.F)})
	case "string":
		return strNode(string(v.S))
	case "slice", "array":
		if _, typed := typedAT[s.Elem.K]; typed {
			return m.typedArray(s, v)
		}
		if s.K == "slice" && v.Nil {
			return nullNode()
		}
		n := &canon.Node{Kind: canon.KList}
		for _, e := range v.Elems {
			n.Children = append(n.Children, m.tree(s.Elem, e))
		}
		return n
	case "map":
		if v.Nil {
			return nullNode()
		}
		n := &canon.Node{Kind: canon.KMap, Unordered: true}
		for i := range v.Keys {
			n.Children = append(n.Children, m.tree(s.Key, v.Keys[i]), m.tree(s.Elem, v.Elems[i]))
		}
		return n
	case "ptr":
		if v.Nil {
			return nullNode()
		}
		return m.tree(s.Elem, v.P)
	case "iface":
		if v.Dyn == nil {
			return nullNode()
		}
		return m.tree(v.Dyn, v.P)
	case "struct":
		if name, ok := m.RecordNames[s.String()]; ok {
			n := &canon.Node{Kind: canon.KRecord, Bytes: []byte(name)}
			for _, f := range m.recordFields(s, v) {
				// a record supplies exactly one value per declared field
				n.Children = append(n.Children, m.tree(f.typ, f.val))
			}
			// writing the struct as a map still describes exactly the value
			saved := m.RecordNames
			m.RecordNames = map[string]string{}
			for k, v := range saved {
				if k != s.String() {
					m.RecordNames[k] = v
				}
			}
			n.Alt = m.tree(s, v)
			m.RecordNames = saved
			return n
		}
		n := &canon.Node{Kind: canon.KMap}
		for _, f := range m.flatten(s, v, nil) {
			if m.keep(f) {
				n.Children = append(n.Children, strNode(m.fieldName(f.tag)), m.tree(f.typ, f.val))
			}
		}
		return n
	case "time":
		return &canon.Node{Kind: canon.KTime, Time: compact_time.AsCompactTime(v.T.Time())}
	case "ctime":
		return &canon.Node{Kind: canon.KTime, Time: v.CT.T}
	case "bigint":
		bi, _ := new(big.Int).SetString(v.Num, 10)
		return numNode(ev.Event{K: ev.BigInt, Big: bi})
	}
	return m.treeSpecial(s, v)
}

func (m *iterModel) treeSpecial(s *gen.TypeSpec, v *gen.Val) *canon.Node {
	switch s.K {
	case "bigfloat":
		return numNode(ev.Event{K: ev.BigFloat, BF: ev.BigFloatFromText(v.Num)})
	case "apd":
		return numNode(ev.Event{K: ev.BigDFloat, BDF: ev.APDFromText(v.Num)})
	case "dfloat":
		return numNode(ev.Event{K: ev.DFloat, DF: compact_float.DFloat{Exponent: int32(v.DF[0]), Coefficient: v.DF[1]}})
	case "url":
		return &canon.Node{Kind: canon.KArray, AT: events.ArrayTypeResourceID, Count: uint64(len(v.S)), Bytes: v.S}
	case "uid":
		return &canon.Node{Kind: canon.KUID, Bytes: v.S}
	case "media":
		d := v.S
		if d == nil {
			d = []byte{}
		}
		return &canon.Node{Kind: canon.KMedia, Str: v.Num, Count: uint64(len(d)), Bytes: d}
	case "node":
		n := &canon.Node{Kind: canon.KNodeC}
		val := v.P
		if val == nil {
			val = &gen.Val{}
		}
		n.Children = append(n.Children, m.tree(&gen.TypeSpec{K: "iface"}, val))
		for _, e := range v.Elems {
			n.Children = append(n.Children, m.tree(&gen.TypeSpec{K: "iface"}, e))
		}
		return n
	case "edge":
		n := &canon.Node{Kind: canon.KEdge}
		for _, e := range v.Elems {
			n.Children = append(n.Children, m.tree(&gen.TypeSpec{K: "iface"}, e))
		}
		return n
	}
	panic("iterModel.tree: unknown kind " + s.K)
}

// normalizeUnordered sorts the entries of every map that the expected tree marks unordered, on both sides.
func normalizeUnordered(exp, act *canon.Node) {
	if exp == nil || act == nil {
		return
	}
	if exp.Kind != act.Kind && exp.Alt != nil {
		normalizeUnordered(exp.Alt, act)
		return
	}
	if exp.Kind == canon.KMap && exp.Unordered && act.Kind == canon.KMap {
		canon.SortMapPairs(exp)
		canon.SortMapPairs(act)
	}
	for i := range exp.Children {
		if i < len(act.Children) {
			normalizeUnordered(exp.Children[i], act.Children[i])
		}
	}
}
