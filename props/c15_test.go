package props

import (
	"fmt"
	compact_time "github.com/kstenerud/go-compact-time"
	"math"

	"github.com/cockroachdb/apd/v2"
	"github.com/kstenerud/go-concise-encoding/ce"
	"pgregory.net/rapid"

	"verif/internal/ev"
	"verif/internal/gen"
)

// C15 — the validator passes accepted events through unchanged (strict event equality, modulo the
// two documented rewrites: nil big number -> null, NaN float/decimal/big decimal -> NaN event).

func c15Opts(ctx *Ctx) gen.EvOpts {
	o := gen.EvOpts{Comments: true, OddComments: true, Padding: true, CustomText: true, CustomBinary: true, Media: true, Markers: true,
		Records: true, RemoteRef: true, NilBig: true, NaNForms: true, FullUnicode: true, Chunked: true, MidCharSplit: true, WideBigFloat: true,
		MaxDepth: 4, MaxArr: 40, Budget: 30}
	if ctx.Thorough() {
		o.MaxArr, o.Budget, o.MaxDepth = 400, 120, 6
	}
	avoid(ctx, &o, "S36-marker-inside-marked-container", "S37-marked-chunked-key")
	return o
}

// c15Expected applies the two documented rewrites to one event.
func c15Expected(e ev.Event) ev.Event {
	switch e.K {
	case ev.BigInt:
		if e.Big == nil {
			return ev.Event{K: ev.Null}
		}
	case ev.BigFloat:
		if e.BF == nil {
			return ev.Event{K: ev.Null}
		}
	case ev.BigDFloat:
		if e.BDF == nil {
			return ev.Event{K: ev.Null}
		}
		if e.BDF.Form == apd.NaN {
			return ev.Event{K: ev.Nan, B: false}
		}
		if e.BDF.Form == apd.NaNSignaling {
			return ev.Event{K: ev.Nan, B: true}
		}
	case ev.Float:
		if math.IsNaN(e.F) {
			quiet := math.Float64bits(e.F)&(1<<51) != 0
			return ev.Event{K: ev.Nan, B: !quiet}
		}
	case ev.DFloat:
		if e.DF.IsNan() {
			return ev.Event{K: ev.Nan, B: e.DF.IsSignalingNan()}
		}
	}
	return e
}

func init() {
	Register(&Prop{
		ID:  "C15",
		New: func() interface{} { return &EvCase{} },
		Gen: func(t *rapid.T, ctx *Ctx) interface{} {
			gen.EmitEmptyData = true // zero-length data events inside chunks must be passed on too
			return &EvCase{Events: gen.Document(t, c15Opts(ctx))}
		},
		Fixed: func(ctx *Ctx, report func(c interface{}, err error)) {
			sweepEventCases(ctx, report, c15Check)
			if ctx.Shard != 0 {
				return
			}
			// time events whose area/location zone was filled in field by field instead of through the
			// constructor (short name empty, abbreviated area kept as the long name, names that the constructor
			// would turn into another zone type): what the validator accepts it passes on as it came
			al := func(short, long string) compact_time.Timezone {
				return compact_time.Timezone{Type: compact_time.TimezoneTypeAreaLocation, ShortAreaLocation: short, LongAreaLocation: long}
			}
			for _, tz := range []compact_time.Timezone{compact_time.TZAtAreaLocation("Europe/Berlin"), compact_time.TZAtAreaLocation("E/Berlin"), al("", "Europe/Berlin"),
				al("E/Berlin", "E/Berlin"), al("Etc/UTC", "Etc/UTC"), al("Local", "Local"), al("Zulu", "Zulu"), al("Mars/Olympus", "Mars/Olympus"), al("M/Olympus", "Mars/Olympus")} {
				for _, tm := range []compact_time.Time{compact_time.NewTimestamp(2020, 1, 15, 13, 41, 0, 599000, tz), compact_time.NewTime(23, 59, 59, 0, tz)} {
					c := &EvCase{Events: []ev.Event{{K: ev.BD}, {K: ev.Version}, {K: ev.List}, {K: ev.Time, T: tm}, {K: ev.End}, {K: ev.ED}}}
					ctx.Stats.Bulk(1, 1)
					if err := c15Check(c, ctx); err != nil {
						report(c, err)
						return
					}
				}
			}
		},
		Check: c15Check,
	})
}

func c15Check(ci interface{}, ctx *Ctx) error {
	{
		{
			c := ci.(*EvCase)
			in := ev.Clone(c.Events)
			snapshot := ev.Clone(c.Events)
			rec := ev.NewRecorder()
			rules := ce.NewRules(rec, newCfg())
			// send the stored operands themselves (not copies) so that mutation by the validator is visible
			idx := -1
			var perr interface{}
			func() {
				i := 0
				defer func() {
					if p := recover(); p != nil {
						idx, perr = i, p
					}
				}()
				for i = 0; i < len(in); i++ {
					sendRaw(&in[i], rules)
				}
			}()
			if idx >= 0 {
				return genInvalid(ctx, idx, perr, in)
			}
			ctx.NonTrivial(features(ctx, c.Events))
			for i := range c.Events {
				if c.Events[i].K == ev.ArrayData && len(c.Events[i].Bs) == 0 {
					ctx.Label("zero-length data event")
					break
				}
			}
			want := make([]ev.Event, len(snapshot))
			for i, e := range snapshot {
				want[i] = c15Expected(e)
			}
			got := rec.Events
			n := len(want)
			if len(got) < n {
				n = len(got)
			}
			for i := 0; i < n; i++ {
				if !ev.StrictEqual(&want[i], &got[i]) {
					return fmt.Errorf("event %d: sent %v, next receiver got %v (expected %v)", i, snapshot[i], got[i], want[i])
				}
			}
			if len(got) != len(want) {
				return fmt.Errorf("sent %d events, next receiver got %d (first extra/missing at %d)", len(want), len(got), n)
			}
			for i := range in {
				if !ev.StrictEqual(&in[i], &snapshot[i]) {
					return fmt.Errorf("validator modified the operand of event %d: was %v, now %v", i, snapshot[i], in[i])
				}
			}
			return nil
		}
	}
}
