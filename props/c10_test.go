package props

import (
	"fmt"
	"math"

	"github.com/cockroachdb/apd/v2"
	compact_float "github.com/kstenerud/go-compact-float"
	"github.com/kstenerud/go-concise-encoding/ce"
	"github.com/kstenerud/go-concise-encoding/ce/events"
	"pgregory.net/rapid"

	"verif/internal/ev"
	"verif/internal/model"
)

// C10 — the validator accepts exactly the structurally well-formed documents, and rejects every other
// sequence at the first event that makes it invalid. Oracle: M-RULES (internal/model/rules.go).

// C10Sym is one abstract symbol with its concrete event.
type C10Sym struct {
	Name string `json:"sym"`
}

type C10Case struct {
	Syms []string `json:"syms"`
}

type c10Entry struct {
	sym model.Sym
	ev  ev.Event
}

var c10Alphabet = map[string]c10Entry{
	"BD":     {model.Sym{Kind: model.SBD}, ev.Event{K: ev.BD}},
	"V0":     {model.Sym{Kind: model.SVersion, Version: 0}, ev.Event{K: ev.Version, U: 0}},
	"V1":     {model.Sym{Kind: model.SVersion, Version: 1}, ev.Event{K: ev.Version, U: 1}},
	"ED":     {model.Sym{Kind: model.SED}, ev.Event{K: ev.ED}},
	"NULL":   {model.Sym{Kind: model.SNull}, ev.Event{K: ev.Null}},
	"K":      {model.Sym{Kind: model.SKeyable, KeyID: "i:1"}, ev.Event{K: ev.Int, I: 1}},
	"K2":     {model.Sym{Kind: model.SKeyable, KeyID: "i:2"}, ev.Event{K: ev.PInt, U: 2}},
	"F":      {model.Sym{Kind: model.SNonKeyable}, ev.Event{K: ev.Float, F: 1.5}},
	"S":      {model.Sym{Kind: model.SKeyable, KeyID: "s:a"}, ev.Event{K: ev.StringArray, AT: events.ArrayTypeString, S: "a"}},
	"A":      {model.Sym{Kind: model.SNonKeyable}, ev.Event{K: ev.Array, AT: events.ArrayTypeUint8, U: 2, Bs: []byte{1, 2}}},
	"LIST":   {model.Sym{Kind: model.SList}, ev.Event{K: ev.List}},
	"MAP":    {model.Sym{Kind: model.SMap}, ev.Event{K: ev.Map}},
	"EDGE":   {model.Sym{Kind: model.SEdge}, ev.Event{K: ev.Edge}},
	"NODE":   {model.Sym{Kind: model.SNode}, ev.Event{K: ev.Node}},
	"END":    {model.Sym{Kind: model.SEnd}, ev.Event{K: ev.End}},
	"RT(a)":  {model.Sym{Kind: model.SRecordType, Name: "a"}, ev.Event{K: ev.RecordType, Bs: []byte("a")}},
	"RT(b)":  {model.Sym{Kind: model.SRecordType, Name: "b"}, ev.Event{K: ev.RecordType, Bs: []byte("b")}},
	"REC(a)": {model.Sym{Kind: model.SRecord, Name: "a"}, ev.Event{K: ev.Record, Bs: []byte("a")}},
	"REC(b)": {model.Sym{Kind: model.SRecord, Name: "b"}, ev.Event{K: ev.Record, Bs: []byte("b")}},
	// extras used by the random part only
	// a record type whose name differs from "a" in letter case only: a different identifier
	"RT(A)":  {model.Sym{Kind: model.SRecordType, Name: "A"}, ev.Event{K: ev.RecordType, Bs: []byte("A")}},
	"REC(A)": {model.Sym{Kind: model.SRecord, Name: "A"}, ev.Event{K: ev.Record, Bs: []byte("A")}},
	"TRUE":   {model.Sym{Kind: model.SKeyable, KeyID: "b:true"}, ev.Event{K: ev.True}},
	"UID":    {model.Sym{Kind: model.SKeyable, KeyID: "u:0"}, ev.Event{K: ev.UID, Bs: make([]byte, 16)}},
	"NAN":    {model.Sym{Kind: model.SNonKeyable}, ev.Event{K: ev.Nan}},
	"BIGF":   {model.Sym{Kind: model.SNonKeyable}, ev.Event{K: ev.DFloat}},
	"RID":    {model.Sym{Kind: model.SKeyable, KeyID: "r:x"}, ev.Event{K: ev.Array, AT: events.ArrayTypeResourceID, U: 1, Bs: []byte("x")}},
	"MEDIA":  {model.Sym{Kind: model.SNonKeyable}, ev.Event{K: ev.Media, S: "a/b", Bs: []byte{1}}},
	"K3":     {model.Sym{Kind: model.SKeyable, KeyID: "i:-3"}, ev.Event{K: ev.NInt, U: 3}},
	"S2":     {model.Sym{Kind: model.SKeyable, KeyID: "s:bb"}, ev.Event{K: ev.Array, AT: events.ArrayTypeString, U: 2, Bs: []byte("bb")}},
	// values the validator rewrites before it counts them: a NaN delivered in each number form becomes one
	// NaN object, a nil big number becomes one null
	"FNAN":  {model.Sym{Kind: model.SNonKeyable}, ev.Event{K: ev.Float, F: math.NaN()}},
	"DNAN":  {model.Sym{Kind: model.SNonKeyable}, ev.Event{K: ev.DFloat, DF: compact_float.QuietNaN()}},
	"BDNAN": {model.Sym{Kind: model.SNonKeyable}, ev.Event{K: ev.BigDFloat, BDF: &apd.Decimal{Form: apd.NaN}}},
	"NILBI": {model.Sym{Kind: model.SNull}, ev.Event{K: ev.BigInt}},
	"NILBF": {model.Sym{Kind: model.SNull}, ev.Event{K: ev.BigFloat}},
	"NILBD": {model.Sym{Kind: model.SNull}, ev.Event{K: ev.BigDFloat}},
	// a marker with a fresh identifier (the i-th occurrence gets the identifier m<i>); markers are
	// transparent for well-formedness: "&m1:null" is still a null
	"MK": {model.Sym{Kind: model.SMarker}, ev.Event{K: ev.Marker}},
}

var c10Enum = []string{"BD", "V0", "V1", "ED", "NULL", "K", "K2", "F", "S", "A", "LIST", "MAP", "EDGE", "NODE", "END", "RT(a)", "RT(b)", "REC(a)", "REC(b)"}
var c10All = func() []string {
	out := append([]string{}, c10Enum...)
	return append(out, "TRUE", "UID", "NAN", "BIGF", "RID", "MEDIA", "K3", "S2", "MK", "MK", "FNAN", "DNAN", "BDNAN", "NILBI", "NILBF", "NILBD", "RT(A)", "REC(A)")
}()

// implVerdict plays the concrete events into a fresh validator: index of the first rejected event, -1 if none.
func c10Impl(syms []string) (int, error) {
	evs := make([]ev.Event, len(syms))
	for i, s := range syms {
		evs[i] = c10Alphabet[s].ev
		if s == "MK" {
			evs[i].Bs = []byte(fmt.Sprintf("m%d", i))
		}
	}
	return ev.Play(evs, ce.NewRules(nil, newCfg()))
}

func c10Model(syms []string) int {
	m := model.NewRules()
	for i, s := range syms {
		if !m.Step(c10Alphabet[s].sym) {
			return i
		}
	}
	return -1
}

func c10Compare(syms []string) error {
	want := c10Model(syms)
	got, err := c10Impl(syms)
	if want != got {
		w, g := "accepted", "accepted"
		if want >= 0 {
			w = fmt.Sprintf("rejected at event %d (%s)", want, syms[want])
		}
		if got >= 0 {
			g = fmt.Sprintf("rejected at event %d (%s): %v", got, syms[got], err)
		}
		return fmt.Errorf("sequence %v: well-formedness model says %s, validator %s", syms, w, g)
	}
	return nil
}

func c10NonTrivial(syms []string) bool {
	depth, maxDepth := 0, 0
	for _, s := range syms {
		switch s {
		case "LIST", "MAP":
			depth++
		case "EDGE", "NODE", "REC(a)", "REC(b)", "MK":
			return true
		case "END":
			depth--
		}
		if depth > maxDepth {
			maxDepth = depth
		}
	}
	return maxDepth >= 2
}

func init() {
	Register(&Prop{
		ID:  "C10",
		New: func() interface{} { return &C10Case{} },
		// bounded-exhaustive: all sequences over c10Enum up to the bound, extending only prefixes both sides accept
		Fixed: func(ctx *Ctx, report func(c interface{}, err error)) {
			maxLen := 9
			if ctx.Thorough() {
				maxLen = 10
			}
			var evals, nontrivial int64
			samples := 0
			failed := false
			var rec func(prefix []string, m *model.Rules, branch int)
			rec = func(prefix []string, m *model.Rules, branch int) {
				if failed {
					return
				}
				for _, s := range c10Enum {
					// partition the space over shards by the symbol chosen at depth 3 (after BD V0 x)
					if len(prefix) == 3 && len(c10Enum) > 0 {
						// nothing: partition applied below at depth 2
					}
					seq := append(append([]string{}, prefix...), s)
					if len(seq) == 3 {
						idx := indexOf(c10Enum, s)
						if idx%ctx.Shards != ctx.Shard {
							continue
						}
					}
					mc := m.Clone()
					wantOK := mc.Step(c10Alphabet[s].sym)
					got, err := c10Impl(seq)
					gotOK := got < 0
					evals++
					if got >= 0 && got != len(seq)-1 {
						failed = true
						report(&C10Case{Syms: seq}, fmt.Errorf("sequence %v: validator rejected event %d although it accepted the same prefix before", seq, got))
						return
					}
					if wantOK != gotOK {
						failed = true
						report(&C10Case{Syms: seq}, c10Compare(seq))
						return
					}
					if c10NonTrivial(seq) {
						nontrivial++
						if samples < 4 && len(seq) >= 6 && gotOK {
							samples++
							ctx.Stats.AddSample(map[string]interface{}{"syms": seq, "verdict": "accepted prefix"})
						}
					}
					_ = err
					if wantOK && len(seq) < maxLen {
						rec(seq, mc, branch)
					}
				}
			}
			rec(nil, model.NewRules(), 0)
			// sequences of length < 3 are evaluated by every shard; count them once
			if ctx.Shard != 0 {
				evals -= int64(len(c10Enum) * 2)
			}
			ctx.Stats.Bulk(evals, nontrivial)
			ctx.Stats.SetExhaustive()
			ctx.Stats.Note(fmt.Sprintf("bounded-exhaustive part: every sequence over %d symbols up to length %d whose proper prefixes are accepted (shard %d/%d)", len(c10Enum), maxLen, ctx.Shard, ctx.Shards))
		},
		// random long sequences: walk the model, mostly valid steps, an invalid step with probability ~0.1
		Gen: func(t *rapid.T, ctx *Ctx) interface{} {
			n := rapid.IntRange(1, 200).Draw(t, "len")
			m := model.NewRules()
			var syms []string
			for len(syms) < n {
				var valid, invalid []string
				for _, s := range c10All {
					if s == "MK" && m.TopFrame() == "rectype" {
						continue // whether a record-type key may carry a marker is not pinned down
					}
					if m.Clone().Step(c10Alphabet[s].sym) {
						valid = append(valid, s)
					} else {
						invalid = append(invalid, s)
					}
				}
				takeInvalid := len(valid) == 0 || rapid.IntRange(0, 9).Draw(t, "invalid") == 0
				if takeInvalid && len(invalid) > 0 {
					s := invalid[rapid.IntRange(0, len(invalid)-1).Draw(t, "isym")]
					syms = append(syms, s)
					// a few more symbols after the invalid one (must not matter)
					for i, k := 0, rapid.IntRange(0, 2).Draw(t, "after"); i < k; i++ {
						syms = append(syms, c10All[rapid.IntRange(0, len(c10All)-1).Draw(t, "asym")])
					}
					break
				}
				// bias towards closing when deep or long
				var pick string
				if m.Depth() > 6 && containsStr(valid, "END") && rapid.Bool().Draw(t, "close") {
					pick = "END"
				} else {
					pick = valid[rapid.IntRange(0, len(valid)-1).Draw(t, "vsym")]
				}
				m.Step(c10Alphabet[pick].sym)
				syms = append(syms, pick)
				if m.Done() {
					if rapid.Bool().Draw(t, "stop") {
						break
					}
				}
			}
			return &C10Case{Syms: syms}
		},
		Check: func(ci interface{}, ctx *Ctx) error {
			c := ci.(*C10Case)
			for _, s := range c.Syms {
				if _, ok := c10Alphabet[s]; !ok {
					return fmt.Errorf("harness: unknown symbol %q", s)
				}
			}
			ctx.NonTrivial(c10NonTrivial(c.Syms))
			want := c10Model(c.Syms)
			ctx.LabelIf(want < 0, "model-accepts-all")
			ctx.LabelIf(want >= 0, "model-rejects")
			ctx.LabelIf(len(c.Syms) > 50, "long>50")
			ctx.LabelIf(containsStr(c.Syms, "MK"), "has-marker")
			return c10Compare(c.Syms)
		},
	})
}

func indexOf(xs []string, s string) int {
	for i, x := range xs {
		if x == s {
			return i
		}
	}
	return -1
}

func containsStr(xs []string, s string) bool { return indexOf(xs, s) >= 0 }
