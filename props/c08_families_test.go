package props

import (
	"fmt"
	"os"
	"testing"

	"github.com/kstenerud/go-concise-encoding/ce"
	"github.com/kstenerud/go-concise-encoding/nullevent"
)

// TestC08Families lists, for every size-parameterised family, whether decoder + validator accept the
// document at a small size (documentation / debugging aid: VERIF_DEBUG=c08 go test -run TestC08Families).
func TestC08Families(t *testing.T) {
	if os.Getenv("VERIF_DEBUG") != "c08" {
		t.Skip("debug aid")
	}
	cfg := c08Config(1 << 20)
	for i := range c08Families {
		f := &c08Families[i]
		if f.hostile {
			continue
		}
		doc := f.build(5, nil)
		var d ce.Decoder
		if f.format == "cbe" {
			d = ce.NewCBEDecoder(cfg)
		} else {
			d = ce.NewCTEDecoder(cfg)
		}
		err := d.DecodeDocument(doc, ce.NewRules(nullevent.NewNullEventReceiver(), cfg))
		fmt.Printf("%-40s %v\n", f.name, err)
	}
}
