package props

import (
	"bytes"
	"fmt"
	"reflect"

	"github.com/kstenerud/go-concise-encoding/ce"
	"github.com/kstenerud/go-concise-encoding/configuration"
	"pgregory.net/rapid"

	"verif/internal/gen"
)

// C04 — marshal then unmarshal returns an equal Go value.

type ValCase struct {
	Format string        `json:"format"` // cbe | cte
	Type   *gen.TypeSpec `json:"type"`
	Val    *gen.Val      `json:"val"`
	Cfg    string        `json:"cfg,omitempty"`
}

func valOpts(ctx *Ctx) *gen.ValOpts {
	o := &gen.ValOpts{MaxDepth: 3, MaxElems: 5, MaxTyped: 60, Iface: true, Special: true, NodeEdge: true, Embedded: true, FixedZone: true}
	if ctx.Thorough() {
		o.MaxTyped, o.MaxElems, o.MaxDepth = 3000, 8, 4
	}
	o.Avoid = map[string]bool{}
	o.Excluded = func(k string) { ctx.Stats.Exclude(k) }
	return o
}

func avoidVal(o *gen.ValOpts, keys ...string) {
	for _, k := range keys {
		if findingOpen(k) {
			o.Avoid[k] = true
		}
	}
}

func genValCase(t *rapid.T, ctx *Ctx, o *gen.ValOpts) *ValCase {
	c := &ValCase{Format: rapid.SampledFrom([]string{"cbe", "cte"}).Draw(t, "format")}
	for {
		c.Type = gen.GenType(t, o, 0)
		if c.Type.K != "iface" {
			break
		}
	}
	c.Val = gen.GenVal(t, o, c.Type, 0)
	return c
}

// valFeatures labels the case and decides non-triviality: a container, a typed array with > 15
// elements, or a big number.
func valFeatures(ctx *Ctx, s *gen.TypeSpec, v *gen.Val) (nt bool) {
	var walk func(s *gen.TypeSpec, v *gen.Val, depth int)
	walk = func(s *gen.TypeSpec, v *gen.Val, depth int) {
		if v == nil {
			return
		}
		switch s.K {
		case "slice", "array":
			ek := s.Elem.K
			typed := ek == "bool" || ek == "float32" || ek == "float64" || (len(ek) >= 3 && (ek[:3] == "int" || ek[:3] == "uin"))
			if typed {
				ctx.Label("typed-array:" + ek)
				if len(v.Elems) > 15 {
					nt = true
					ctx.Label("typed-array>15")
				}
				if ek == "bool" && len(v.Elems) > 8 {
					ctx.Label("bool-slice>8")
				}
			} else {
				nt = true
				ctx.Label("list")
				for _, e := range v.Elems {
					walk(s.Elem, e, depth+1)
				}
			}
		case "map":
			nt = true
			ctx.Label("map")
			for _, e := range v.Elems {
				walk(s.Elem, e, depth+1)
			}
		case "struct":
			nt = true
			ctx.Label("struct")
			for i, f := range s.Fields {
				if f.Embedded {
					ctx.Label("embedded")
				}
				walk(f.Type, v.Elems[i], depth+1)
			}
		case "ptr":
			ctx.Label("pointer")
			if !v.Nil {
				walk(s.Elem, v.P, depth+1)
			}
		case "iface":
			ctx.Label("interface")
		case "bigint", "bigfloat", "apd":
			nt = true
			ctx.Label("bignum")
		case "node", "edge", "time", "ctime", "dfloat", "url", "uid", "media":
			ctx.Label(s.K)
			if s.K == "node" || s.K == "edge" {
				nt = true
			}
		}
	}
	walk(s, v, 0)
	return
}

func marshalDoc(ctx *Ctx, format string, value interface{}, cfg *configuration.Configuration) (doc []byte, err error, bad error) {
	// the entry point alternates, as a function of the value's type, between the document function and
	// the stream function writing to a plain io.Writer (Write only, no WriteString)
	stream := len(fmt.Sprintf("%T", value))%2 == 1
	o := ctx.Guard(func() {
		switch {
		case stream:
			var buf bytes.Buffer
			if format == "cbe" {
				err = ce.MarshalCBE(value, plainWriter{&buf}, cfg)
			} else {
				err = ce.MarshalCTE(value, plainWriter{&buf}, cfg)
			}
			doc = buf.Bytes()
		case format == "cbe":
			doc, err = ce.MarshalToCBEDocument(value, cfg)
		default:
			doc, err = ce.MarshalToCTEDocument(value, cfg)
		}
	})
	if o.TimedOut || o.Panic != nil {
		return nil, nil, fmt.Errorf("marshal (%s): %v", format, o)
	}
	return
}

func unmarshalDoc(ctx *Ctx, format string, doc []byte, template interface{}, cfg *configuration.Configuration) (res interface{}, err error, bad error) {
	o := ctx.Guard(func() {
		if format == "cbe" {
			res, err = ce.UnmarshalFromCBEDocument(doc, template, cfg)
		} else {
			res, err = ce.UnmarshalFromCTEDocument(doc, template, cfg)
		}
	})
	if o.TimedOut || o.Panic != nil {
		return nil, nil, fmt.Errorf("unmarshal (%s): %v", format, o)
	}
	return
}

func docdump(format string, doc []byte) string {
	if format == "cbe" {
		return hexdump(doc)
	}
	return textdump(doc)
}

// hasYearZero reports whether the value holds a time.Time whose year (in its own location) is 0.
func hasYearZero(v *gen.Val) bool {
	if v == nil {
		return false
	}
	if v.T != nil && v.T.Time().Year() == 0 {
		return true
	}
	for _, e := range v.Elems {
		if hasYearZero(e) {
			return true
		}
	}
	for _, e := range v.Keys {
		if hasYearZero(e) {
			return true
		}
	}
	return hasYearZero(v.P)
}

func checkRoundTrip(c *ValCase, ctx *Ctx, cfg *configuration.Configuration) error {
	ctx.NonTrivial(valFeatures(ctx, c.Type, c.Val))
	ctx.Label("format:" + c.Format)
	value := gen.Build(c.Type, c.Val)
	doc, err, bad := marshalDoc(ctx, c.Format, value.Interface(), cfg)
	if bad != nil {
		return bad
	}
	if hasYearZero(c.Val) {
		// Go's year 0 (1 BC) has no counterpart in the format: the only acceptable outcome is an error from
		// the marshaler
		ctx.Label("a time in year 0 (must be refused, or written as something that reads back)")
		if err == nil {
			if _, uerr, _ := unmarshalDoc(ctx, c.Format, doc, reflect.Zero(c.Type.Realize()).Interface(), cfg); uerr != nil {
				return fmt.Errorf("a time in year 0 was marshaled without an error into a document that does not unmarshal: %v\ndoc=%s", uerr, docdump(c.Format, doc))
			}
		}
		return nil
	}
	if err != nil {
		return fmt.Errorf("marshal of a supported value failed: %v\ntype=%v", err, c.Type)
	}
	template := reflect.Zero(c.Type.Realize()).Interface()
	res, err, bad := unmarshalDoc(ctx, c.Format, doc, template, cfg)
	if bad != nil {
		return fmt.Errorf("%v\ndoc=%s", bad, docdump(c.Format, doc))
	}
	if err != nil {
		return fmt.Errorf("unmarshal of a marshaled document failed: %v\ndoc=%s\ntype=%v", err, docdump(c.Format, doc), c.Type)
	}
	rv := reflect.ValueOf(res)
	want := c.Type.Realize()
	if rv.IsValid() && rv.Type() != want && rv.Kind() == reflect.Ptr && rv.Type().Elem() == want && !rv.IsNil() {
		rv = rv.Elem()
	}
	if !rv.IsValid() {
		// a nil result is the zero value of pointer / slice / map / interface types
		rv = reflect.Zero(want)
	}
	if err := gen.Check(rv, c.Type, c.Val, gen.EqMode{BigFloatTol: c.Format == "cbe"}, "$"); err != nil {
		return fmt.Errorf("round trip changed the value: %v\ndoc=%s\ntype=%v", err, docdump(c.Format, doc), c.Type)
	}
	return nil
}

func init() {
	Register(&Prop{
		ID:  "C04",
		New: func() interface{} { return &ValCase{} },
		Gen: func(t *rapid.T, ctx *Ctx) interface{} {
			o := valOpts(ctx)
			avoidVal(o, "S4-edge-iterator-no-end", "S47-platform-int-and-bool-arrays-unbuildable", "S48-null-into-map", "S28-fixed-zone-offset-lost")
			o.YearZero = true
			records := rapid.IntRange(0, 3).Draw(t, "records") == 0
			o.FieldsAlwaysWritten = records
			c := genValCase(t, ctx, o)
			if records {
				// a value with at least one struct type in it (a few redraws; otherwise the case runs without records)
				for tries := 0; tries < 6; tries++ {
					var structs []*gen.TypeSpec
					if findStructs(c.Type, &structs); len(structs) > 0 {
						break
					}
					c = genValCase(t, ctx, o)
				}
				c.Cfg = "records"
			}
			return c
		},
		Check: func(ci interface{}, ctx *Ctx) error {
			c := ci.(*ValCase)
			cfg := newCfg()
			if c.Cfg == "records" {
				// up to three of the struct types in the value are registered as record types: written as
				// @name<keys> + @name{values}, read back through the record builder
				var structs []*gen.TypeSpec
				findStructs(c.Type, &structs)
				seen := map[reflect.Type]bool{}
				for i, st := range structs {
					if rt := st.Realize(); !seen[rt] && len(seen) < 3 {
						seen[rt] = true
						cfg.Iterator.RecordTypes[rt] = fmt.Sprintf("rec%d", i)
					}
				}
				ctx.LabelIf(len(seen) > 0, "struct types registered as record types")
			}
			return checkRoundTrip(c, ctx, cfg)
		},
	})
}
