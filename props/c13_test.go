package props

import (
	"fmt"
	"math/big"
	"reflect"
	"strings"

	"github.com/cockroachdb/apd/v2"
	compact_float "github.com/kstenerud/go-compact-float"
	compact_time "github.com/kstenerud/go-compact-time"

	"github.com/kstenerud/go-concise-encoding/ce"
	"github.com/kstenerud/go-concise-encoding/ce/events"
	"pgregory.net/rapid"

	"verif/internal/ev"
	"verif/internal/gen"
	"verif/internal/harness"
	"verif/internal/model"
)

// C13 — markers and local references are consistent in every accepted document.
// Oracle: M-MARK (internal/model/markers.go), accept/reject of the whole stream.

type C13Case struct {
	MaxIDLen int        `json:"max_id_len"`
	Mutation string     `json:"mutation"`
	Events   []ev.Event `json:"events"`
	// builder half (Mutation == "build"): a flat container of integers, some marked, some given as
	// references (backward or forward) to a marked one, unmarshaled into a typed or untyped template
	Format string    `json:"format,omitempty"`
	Tmpl   string    `json:"template,omitempty"`
	Elems  []C13Elem `json:"elems,omitempty"`
	// any-value variant (Mutation == "build-any"): Vals[i] is the value at position i (any scalar kind or a
	// small container); the oracle is the same document with every reference replaced by its value
	Vals [][]ev.Event `json:"vals,omitempty"`
}

// C13Elem: Kind "v" plain value, "m" marked value (marker ID), "r" reference to marker ID.
type C13Elem struct {
	Kind string `json:"kind"`
	ID   string `json:"id,omitempty"`
	Val  int64  `json:"val,omitempty"`
}

// "rec:<template>": the same keyed document written as a record (@r<"K0" "K1" ...> @r{v0 v1 ...}) instead of a map
var c13Templates = []string{"[]int64", "[]interface", "[24]int64", "map[string]int64", "[]*int64", "map[interface]interface", "struct", "nil-list", "nil-map", "[][]int64", "mixed", "mixed",
	"rec:struct", "rec:map[string]int64", "rec:nil-map", "rec:map[interface]interface"}

// c13Mixed / c13MixedDoc: destinations of different integer types, so that a reference is resolved into
// a slot of another Go type than the object built for its marker (struct field -> map value and back)
type c13Mixed struct {
	K0 int16
	K1 int32
	K2 int64
	K3 uint16
	K4 int32
	K5 int16
	K6 int64
	K7 int32
}

type c13MixedDoc struct {
	S *c13Mixed // behind a pointer: forward references into a struct held by value are the open finding S80
	M map[string]int16
}

type c13Struct struct {
	K0, K1, K2, K3, K4, K5, K6, K7 int64
}

func genC13Build(t *rapid.T) *C13Case {
	c := &C13Case{Mutation: "build", MaxIDLen: 1000, Format: rapid.SampledFrom([]string{"cbe", "cte"}).Draw(t, "format"),
		Tmpl: rapid.SampledFrom(c13Templates).Draw(t, "tmpl")}
	n := rapid.IntRange(1, 24).Draw(t, "n")
	if strings.HasSuffix(c.Tmpl, "struct") && n > 8 {
		n = 8
	}
	// first choose which positions are marked, then let references point to any marked position
	var marked []int
	kinds := make([]string, n)
	for i := 0; i < n; i++ {
		kinds[i] = rapid.SampledFrom([]string{"v", "v", "m", "r", "r"}).Draw(t, "kind")
		if kinds[i] == "m" {
			marked = append(marked, i)
		}
	}
	vals := make([]int64, n)
	for i := 0; i < n; i++ {
		switch kinds[i] {
		case "r":
			if len(marked) == 0 {
				kinds[i] = "v"
			}
		}
		vals[i] = int64(rapid.IntRange(-1000, 100000).Draw(t, "val"))
		if c.Tmpl == "mixed" {
			vals[i] = int64(rapid.IntRange(0, 30000).Draw(t, "mval"))
		}
	}
	for i := 0; i < n; i++ {
		e := C13Elem{Kind: kinds[i], Val: vals[i]}
		switch kinds[i] {
		case "m":
			e.ID = fmt.Sprintf("m%d", i)
		case "r":
			tgt := marked[rapid.IntRange(0, len(marked)-1).Draw(t, "tgt")]
			e.ID = fmt.Sprintf("m%d", tgt)
			e.Val = vals[tgt]
		}
		c.Elems = append(c.Elems, e)
	}
	return c
}

func (c *C13Case) buildEvents() []ev.Event {
	if c.Tmpl == "mixed" {
		key := func(s string) ev.Event { return ev.Event{K: ev.StringArray, AT: events.ArrayTypeString, S: s} }
		evs := []ev.Event{{K: ev.BD}, {K: ev.Version}, {K: ev.Map}, key("S"), {K: ev.Map}}
		emit := func(i int) {
			e := c.Elems[i]
			evs = append(evs, key(fmt.Sprintf("K%d", i)))
			switch e.Kind {
			case "m":
				evs = append(evs, ev.Event{K: ev.Marker, Bs: []byte(e.ID)}, ev.Event{K: ev.Int, I: e.Val})
			case "r":
				evs = append(evs, ev.Event{K: ev.RefLocal, Bs: []byte(e.ID)})
			default:
				evs = append(evs, ev.Event{K: ev.Int, I: e.Val})
			}
		}
		for i := 0; i < len(c.Elems) && i < 8; i++ {
			emit(i)
		}
		evs = append(evs, ev.Event{K: ev.End}, key("M"), ev.Event{K: ev.Map})
		for i := 8; i < len(c.Elems); i++ {
			emit(i)
		}
		return append(evs, ev.Event{K: ev.End}, ev.Event{K: ev.End}, ev.Event{K: ev.ED})
	}
	isRec := strings.HasPrefix(c.Tmpl, "rec:")
	tmpl := strings.TrimPrefix(c.Tmpl, "rec:")
	isMap := strings.HasPrefix(tmpl, "map") || tmpl == "struct" || tmpl == "nil-map"
	nested := c.Tmpl == "[][]int64"
	evs := []ev.Event{{K: ev.BD}, {K: ev.Version}}
	switch {
	case isRec:
		evs = append(evs, ev.Event{K: ev.RecordType, Bs: []byte("r")})
		for i := range c.Elems {
			evs = append(evs, ev.Event{K: ev.StringArray, AT: events.ArrayTypeString, S: fmt.Sprintf("K%d", i)})
		}
		evs = append(evs, ev.Event{K: ev.End}, ev.Event{K: ev.Record, Bs: []byte("r")})
	case isMap:
		evs = append(evs, ev.Event{K: ev.Map})
	default:
		evs = append(evs, ev.Event{K: ev.List})
	}
	for i, e := range c.Elems {
		if isMap && !isRec {
			evs = append(evs, ev.Event{K: ev.StringArray, AT: events.ArrayTypeString, S: fmt.Sprintf("K%d", i)})
		}
		val := []ev.Event{{K: ev.Int, I: e.Val}}
		if nested {
			val = []ev.Event{{K: ev.List}, {K: ev.Int, I: e.Val}, {K: ev.Int, I: e.Val + 1}, {K: ev.End}}
		}
		switch e.Kind {
		case "m":
			evs = append(evs, ev.Event{K: ev.Marker, Bs: []byte(e.ID)})
			evs = append(evs, val...)
		case "r":
			evs = append(evs, ev.Event{K: ev.RefLocal, Bs: []byte(e.ID)})
		default:
			evs = append(evs, val...)
		}
	}
	return append(evs, ev.Event{K: ev.End}, ev.Event{K: ev.ED})
}

func (c *C13Case) template() interface{} {
	switch strings.TrimPrefix(c.Tmpl, "rec:") {
	case "[]int64":
		return []int64{}
	case "[]interface":
		return []interface{}{}
	case "[24]int64":
		return [24]int64{}
	case "map[string]int64":
		return map[string]int64{}
	case "[]*int64":
		return []*int64{}
	case "map[interface]interface":
		return map[interface{}]interface{}{}
	case "struct":
		return c13Struct{}
	case "[][]int64":
		return [][]int64{}
	case "mixed":
		return c13MixedDoc{}
	}
	return nil
}

// checkBuilt verifies that every position (plain, marked, reference) holds the expected integer.
func (c *C13Case) checkBuilt(res interface{}) error {
	rv := reflect.ValueOf(res)
	for rv.IsValid() && (rv.Kind() == reflect.Ptr || rv.Kind() == reflect.Interface) && !rv.IsNil() {
		rv = rv.Elem()
	}
	if !rv.IsValid() {
		return fmt.Errorf("result is nil")
	}
	intOf := func(v reflect.Value) (int64, error) {
		for v.IsValid() && (v.Kind() == reflect.Ptr || v.Kind() == reflect.Interface) {
			if v.IsNil() {
				return 0, fmt.Errorf("nil")
			}
			v = v.Elem()
		}
		if c.Tmpl == "[][]int64" {
			if !v.IsValid() || v.Kind() != reflect.Slice || v.Len() != 2 {
				return 0, fmt.Errorf("not a two-element list: %v", v)
			}
			a, b := v.Index(0).Int(), v.Index(1).Int()
			if b != a+1 {
				return 0, fmt.Errorf("inner list [%d %d]", a, b)
			}
			return a, nil
		}
		if !v.IsValid() {
			return 0, fmt.Errorf("missing")
		}
		switch v.Kind() {
		case reflect.Int, reflect.Int8, reflect.Int16, reflect.Int32, reflect.Int64:
			return v.Int(), nil
		case reflect.Uint, reflect.Uint8, reflect.Uint16, reflect.Uint32, reflect.Uint64:
			return int64(v.Uint()), nil
		}
		return 0, fmt.Errorf("a %v", v.Type())
	}
	for i, e := range c.Elems {
		var ev reflect.Value
		if c.Tmpl == "mixed" {
			if rv.Kind() != reflect.Struct {
				return fmt.Errorf("result is a %v", rv.Type())
			}
			if i < 8 {
				sp := rv.FieldByName("S")
				if sp.IsNil() {
					return fmt.Errorf("field S is nil")
				}
				ev = sp.Elem().FieldByName(fmt.Sprintf("K%d", i))
			} else {
				ev = rv.FieldByName("M").MapIndex(reflect.ValueOf(fmt.Sprintf("K%d", i)))
			}
			got, err := intOf(ev)
			if err != nil || got != e.Val {
				return fmt.Errorf("position %d (%s %s): expected %d, found %v (%v)", i, e.Kind, e.ID, e.Val, got, err)
			}
			continue
		}
		switch rv.Kind() {
		case reflect.Slice, reflect.Array:
			if i >= rv.Len() {
				return fmt.Errorf("element %d is missing (result has %d elements)", i, rv.Len())
			}
			ev = rv.Index(i)
		case reflect.Map:
			key := reflect.ValueOf(fmt.Sprintf("K%d", i))
			if rv.Type().Key().Kind() == reflect.Interface {
				k2 := reflect.New(rv.Type().Key()).Elem()
				k2.Set(key)
				key = k2
			}
			ev = rv.MapIndex(key)
		case reflect.Struct:
			ev = rv.FieldByName(fmt.Sprintf("K%d", i))
		default:
			return fmt.Errorf("result is a %v", rv.Type())
		}
		got, err := intOf(ev)
		if err != nil {
			return fmt.Errorf("position %d (%s %s): expected %d, found %v", i, e.Kind, e.ID, e.Val, err)
		}
		if got != e.Val {
			return fmt.Errorf("position %d (%s %s): expected %d, found %d", i, e.Kind, e.ID, e.Val, got)
		}
	}
	if (rv.Kind() == reflect.Slice || rv.Kind() == reflect.Map) && rv.Len() != len(c.Elems) {
		return fmt.Errorf("result has %d entries, the document %d", rv.Len(), len(c.Elems))
	}
	return nil
}

func (c *C13Case) checkBuild(ctx *Ctx) error {
	cfg := newCfg()
	evs := c.buildEvents()
	fwd, refs := false, 0
	seen := map[string]bool{}
	for _, e := range c.Elems {
		if e.Kind == "m" {
			seen[e.ID] = true
		}
		if e.Kind == "r" {
			refs++
			if !seen[e.ID] {
				fwd = true
			}
		}
	}
	ctx.NonTrivial(fwd)
	ctx.Label("mutation:build")
	ctx.Label("build-template:" + c.Tmpl)
	ctx.LabelIf(fwd, "forward-ref")
	ctx.LabelIf(refs > 0 && !fwd, "backward-refs-only")
	ctx.LabelIf(len(c.Elems) > 4, "build: more than 4 elements")
	var doc []byte
	var idx int
	var err error
	if c.Format == "cbe" {
		doc, idx, err = encodeCBE(evs, cfg)
	} else {
		doc, idx, err = encodeCTE(evs, cfg)
	}
	if idx >= 0 {
		return fmt.Errorf("harness: the generated marker/reference document is rejected at event %d: %v\n%s", idx, err, ev.ListString(evs))
	}
	if c.Tmpl == "[]*int64" && harness.Open("S67-ref-into-pointer-slice") {
		ctx.Stats.Exclude("S67-ref-into-pointer-slice")
		return nil
	}
	res, uerr, bad := unmarshalDoc(ctx, c.Format, doc, c.template(), cfg)
	if bad != nil {
		return fmt.Errorf("%v\ndoc=%s", bad, docdump(c.Format, doc))
	}
	if uerr != nil {
		return fmt.Errorf("a document the validator accepts failed to unmarshal into %s: %v\ndoc=%s", c.Tmpl, uerr, docdump(c.Format, doc))
	}
	if err := c.checkBuilt(res); err != nil {
		return fmt.Errorf("references were not replaced by the marked values (template %s): %v\ndoc=%s", c.Tmpl, err, docdump(c.Format, doc))
	}
	return nil
}

// c13AnyValues: one value of every kind the builders have a separate entry for (a marker builder forwards each
// Build* call on its own), beyond the 64-bit integers of the first builder half.
func c13AnyValue(t *rapid.T) []ev.Event {
	bigI := func(s string) *big.Int { v, _ := new(big.Int).SetString(s, 10); return v }
	str := func(s string) ev.Event {
		return ev.Event{K: ev.Array, AT: events.ArrayTypeString, U: uint64(len(s)), Bs: []byte(s)}
	}
	pool := [][]ev.Event{
		{{K: ev.Int, I: 5}}, {{K: ev.Int, I: -70000}}, {{K: ev.PInt, U: 1<<63 + 5}}, {{K: ev.NInt, U: 1<<63 + 5}}, {{K: ev.PInt, U: 1<<64 - 1}},
		{{K: ev.BigInt, Big: bigI("9223372036854775808")}}, {{K: ev.BigInt, Big: bigI("18446744073709551616")}}, {{K: ev.BigInt, Big: bigI("100000000000000000000")}},
		{{K: ev.BigInt, Big: bigI("-9223372036854775809")}}, {{K: ev.BigInt, Big: bigI("-100000000000000000000000000000")}},
		{{K: ev.Float, F: 1.5}}, {{K: ev.Float, F: 0.1}}, {{K: ev.Float, F: -2.5e300}},
		{{K: ev.DFloat, DF: compact_float.DFloatValue(-1, 15)}}, {{K: ev.DFloat, DF: compact_float.DFloatValue(400, 7)}},
		{{K: ev.BigFloat, BF: new(big.Float).SetPrec(100).Quo(big.NewFloat(1), big.NewFloat(3))}},
		{{K: ev.BigDFloat, BDF: c13APD("1.234567890123456789012345678")}},
		{{K: ev.True}}, {{K: ev.False}}, {{K: ev.Nan, B: false}},
		{{K: ev.UID, Bs: []byte{1, 2, 3, 4, 5, 6, 7, 8, 9, 10, 11, 12, 13, 14, 15, 16}}},
		{{K: ev.Time, T: compact_time.NewDate(2020, 1, 15)}}, {{K: ev.Time, T: compact_time.NewTimestamp(2020, 1, 15, 10, 30, 0, 5, compact_time.TZAtUTC())}},
		{str("abc")}, {str("a string longer than fifteen bytes")}, {str("")},
		{{K: ev.Array, AT: events.ArrayTypeResourceID, U: 10, Bs: []byte("http://x.y")}},
		{{K: ev.Array, AT: events.ArrayTypeUint8, U: 3, Bs: []byte{1, 2, 3}}},
		{{K: ev.Array, AT: events.ArrayTypeInt32, U: 2, Bs: []byte{1, 0, 0, 0, 0xff, 0xff, 0xff, 0xff}}},
		{{K: ev.List}, {K: ev.Int, I: 1}, str("x"), {K: ev.End}},
		{{K: ev.Map}, str("k"), {K: ev.BigInt, Big: bigI("36893488147419103232")}, {K: ev.End}},
		{{K: ev.List}, {K: ev.End}},
	}
	return ev.Clone(pool[rapid.IntRange(0, len(pool)-1).Draw(t, "anyval")])
}

func c13APD(s string) *apd.Decimal {
	d, _, err := apd.NewFromString(s)
	if err != nil {
		panic(err)
	}
	return d
}

func genC13BuildAny(t *rapid.T) *C13Case {
	c := &C13Case{Mutation: "build-any", MaxIDLen: 1000, Format: rapid.SampledFrom([]string{"cbe", "cte"}).Draw(t, "format"),
		Tmpl: rapid.SampledFrom([]string{"[]interface", "nil-list", "nil-map", "map[string]interface"}).Draw(t, "anytmpl")}
	n := rapid.IntRange(2, 10).Draw(t, "n")
	var marked []int
	for i := 0; i < n; i++ {
		e := C13Elem{Kind: rapid.SampledFrom([]string{"v", "m", "m", "r", "r"}).Draw(t, "kind")}
		if e.Kind == "m" {
			marked = append(marked, i)
			e.ID = fmt.Sprintf("m%d", i)
		}
		c.Elems = append(c.Elems, e)
		c.Vals = append(c.Vals, c13AnyValue(t))
	}
	for i := range c.Elems {
		if c.Elems[i].Kind != "r" {
			continue
		}
		if len(marked) == 0 {
			c.Elems[i].Kind = "v"
			continue
		}
		tgt := marked[rapid.IntRange(0, len(marked)-1).Draw(t, "tgt")]
		c.Elems[i].ID = fmt.Sprintf("m%d", tgt)
		c.Vals[i] = ev.Clone(c.Vals[tgt])
	}
	return c
}

// anyEvents builds the document; withRefs=false gives the reference document (no markers, values in place of references).
func (c *C13Case) anyEvents(withRefs bool) []ev.Event {
	isMap := c.Tmpl == "nil-map" || c.Tmpl == "map[string]interface"
	evs := []ev.Event{{K: ev.BD}, {K: ev.Version}}
	if isMap {
		evs = append(evs, ev.Event{K: ev.Map})
	} else {
		evs = append(evs, ev.Event{K: ev.List})
	}
	for i, e := range c.Elems {
		if isMap {
			evs = append(evs, ev.Event{K: ev.StringArray, AT: events.ArrayTypeString, S: fmt.Sprintf("K%d", i)})
		}
		switch {
		case e.Kind == "m" && withRefs:
			evs = append(evs, ev.Event{K: ev.Marker, Bs: []byte(e.ID)})
			evs = append(evs, ev.Clone(c.Vals[i])...)
		case e.Kind == "r" && withRefs:
			evs = append(evs, ev.Event{K: ev.RefLocal, Bs: []byte(e.ID)})
		default:
			evs = append(evs, ev.Clone(c.Vals[i])...)
		}
	}
	return append(evs, ev.Event{K: ev.End}, ev.Event{K: ev.ED})
}

func (c *C13Case) checkBuildAny(ctx *Ctx) error {
	cfg := newCfg()
	ctx.Label("mutation:build-any")
	ctx.Label("build-template:" + c.Tmpl)
	fwd := false
	seen := map[string]bool{}
	for i, e := range c.Elems {
		if e.Kind == "m" {
			seen[e.ID] = true
			ctx.Label("marked value kind: " + c.Vals[i][0].K.String())
		}
		if e.Kind == "r" && !seen[e.ID] {
			fwd = true
		}
	}
	ctx.NonTrivial(true)
	ctx.LabelIf(fwd, "forward-ref")
	var tmpl interface{}
	switch c.Tmpl {
	case "[]interface":
		tmpl = []interface{}{}
	case "map[string]interface":
		tmpl = map[string]interface{}{}
	}
	var docs [2][]byte
	for k, withRefs := range []bool{true, false} {
		evs := c.anyEvents(withRefs)
		var idx int
		var err error
		if c.Format == "cbe" {
			docs[k], idx, err = encodeCBE(evs, cfg)
		} else {
			docs[k], idx, err = encodeCTE(evs, cfg)
		}
		if idx >= 0 {
			return fmt.Errorf("harness: the generated document (references=%v) is rejected at event %d: %v\n%s", withRefs, idx, err, ev.ListString(evs))
		}
	}
	want, werr, bad := unmarshalDoc(ctx, c.Format, docs[1], tmpl, cfg)
	if bad != nil || werr != nil {
		// the plain document itself does not unmarshal: not this property's business
		ctx.Label("plain document does not unmarshal (skipped)")
		return nil
	}
	got, gerr, bad := unmarshalDoc(ctx, c.Format, docs[0], tmpl, cfg)
	if bad != nil {
		return fmt.Errorf("%v\ndoc=%s", bad, docdump(c.Format, docs[0]))
	}
	if gerr != nil {
		return fmt.Errorf("a document the validator accepts failed to unmarshal into %s although the same document without markers does: %v\ndoc=%s", c.Tmpl, gerr, docdump(c.Format, docs[0]))
	}
	if !sameValue(got, want) {
		return fmt.Errorf("references were not replaced by the marked values (template %s):\n with markers and references: %#v\n with the values in place:     %#v\ndoc=%s", c.Tmpl, got, want, docdump(c.Format, docs[0]))
	}
	return nil
}

var c13BadIDs = []string{"", "a b", "a:b", "€", "a\xffb", "x/y", "\U0001F642", "a\x00", "!", "\"q\"", "a\nb", "�"}

func c13Opts(ctx *Ctx) gen.EvOpts {
	o := gen.EvOpts{Comments: true, Padding: true, CustomBinary: true, Media: true, Markers: true, MarkerHeavy: true, RemoteRef: true,
		Chunked: true, MidCharSplit: true, MaxDepth: 4, MaxArr: 20, Budget: 25}
	avoid(ctx, &o)
	return o
}

func findKinds(evs []ev.Event, k ev.Kind) []int {
	var out []int
	for i := range evs {
		if evs[i].K == k {
			out = append(out, i)
		}
	}
	return out
}

func insertEvent(evs []ev.Event, at int, e ev.Event) []ev.Event {
	out := make([]ev.Event, 0, len(evs)+1)
	out = append(out, evs[:at]...)
	out = append(out, e)
	return append(out, evs[at:]...)
}

func genC13(t *rapid.T, ctx *Ctx) interface{} {
	if rapid.IntRange(0, 3).Draw(t, "half") == 0 {
		if rapid.IntRange(0, 2).Draw(t, "buildany") == 0 {
			return genC13BuildAny(t)
		}
		return genC13Build(t)
	}
	c := &C13Case{MaxIDLen: rapid.SampledFrom([]int{1000, 1000, 1000, 20, 6, 3, 1}).Draw(t, "maxid")}
	evs := gen.Document(t, c13Opts(ctx))
	markers := findKinds(evs, ev.Marker)
	refs := findKinds(evs, ev.RefLocal)
	muts := []string{"none", "none", "none", "unknown-ref", "dup-marker", "bad-id", "long-id", "marker-on-marker", "marker-on-ref", "marker-on-remote-ref", "drop-marker",
		"key-ref-nonkeyable", "key-ref-keyable", "marker-before-end", "rename-consistently"}
	c.Mutation = muts[rapid.IntRange(0, len(muts)-1).Draw(t, "mutation")]
	pick := func(xs []int, l string) int { return xs[rapid.IntRange(0, len(xs)-1).Draw(t, l)] }
	switch c.Mutation {
	case "unknown-ref":
		if len(refs) == 0 {
			c.Mutation = "none"
			break
		}
		evs[pick(refs, "ri")].Bs = []byte("nosuchmarker")
	case "dup-marker":
		if len(markers) < 2 {
			c.Mutation = "none"
			break
		}
		a, b := pick(markers, "m1"), pick(markers, "m2")
		if a == b {
			c.Mutation = "none"
			break
		}
		evs[b].Bs = append([]byte{}, evs[a].Bs...)
	case "bad-id":
		all := append(append([]int{}, markers...), refs...)
		if len(all) == 0 {
			c.Mutation = "none"
			break
		}
		evs[pick(all, "bi")].Bs = []byte(c13BadIDs[rapid.IntRange(0, len(c13BadIDs)-1).Draw(t, "bad")])
	case "long-id", "rename-consistently":
		// rename one marker and all its references to an id of a chosen byte length around the limit
		if len(markers) == 0 {
			c.Mutation = "none"
			break
		}
		mi := pick(markers, "li")
		old := string(evs[mi].Bs)
		n := c.MaxIDLen + rapid.IntRange(-1, 1).Draw(t, "delta")
		if c.Mutation == "rename-consistently" {
			n = rapid.IntRange(1, 12).Draw(t, "rn")
		}
		if n < 1 {
			n = 1
		}
		if n > 1200 {
			n = 1200
		}
		unit := rapid.SampledFrom([]string{"q", "é", "中"}).Draw(t, "unit")
		id := strings.Repeat(unit, n/len(unit))
		for len(id) < n {
			id += "w"
		}
		for i := range evs {
			if (evs[i].K == ev.Marker || evs[i].K == ev.RefLocal) && string(evs[i].Bs) == old {
				evs[i].Bs = []byte(id)
			}
		}
	case "marker-on-marker":
		if len(markers) == 0 {
			c.Mutation = "none"
			break
		}
		evs = insertEvent(evs, pick(markers, "mm"), ev.Event{K: ev.Marker, Bs: []byte("extra")})
	case "marker-on-ref":
		if len(refs) == 0 {
			c.Mutation = "none"
			break
		}
		evs = insertEvent(evs, pick(refs, "mr"), ev.Event{K: ev.Marker, Bs: []byte("extra")})
	case "marker-on-remote-ref":
		// a new list element: a marker followed by a remote reference, through each of the three ways an array
		// can be delivered (the CBE decoder always sends begin + chunks, the CTE decoder a whole array)
		rr := [][]ev.Event{
			{{K: ev.Array, AT: events.ArrayTypeReferenceRemote, U: 3, Bs: []byte("x:y")}},
			{{K: ev.StringArray, AT: events.ArrayTypeReferenceRemote, S: "x:y"}},
			{{K: ev.ArrayBegin, AT: events.ArrayTypeReferenceRemote}, {K: ev.ArrayChunk, U: 3}, {K: ev.ArrayData, Bs: []byte("x:y")}},
			{{K: ev.ArrayBegin, AT: events.ArrayTypeReferenceRemote}, {K: ev.ArrayChunk, U: 1, B: true}, {K: ev.ArrayData, Bs: []byte("x")}, {K: ev.ArrayChunk, U: 2}, {K: ev.ArrayData, Bs: []byte(":y")}},
		}[rapid.IntRange(0, 3).Draw(t, "rrform")]
		ins := append([]ev.Event{{K: ev.Marker, Bs: []byte("extra")}}, rr...)
		if rapid.Bool().Draw(t, "rrused") {
			ins = append(ins, ev.Event{K: ev.RefLocal, Bs: []byte("extra")})
		}
		if lists := findKinds(evs, ev.List); len(lists) > 0 {
			at := pick(lists, "rrat") + 1
			evs = append(evs[:at:at], append(ins, evs[at:]...)...)
		} else {
			evs = append(append([]ev.Event{{K: ev.BD}, {K: ev.Version}, {K: ev.List}}, ins...), ev.Event{K: ev.End}, ev.Event{K: ev.ED})
		}
	case "drop-marker":
		if len(markers) == 0 {
			c.Mutation = "none"
			break
		}
		i := pick(markers, "dm")
		evs = append(evs[:i:i], evs[i+1:]...)
	case "marker-before-end":
		ends := findKinds(evs, ev.End)
		if len(ends) == 0 {
			c.Mutation = "none"
			break
		}
		evs = insertEvent(evs, pick(ends, "me"), ev.Event{K: ev.Marker, Bs: []byte("extra")})
	case "key-ref-nonkeyable", "key-ref-keyable":
		// hand-built: a map whose key is a reference (backward or forward) to an object of a chosen class
		keyable := c.Mutation == "key-ref-keyable"
		var target []ev.Event
		if keyable {
			target = [][]ev.Event{{{K: ev.Int, I: 5}}, {{K: ev.StringArray, AT: events.ArrayTypeString, S: "s"}}, {{K: ev.True}},
				{{K: ev.ArrayBegin, AT: events.ArrayTypeResourceID}, {K: ev.ArrayChunk, U: 1}, {K: ev.ArrayData, Bs: []byte("r")}},
				{{K: ev.ArrayBegin, AT: events.ArrayTypeString}, {K: ev.ArrayChunk, U: 20}, {K: ev.ArrayData, Bs: []byte("twenty-bytes-long-str")[:20]}}}[rapid.IntRange(0, 4).Draw(t, "kt")]
		} else {
			target = [][]ev.Event{{{K: ev.Null}}, {{K: ev.List}, {K: ev.End}}, {{K: ev.Map}, {K: ev.End}}, {{K: ev.Nan}},
				{{K: ev.Array, AT: events.ArrayTypeUint8, U: 1, Bs: []byte{1}}}, {{K: ev.Media, S: "a/b", Bs: []byte{1}}},
				// custom types (whole and chunked), chunked media, chunked typed array, node
				{{K: ev.CustomText, U: 7, S: "ct"}}, {{K: ev.CustomBinary, U: 7, Bs: []byte{1, 2}}},
				{{K: ev.CustomBegin, AT: events.ArrayTypeCustomText, U: 7}, {K: ev.ArrayChunk, U: 2}, {K: ev.ArrayData, Bs: []byte("ct")}},
				{{K: ev.CustomBegin, AT: events.ArrayTypeCustomBinary, U: 7}, {K: ev.ArrayChunk, U: 2}, {K: ev.ArrayData, Bs: []byte{1, 2}}},
				{{K: ev.MediaBegin, S: "a/b"}, {K: ev.ArrayChunk, U: 1}, {K: ev.ArrayData, Bs: []byte{1}}},
				{{K: ev.ArrayBegin, AT: events.ArrayTypeUint16}, {K: ev.ArrayChunk, U: 1}, {K: ev.ArrayData, Bs: []byte{1, 2}}},
				{{K: ev.Node}, {K: ev.Int, I: 1}, {K: ev.End}}}[rapid.IntRange(0, 12).Draw(t, "nt")]
		}
		marked := append([]ev.Event{{K: ev.Marker, Bs: []byte("tgt")}}, target...)
		keyMap := []ev.Event{{K: ev.Map}, {K: ev.RefLocal, Bs: []byte("tgt")}, {K: ev.Int, I: 1}, {K: ev.End}}
		evs = []ev.Event{{K: ev.BD}, {K: ev.Version}, {K: ev.List}}
		// further references to the same marker in value positions, before / between / after (each
		// reference constrains the marked object on its own; none may loosen the key constraint)
		extra := func(label string) {
			if rapid.IntRange(0, 2).Draw(t, label) == 0 {
				evs = append(evs, ev.Event{K: ev.RefLocal, Bs: []byte("tgt")})
			}
		}
		extra("xref0")
		if rapid.Bool().Draw(t, "forward") {
			evs = append(evs, keyMap...)
			extra("xref1")
			evs = append(evs, marked...)
		} else {
			evs = append(evs, marked...)
			extra("xref1")
			evs = append(evs, keyMap...)
		}
		extra("xref2")
		evs = append(evs, ev.Event{K: ev.End}, ev.Event{K: ev.ED})
	}
	c.Events = evs
	return c
}

func init() {
	Register(&Prop{
		ID:  "C13",
		New: func() interface{} { return &C13Case{} },
		Gen: genC13,
		Check: func(ci interface{}, ctx *Ctx) error {
			c := ci.(*C13Case)
			if c.Mutation == "build" {
				return c.checkBuild(ctx)
			}
			if c.Mutation == "build-any" {
				return c.checkBuildAny(ctx)
			}
			cfg := newCfg()
			cfg.Rules.MaxIdentifierLength = uint64(c.MaxIDLen)
			v := model.CheckMarkers(c.Events, c.MaxIDLen)
			ctx.NonTrivial(v.ForwardRefs > 0 || v.KeyRefs > 0 || (!v.Accept && c.Mutation != "none"))
			ctx.Label("mutation:" + c.Mutation)
			ctx.LabelIf(v.Accept, "model-accept")
			ctx.LabelIf(!v.Accept, "model-reject")
			ctx.LabelIf(v.ForwardRefs > 0, "forward-ref")
			ctx.LabelIf(v.KeyRefs > 0, "key-ref")
			ctx.LabelIf(c.MaxIDLen < 1000, "small-id-limit")
			idx, err := ev.Play(c.Events, ce.NewRules(nil, cfg))
			if v.Accept && idx >= 0 {
				return fmt.Errorf("marker model accepts but the validator rejected event %d (%v): %v\n%s", idx, c.Events[idx], err, ev.ListString(c.Events))
			}
			if !v.Accept && idx < 0 {
				return fmt.Errorf("marker model rejects (%s) but the validator accepted the whole stream\n%s", v.Reason, ev.ListString(c.Events))
			}
			return nil
		},
	})
}
