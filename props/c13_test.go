package props

import (
	"fmt"
	"strings"

	"github.com/kstenerud/go-concise-encoding/ce"
	"github.com/kstenerud/go-concise-encoding/ce/events"
	"pgregory.net/rapid"

	"verif/internal/ev"
	"verif/internal/gen"
	"verif/internal/model"
)

// C13 (validator half) — markers and local references are consistent in every accepted document.
// Oracle: M-MARK (internal/model/markers.go), accept/reject of the whole stream.

type C13Case struct {
	MaxIDLen int        `json:"max_id_len"`
	Mutation string     `json:"mutation"`
	Events   []ev.Event `json:"events"`
}

var c13BadIDs = []string{"", "a b", "a:b", "€", "a\xffb", "x/y", "\U0001F642", "a\x00", "!", "\"q\"", "a\nb", "�"}

func c13Opts(ctx *Ctx) gen.EvOpts {
	o := gen.EvOpts{Comments: true, Padding: true, CustomBinary: true, Media: true, Markers: true, MarkerHeavy: true, RemoteRef: true,
		Chunked: true, MidCharSplit: true, MaxDepth: 4, MaxArr: 20, Budget: 25}
	avoid(ctx, &o)
	return o
}

func findKinds(evs []ev.Event, k ev.Kind) []int {
	var out []int
	for i := range evs {
		if evs[i].K == k {
			out = append(out, i)
		}
	}
	return out
}

func insertEvent(evs []ev.Event, at int, e ev.Event) []ev.Event {
	out := make([]ev.Event, 0, len(evs)+1)
	out = append(out, evs[:at]...)
	out = append(out, e)
	return append(out, evs[at:]...)
}

func genC13(t *rapid.T, ctx *Ctx) interface{} {
	c := &C13Case{MaxIDLen: rapid.SampledFrom([]int{1000, 1000, 1000, 20, 6, 3, 1}).Draw(t, "maxid")}
	evs := gen.Document(t, c13Opts(ctx))
	markers := findKinds(evs, ev.Marker)
	refs := findKinds(evs, ev.RefLocal)
	muts := []string{"none", "none", "none", "unknown-ref", "dup-marker", "bad-id", "long-id", "marker-on-marker", "marker-on-ref", "drop-marker",
		"key-ref-nonkeyable", "key-ref-keyable", "marker-before-end", "rename-consistently"}
	c.Mutation = muts[rapid.IntRange(0, len(muts)-1).Draw(t, "mutation")]
	pick := func(xs []int, l string) int { return xs[rapid.IntRange(0, len(xs)-1).Draw(t, l)] }
	switch c.Mutation {
	case "unknown-ref":
		if len(refs) == 0 {
			c.Mutation = "none"
			break
		}
		evs[pick(refs, "ri")].Bs = []byte("nosuchmarker")
	case "dup-marker":
		if len(markers) < 2 {
			c.Mutation = "none"
			break
		}
		a, b := pick(markers, "m1"), pick(markers, "m2")
		if a == b {
			c.Mutation = "none"
			break
		}
		evs[b].Bs = append([]byte{}, evs[a].Bs...)
	case "bad-id":
		all := append(append([]int{}, markers...), refs...)
		if len(all) == 0 {
			c.Mutation = "none"
			break
		}
		evs[pick(all, "bi")].Bs = []byte(c13BadIDs[rapid.IntRange(0, len(c13BadIDs)-1).Draw(t, "bad")])
	case "long-id", "rename-consistently":
		// rename one marker and all its references to an id of a chosen byte length around the limit
		if len(markers) == 0 {
			c.Mutation = "none"
			break
		}
		mi := pick(markers, "li")
		old := string(evs[mi].Bs)
		n := c.MaxIDLen + rapid.IntRange(-1, 1).Draw(t, "delta")
		if c.Mutation == "rename-consistently" {
			n = rapid.IntRange(1, 12).Draw(t, "rn")
		}
		if n < 1 {
			n = 1
		}
		if n > 1200 {
			n = 1200
		}
		unit := rapid.SampledFrom([]string{"q", "é", "中"}).Draw(t, "unit")
		id := strings.Repeat(unit, n/len(unit))
		for len(id) < n {
			id += "w"
		}
		for i := range evs {
			if (evs[i].K == ev.Marker || evs[i].K == ev.RefLocal) && string(evs[i].Bs) == old {
				evs[i].Bs = []byte(id)
			}
		}
	case "marker-on-marker":
		if len(markers) == 0 {
			c.Mutation = "none"
			break
		}
		evs = insertEvent(evs, pick(markers, "mm"), ev.Event{K: ev.Marker, Bs: []byte("extra")})
	case "marker-on-ref":
		if len(refs) == 0 {
			c.Mutation = "none"
			break
		}
		evs = insertEvent(evs, pick(refs, "mr"), ev.Event{K: ev.Marker, Bs: []byte("extra")})
	case "drop-marker":
		if len(markers) == 0 {
			c.Mutation = "none"
			break
		}
		i := pick(markers, "dm")
		evs = append(evs[:i:i], evs[i+1:]...)
	case "marker-before-end":
		ends := findKinds(evs, ev.End)
		if len(ends) == 0 {
			c.Mutation = "none"
			break
		}
		evs = insertEvent(evs, pick(ends, "me"), ev.Event{K: ev.Marker, Bs: []byte("extra")})
	case "key-ref-nonkeyable", "key-ref-keyable":
		// hand-built: a map whose key is a reference (backward or forward) to an object of a chosen class
		keyable := c.Mutation == "key-ref-keyable"
		var target []ev.Event
		if keyable {
			target = [][]ev.Event{{{K: ev.Int, I: 5}}, {{K: ev.StringArray, AT: events.ArrayTypeString, S: "s"}}, {{K: ev.True}},
				{{K: ev.ArrayBegin, AT: events.ArrayTypeResourceID}, {K: ev.ArrayChunk, U: 1}, {K: ev.ArrayData, Bs: []byte("r")}},
				{{K: ev.ArrayBegin, AT: events.ArrayTypeString}, {K: ev.ArrayChunk, U: 20}, {K: ev.ArrayData, Bs: []byte("twenty-bytes-long-str")[:20]}}}[rapid.IntRange(0, 4).Draw(t, "kt")]
		} else {
			target = [][]ev.Event{{{K: ev.Null}}, {{K: ev.List}, {K: ev.End}}, {{K: ev.Map}, {K: ev.End}}, {{K: ev.Nan}},
				{{K: ev.Array, AT: events.ArrayTypeUint8, U: 1, Bs: []byte{1}}}, {{K: ev.Media, S: "a/b", Bs: []byte{1}}}}[rapid.IntRange(0, 5).Draw(t, "nt")]
		}
		marked := append([]ev.Event{{K: ev.Marker, Bs: []byte("tgt")}}, target...)
		keyMap := []ev.Event{{K: ev.Map}, {K: ev.RefLocal, Bs: []byte("tgt")}, {K: ev.Int, I: 1}, {K: ev.End}}
		evs = []ev.Event{{K: ev.BD}, {K: ev.Version}, {K: ev.List}}
		if rapid.Bool().Draw(t, "forward") {
			evs = append(append(evs, keyMap...), marked...)
		} else {
			evs = append(append(evs, marked...), keyMap...)
		}
		evs = append(evs, ev.Event{K: ev.End}, ev.Event{K: ev.ED})
	}
	c.Events = evs
	return c
}

func init() {
	Register(&Prop{
		ID:  "C13",
		New: func() interface{} { return &C13Case{} },
		Gen: genC13,
		Check: func(ci interface{}, ctx *Ctx) error {
			c := ci.(*C13Case)
			cfg := newCfg()
			cfg.Rules.MaxIdentifierLength = uint64(c.MaxIDLen)
			v := model.CheckMarkers(c.Events, c.MaxIDLen)
			ctx.NonTrivial(v.ForwardRefs > 0 || v.KeyRefs > 0 || (!v.Accept && c.Mutation != "none"))
			ctx.Label("mutation:" + c.Mutation)
			ctx.LabelIf(v.Accept, "model-accept")
			ctx.LabelIf(!v.Accept, "model-reject")
			ctx.LabelIf(v.ForwardRefs > 0, "forward-ref")
			ctx.LabelIf(v.KeyRefs > 0, "key-ref")
			ctx.LabelIf(c.MaxIDLen < 1000, "small-id-limit")
			idx, err := ev.Play(c.Events, ce.NewRules(nil, cfg))
			if v.Accept && idx >= 0 {
				return fmt.Errorf("marker model accepts but the validator rejected event %d (%v): %v\n%s", idx, c.Events[idx], err, ev.ListString(c.Events))
			}
			if !v.Accept && idx < 0 {
				return fmt.Errorf("marker model rejects (%s) but the validator accepted the whole stream\n%s", v.Reason, ev.ListString(c.Events))
			}
			return nil
		},
	})
}
