package props

import (
	"bytes"
	"fmt"
	"unicode/utf8"

	"github.com/kstenerud/go-concise-encoding/ce"
	"github.com/kstenerud/go-concise-encoding/configuration"
	"pgregory.net/rapid"

	"verif/internal/ev"
	"verif/internal/gen"
)

// C23 — CTE output depends only on the data. Metamorphic: the same document delivered with whole
// arrays and with two independent re-chunkings (mid-element and mid-character data-event splits
// included) must give byte-identical text; encode(decode(text)) == text.

type C23Case struct {
	Base []ev.Event `json:"base"`
	A    []ev.Event `json:"a"`
	B    []ev.Event `json:"b"`
	// IntFmt / FloatFmt: Encoder.CTE.DefaultNumericFormats.Array setting applied to every integer / float
	// array kind (0 = decimal, 4..9 = binary, octal, hexadecimal, plain or zero-filled); 255 = the defaults
	IntFmt   uint8 `json:"int_fmt"`
	FloatFmt uint8 `json:"float_fmt"`
}

func (c *C23Case) config() *configuration.Configuration {
	cfg := newCfg()
	a := &cfg.Encoder.CTE.DefaultNumericFormats.Array
	if c.IntFmt != 255 {
		f := configuration.CTENumericFormat(c.IntFmt)
		a.Int8, a.Int16, a.Int32, a.Int64, a.Uint8, a.Uint16, a.Uint32, a.Uint64 = f, f, f, f, f, f, f, f
	}
	if c.FloatFmt != 255 {
		f := configuration.CTENumericFormat(c.FloatFmt)
		a.Float16, a.Float32, a.Float64 = f, f, f
	}
	return cfg
}

func cteDirect(evs []ev.Event, cfg *configuration.Configuration) ([]byte, int, error) {
	return encodeWith(ce.NewCTEEncoder(cfg), evs, cfg, false)
}

// genC23Layout draws a document whose indentation depends on what the writer believes its column to be: a map
// (under 0-2 lists) whose plain string keys are followed on the same line by 1-6 directly nested nodes and
// edges. The key strings are whole arrays here; deliveries A and B send them as strings, bytes or chunks.
func genC23Layout(t *rapid.T) []ev.Event {
	out := []ev.Event{{K: ev.BD}, {K: ev.Version, U: 0}}
	wraps := rapid.IntRange(0, 2).Draw(t, "layout.wraps")
	for i := 0; i < wraps; i++ {
		out = append(out, ev.Event{K: ev.List})
	}
	out = append(out, ev.Event{K: ev.Map})
	for k := rapid.IntRange(1, 3).Draw(t, "layout.keys"); k > 0; k-- {
		key := rapid.StringMatching(`[a-z]{1,9}`).Draw(t, "layout.key") + fmt.Sprint(k)
		if rapid.Bool().Draw(t, "layout.keyform") {
			out = append(out, ev.Event{K: ev.StringArray, AT: 1, S: key})
		} else {
			out = append(out, ev.Event{K: ev.Array, AT: 1, U: uint64(len(key)), Bs: []byte(key)})
		}
		depth := rapid.IntRange(1, 6).Draw(t, "layout.nodes")
		for i := 0; i < depth; i++ {
			out = append(out, ev.Event{K: ev.Node})
		}
		out = append(out, ev.Event{K: ev.True})
		for i := 0; i < depth; i++ {
			if rapid.IntRange(0, 3).Draw(t, "layout.child") == 0 {
				out = append(out, ev.Event{K: ev.StringArray, AT: 1, S: "c"})
			}
			out = append(out, ev.Event{K: ev.End})
		}
	}
	out = append(out, ev.Event{K: ev.End})
	for i := 0; i < wraps; i++ {
		out = append(out, ev.Event{K: ev.End})
	}
	return append(out, ev.Event{K: ev.ED})
}

func init() {
	Register(&Prop{
		ID:  "C23",
		New: func() interface{} { return &C23Case{} },
		Gen: func(t *rapid.T, ctx *Ctx) interface{} {
			o := gen.EvOpts{Comments: true, CustomBinary: true, CustomText: true, Media: true, Markers: true, Records: true, RemoteRef: true,
				FullUnicode: true, Chunked: false, WideBigFloat: true, MaxDepth: 4, MaxArr: 40, Budget: 20}
			if ctx.Thorough() {
				o.MaxArr, o.Budget = 600, 80
			}
			avoid(ctx, &o)
			gen.EmitEmptyData = true // zero-length data events are one more way of dividing the same data
			base := gen.Document(t, o)
			if rapid.IntRange(0, 7).Draw(t, "layout") == 0 {
				base = genC23Layout(t)
			}
			c := &C23Case{Base: base, A: gen.Rechunk(t, base, true, true), B: gen.Rechunk(t, base, true, true), IntFmt: 255, FloatFmt: 255}
			if rapid.IntRange(0, 2).Draw(t, "formats") == 0 {
				// a non-default array format: the text still depends on the data only (float kinds: decimal or
				// hexadecimal - binary / octal float arrays are the open finding S20)
				c.IntFmt = uint8(rapid.SampledFrom([]int{0, 4, 5, 6, 7, 8, 9}).Draw(t, "intfmt"))
				c.FloatFmt = uint8(rapid.SampledFrom([]int{0, 8, 9}).Draw(t, "floatfmt"))
			}
			return c
		},
		Check: func(ci interface{}, ctx *Ctx) error {
			c := ci.(*C23Case)
			cfg := newCfg()
			if idx, err := rulesAccept(c.Base, cfg); idx >= 0 {
				return genInvalid(ctx, idx, err, c.Base)
			}
			features(ctx, c.Base)
			ctx.LabelIf(c.IntFmt != 255, fmt.Sprintf("array formats: int %d float %d", c.IntFmt, c.FloatFmt))
			// non-trivial: an array of element width > 1 split mid-element, or a string split mid-character
			nt := false
			for _, list := range [][]ev.Event{c.A, c.B} {
				var at uint8
				str := false
				acc := 0
				for i := range list {
					e := &list[i]
					switch e.K {
					case ev.ArrayBegin:
						at = uint8(e.AT)
						str = e.AT >= 1 && e.AT <= 4
						acc = 0
					case ev.CustomBegin:
						str = e.AT == 4
						at = 7
						acc = 0
					case ev.MediaBegin:
						str, at, acc = false, 7, 0
					case ev.ArrayChunk:
						ctx.Label("chunked")
					case ev.ArrayData:
						if str {
							if len(e.Bs) > 0 && (!utf8.RuneStart(e.Bs[0]) || !utf8.Valid(e.Bs)) {
								nt = true
								ctx.Label("mid-character-split")
							}
						} else if at > 7 {
							w := map[uint8]int{8: 2, 9: 4, 10: 8, 11: 1, 12: 2, 13: 4, 14: 8, 15: 2, 16: 4, 17: 8, 18: 16}[at]
							acc += len(e.Bs)
							if w > 1 && len(e.Bs)%w != 0 {
								nt = true
								ctx.Label("mid-element-split")
							}
						}
					}
				}
				_ = acc
			}
			ctx.NonTrivial(nt)
			var t0, ta, tb []byte
			var i0, ia, ib int
			var e0, ea, eb error
			o := ctx.Guard(func() {
				t0, i0, e0 = cteDirect(c.Base, c.config())
				ta, ia, ea = cteDirect(c.A, c.config())
				tb, ib, eb = cteDirect(c.B, c.config())
			})
			if o.TimedOut || o.Panic != nil {
				return fmt.Errorf("CTE encoder: %v", o)
			}
			if i0 >= 0 {
				return fmt.Errorf("CTE encoder failed on the whole-array delivery at event %d (%v): %v", i0, c.Base[i0], e0)
			}
			if ia >= 0 {
				return fmt.Errorf("CTE encoder failed on re-chunked delivery A at event %d (%v): %v\n%s", ia, c.A[ia], ea, ev.ListString(c.A))
			}
			if ib >= 0 {
				return fmt.Errorf("CTE encoder failed on re-chunked delivery B at event %d (%v): %v\n%s", ib, c.B[ib], eb, ev.ListString(c.B))
			}
			if !bytes.Equal(t0, ta) {
				return fmt.Errorf("CTE text changes with the chunking:\nwhole  =%s\nchunked=%s\nevents=%s", textdump(t0), textdump(ta), ev.ListString(c.A))
			}
			if !bytes.Equal(t0, tb) {
				return fmt.Errorf("CTE text changes with the chunking:\nwhole  =%s\nchunked=%s\nevents=%s", textdump(t0), textdump(tb), ev.ListString(c.B))
			}
			// idempotence
			var out []ev.Event
			var derr error
			o = ctx.Guard(func() { out, derr = decodeCTE(t0, cfg) })
			if o.TimedOut || o.Panic != nil {
				return fmt.Errorf("CTE decoder: %v", o)
			}
			if derr != nil {
				return fmt.Errorf("CTE decoder rejected encoder output: %v\ndoc=%s", derr, textdump(t0))
			}
			t1, i1, e1 := cteDirect(out, c.config())
			if i1 >= 0 {
				return fmt.Errorf("CTE encoder failed on decoded events at %d: %v", i1, e1)
			}
			if !bytes.Equal(t0, t1) {
				return fmt.Errorf("decode+encode is not the identity:\nfirst =%s\nsecond=%s", textdump(t0), textdump(t1))
			}
			return nil
		},
	})
}
