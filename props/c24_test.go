package props

import (
	"bytes"
	"encoding/binary"
	"fmt"
	"github.com/cockroachdb/apd/v2"
	"math"
	"math/big"
	"strings"
	"unicode/utf8"

	"github.com/kstenerud/go-concise-encoding/ce/events"
	"pgregory.net/rapid"

	"verif/internal/canon"
	"verif/internal/ev"
)

// C24 — CTE literals decode to exactly the value written. The generator builds a value and a random
// *spelling* of it (bases, prefix / digit case, separators, leading zeros, exponent forms, escape
// choices), so the exact value each literal spells is known independently of the decoder.

type C24Case struct {
	Kind   string `json:"kind"` // int | dec | hex | special | array | string
	Text   string `json:"text"` // the literal as it appears in the document
	Reject bool   `json:"reject,omitempty"`
	// expected value
	Int     string   `json:"int,omitempty"`     // integer value (decimal) or coefficient
	NegZero bool     `json:"negzero,omitempty"` // the literal spells -0
	Exp     int64    `json:"exp,omitempty"`     // dec: value = Int * 10^Exp ; hex: value = Int * 2^Exp
	Special string   `json:"special,omitempty"` // inf -inf nan snan
	AT      uint8    `json:"at,omitempty"`
	Bytes   []byte   `json:"bytes,omitempty"` // expected array payload / string bytes
	Alt     [][]byte `json:"alt,omitempty"`   // per float element: second acceptable encoding (neighbour), nil if exact
	Traits  []string `json:"traits,omitempty"`
	// string-like forms beyond string / resource ID: "media-text" (@type/subtype"..."), "remote-ref" ($"..."),
	// "custom-text" (@<code>"...")
	Form  string `json:"form,omitempty"`
	Media string `json:"media,omitempty"` // media type of the media-text form
	Code  uint64 `json:"code,omitempty"`  // custom type code of the custom-text form
	// Prefix: the literal is the second element of a list whose first element is this text (a value must
	// decode to the same thing whatever was decoded before it)
	Prefix string `json:"prefix,omitempty"`
	// OrReject (dec with an exponent at the edge of the 32-bit range): the decoder may refuse the literal; if it
	// accepts it, the value must be the one written (compared as coefficient and exponent, not as a fraction)
	OrReject bool `json:"or_reject,omitempty"`
}

func (c *C24Case) trait(s string) { c.Traits = append(c.Traits, s) }

func sepDigits(t *rapid.T, c *C24Case, digits string) string {
	if len(digits) < 2 || rapid.IntRange(0, 2).Draw(t, "sep") != 0 {
		return digits
	}
	c.trait("separator")
	var sb strings.Builder
	for i, ch := range digits {
		if i > 0 && rapid.IntRange(0, 3).Draw(t, "sepat") == 0 {
			sb.WriteString(strings.Repeat("_", rapid.IntRange(1, 2).Draw(t, "nsep")))
		}
		sb.WriteRune(ch)
	}
	return sb.String()
}

func leadingZeros(t *rapid.T, c *C24Case) string {
	if rapid.IntRange(0, 3).Draw(t, "lz") != 0 {
		return ""
	}
	c.trait("leading-zero")
	return strings.Repeat("0", rapid.IntRange(1, 3).Draw(t, "nlz"))
}

func hexCase(t *rapid.T, s string) string {
	if rapid.Bool().Draw(t, "upper") {
		return strings.ToUpper(s)
	}
	return s
}

// spellInt renders magnitude m in a base with the requested decorations. prefix: include 0b/0o/0x.
func spellInt(t *rapid.T, c *C24Case, m *big.Int, base int, prefix bool) string {
	digits := m.Text(base)
	if base == 16 {
		digits = hexCase(t, digits)
	}
	digits = leadingZeros(t, c) + digits
	digits = sepDigits(t, c, digits)
	if !prefix {
		return digits
	}
	p := map[int]string{2: "0b", 8: "0o", 16: "0x", 10: ""}[base]
	if p != "" && rapid.Bool().Draw(t, "prefixcase") {
		p = strings.ToUpper(p)
	}
	if base != 10 {
		c.trait("non-decimal-base")
	}
	return p + digits
}

func genMagnitude(t *rapid.T, label string, maxDigits int) *big.Int {
	switch rapid.IntRange(0, 4).Draw(t, label+".c") {
	case 0:
		return big.NewInt(int64(rapid.IntRange(0, 300).Draw(t, label+".small")))
	case 1:
		v := new(big.Int).Lsh(big.NewInt(1), uint(rapid.SampledFrom([]int{7, 8, 15, 16, 31, 32, 53, 63, 64, 65, 100}).Draw(t, label+".pow")))
		return v.Add(v, big.NewInt(int64(rapid.IntRange(-2, 2).Draw(t, label+".d"))))
	case 2:
		return new(big.Int).SetUint64(rapid.Uint64().Draw(t, label+".u64"))
	default:
		n := rapid.IntRange(1, maxDigits).Draw(t, label+".nd")
		s := ""
		for i := 0; i < n; i++ {
			s += string(rune('0' + rapid.IntRange(0, 9).Draw(t, label+".dg")))
		}
		v, _ := new(big.Int).SetString(s, 10)
		return v
	}
}

func genC24Int(t *rapid.T, c *C24Case) {
	c.Kind = "int"
	m := genMagnitude(t, "int", 100)
	neg := rapid.Bool().Draw(t, "neg")
	base := rapid.SampledFrom([]int{10, 10, 2, 8, 16}).Draw(t, "base")
	text := spellInt(t, c, m, base, true)
	if neg {
		text = "-" + text
		if m.Sign() == 0 {
			c.NegZero = true
		}
		m = new(big.Int).Neg(m)
	}
	c.Text = text
	c.Int = m.String()
}

func genC24Dec(t *rapid.T, c *C24Case) {
	c.Kind = "dec"
	ip := genMagnitude(t, "ip", 30)
	intDigits := leadingZeros(t, c) + ip.Text(10)
	frac := ""
	form := rapid.IntRange(0, 2).Draw(t, "form") // 0 fraction, 1 exponent, 2 both
	if form != 1 {
		n := rapid.IntRange(1, 25).Draw(t, "nfrac")
		for i := 0; i < n; i++ {
			frac += string(rune('0' + rapid.IntRange(0, 9).Draw(t, "fd")))
		}
	}
	if rapid.IntRange(0, 11).Draw(t, "zeroform") == 0 {
		// zero written with many digits (the sign of a negative zero must survive whichever path reads it)
		ip = big.NewInt(0)
		intDigits = strings.Repeat("0", rapid.IntRange(1, 3).Draw(t, "zi"))
		if form != 1 {
			frac = strings.Repeat("0", rapid.IntRange(1, 30).Draw(t, "zf"))
		}
		c.trait("zero-with-many-digits")
	}
	exp := int64(0)
	expText := ""
	if form != 0 {
		c.trait("exponent")
		exp = int64(rapid.IntRange(-400, 400).Draw(t, "exp"))
		if rapid.IntRange(0, 9).Draw(t, "edgeexp") == 0 {
			exp = rapid.SampledFrom([]int64{2147483647, 2147483646, 2147483640, -2147483640, -2147483646, -2147483647, -2147483648, 100000, -100000, 99999, -99999, 2147483648, -2147483649}).Draw(t, "edge")
			c.OrReject = true
			c.trait("exponent-at-the-32-bit-edge")
		}
		e := "e"
		if rapid.Bool().Draw(t, "E") {
			e = "E"
		}
		sign := ""
		if exp < 0 {
			sign = "-"
		} else if rapid.Bool().Draw(t, "plus") {
			sign = "+"
		}
		mag := big.NewInt(exp)
		mag.Abs(mag)
		expText = e + sign + sepDigits(t, c, leadingZeros(t, c)+mag.Text(10))
	}
	text := sepDigits(t, c, intDigits)
	if frac != "" {
		text += "." + sepDigits(t, c, frac)
	}
	text += expText
	neg := rapid.Bool().Draw(t, "neg")
	coeff, _ := new(big.Int).SetString(ip.Text(10)+frac, 10)
	if neg {
		text = "-" + text
		if coeff.Sign() == 0 {
			c.NegZero = true
		}
		coeff.Neg(coeff)
	}
	c.Text = text
	c.Int = coeff.String()
	c.Exp = exp - int64(len(frac))
}

func genC24Hex(t *rapid.T, c *C24Case) {
	c.Kind = "hex"
	c.trait("non-decimal-base")
	var ip *big.Int
	if rapid.Bool().Draw(t, "smallip") {
		ip = big.NewInt(int64(rapid.IntRange(0, 31).Draw(t, "ips")))
	} else {
		ip = genMagnitude(t, "ip", 20)
	}
	intDigits := hexCase(t, leadingZeros(t, c)+ip.Text(16))
	frac := ""
	form := rapid.IntRange(0, 2).Draw(t, "form")
	if form != 1 {
		n := rapid.IntRange(1, 40).Draw(t, "nfrac")
		for i := 0; i < n; i++ {
			frac += string("0123456789abcdef"[rapid.IntRange(0, 15).Draw(t, "fd")])
		}
		frac = hexCase(t, frac)
	}
	exp := int64(0)
	expText := ""
	if form != 0 {
		c.trait("exponent")
		exp = int64(rapid.IntRange(-1200, 1200).Draw(t, "exp"))
		p := "p"
		if rapid.Bool().Draw(t, "P") {
			p = "P"
		}
		sign := ""
		if exp < 0 {
			sign = "-"
		} else if rapid.Bool().Draw(t, "plus") {
			sign = "+"
		}
		mag := big.NewInt(exp)
		mag.Abs(mag)
		expText = p + sign + sepDigits(t, c, leadingZeros(t, c)+mag.Text(10))
	}
	prefix := "0x"
	if rapid.Bool().Draw(t, "prefixcase") {
		prefix = "0X"
	}
	text := prefix + sepDigits(t, c, intDigits)
	if frac != "" {
		text += "." + sepDigits(t, c, frac)
	}
	text += expText
	mant, _ := new(big.Int).SetString(ip.Text(16)+strings.ToLower(frac), 16)
	neg := rapid.Bool().Draw(t, "neg")
	if neg {
		text = "-" + text
		if mant.Sign() == 0 {
			c.NegZero = true
		}
		mant.Neg(mant)
	}
	c.Text = text
	c.Int = mant.String()
	c.Exp = exp - 4*int64(len(frac))
}

func genC24Special(t *rapid.T, c *C24Case) {
	c.Kind = "special"
	c.Special = rapid.SampledFrom([]string{"inf", "-inf", "nan", "snan"}).Draw(t, "sp")
	var sb strings.Builder
	for _, ch := range c.Special {
		if ch != '-' && rapid.Bool().Draw(t, "up") {
			sb.WriteString(strings.ToUpper(string(ch)))
		} else {
			sb.WriteRune(ch)
		}
	}
	c.Text = sb.String()
}

type c24ArrayKind struct {
	name   string
	at     events.ArrayType
	bits   int
	signed bool
	float  bool
}

var c24ArrayKinds = []c24ArrayKind{{"i8", events.ArrayTypeInt8, 8, true, false}, {"i16", events.ArrayTypeInt16, 16, true, false}, {"i32", events.ArrayTypeInt32, 32, true, false},
	{"i64", events.ArrayTypeInt64, 64, true, false}, {"u8", events.ArrayTypeUint8, 8, false, false}, {"u16", events.ArrayTypeUint16, 16, false, false},
	{"u32", events.ArrayTypeUint32, 32, false, false}, {"u64", events.ArrayTypeUint64, 64, false, false},
	{"f16", events.ArrayTypeFloat16, 16, false, true}, {"f32", events.ArrayTypeFloat32, 32, false, true}, {"f64", events.ArrayTypeFloat64, 64, false, true}}

func appendLE(out []byte, bits int, v uint64) []byte {
	switch bits {
	case 8:
		return append(out, byte(v))
	case 16:
		return binary.LittleEndian.AppendUint16(out, uint16(v))
	case 32:
		return binary.LittleEndian.AppendUint32(out, uint32(v))
	}
	return binary.LittleEndian.AppendUint64(out, v)
}

func genC24Array(t *rapid.T, c *C24Case) {
	c.Kind = "array"
	k := c24ArrayKinds[rapid.IntRange(0, len(c24ArrayKinds)-1).Draw(t, "akind")]
	c.AT = uint8(k.at)
	n := rapid.IntRange(0, 6).Draw(t, "n")
	var elems []string
	c.Bytes = []byte{}
	if !k.float {
		suffix := rapid.SampledFrom([]string{"", "", "b", "o", "x"}).Draw(t, "suffix")
		arrBase := map[string]int{"": 0, "b": 2, "o": 8, "x": 16}[suffix]
		if suffix != "" {
			c.trait("non-decimal-base")
		}
		lo, hi := new(big.Int), new(big.Int)
		if k.signed {
			lo.Lsh(big.NewInt(1), uint(k.bits-1)).Neg(lo)
			hi.Lsh(big.NewInt(1), uint(k.bits-1)).Sub(hi, big.NewInt(1))
		} else {
			hi.Lsh(big.NewInt(1), uint(k.bits)).Sub(hi, big.NewInt(1))
		}
		outOfRange := -1
		if n > 0 && rapid.IntRange(0, 5).Draw(t, "oor") == 0 {
			outOfRange = rapid.IntRange(0, n-1).Draw(t, "ooridx")
		}
		for i := 0; i < n; i++ {
			var v *big.Int
			switch {
			case i == outOfRange:
				c.Reject = true
				if k.signed && rapid.Bool().Draw(t, "oorlow") {
					v = new(big.Int).Sub(lo, big.NewInt(int64(rapid.IntRange(1, 3).Draw(t, "oord"))))
				} else {
					v = new(big.Int).Add(hi, big.NewInt(int64(rapid.IntRange(1, 3).Draw(t, "oord"))))
				}
			case rapid.IntRange(0, 2).Draw(t, "edge") == 0:
				v = new(big.Int).Set([]*big.Int{lo, hi, big.NewInt(0), new(big.Int).Add(lo, big.NewInt(1)), new(big.Int).Sub(hi, big.NewInt(1))}[rapid.IntRange(0, 4).Draw(t, "edgev")])
			default:
				span := new(big.Int).Sub(hi, lo)
				r := new(big.Int).SetUint64(rapid.Uint64().Draw(t, "rv"))
				r.Mod(r, span.Add(span, big.NewInt(1)))
				v = r.Add(r, lo)
			}
			m := new(big.Int).Abs(v)
			var text string
			if arrBase == 0 {
				eb := rapid.SampledFrom([]int{10, 10, 2, 8, 16}).Draw(t, "ebase")
				text = spellInt(t, c, m, eb, true)
			} else {
				text = spellInt(t, c, m, arrBase, false)
			}
			if v.Sign() < 0 {
				text = "-" + text
			}
			elems = append(elems, text)
			if !c.Reject {
				u := new(big.Int).Set(v)
				if u.Sign() < 0 {
					u.Add(u, new(big.Int).Lsh(big.NewInt(1), uint(k.bits)))
				}
				c.Bytes = appendLE(c.Bytes, k.bits, u.Uint64())
			}
		}
		c.Text = "@" + k.name + suffix + "[" + strings.Join(elems, " ") + "]"
		if rapid.Bool().Draw(t, "upper") {
			c.Text = "@" + strings.ToUpper(k.name+suffix) + "[" + strings.Join(elems, " ") + "]"
		}
		return
	}
	// float arrays: decimal / prefixed hex elements in the plain array, prefix-less hex in the x array
	xarr := rapid.Bool().Draw(t, "xarr")
	for i := 0; i < n; i++ {
		var bits uint64
		var f float64
		switch k.bits {
		case 16:
			b := uint16(rapid.Uint16().Draw(t, "f16"))
			f = float64(math.Float32frombits(uint32(b) << 16))
			bits = uint64(b)
		case 32:
			b := rapid.Uint32().Draw(t, "f32")
			f = float64(math.Float32frombits(b))
			bits = uint64(b)
		default:
			bits = rapid.Uint64().Draw(t, "f64")
			f = math.Float64frombits(bits)
		}
		var text string
		switch {
		case math.IsNaN(f):
			quiet := math.Float64bits(f)&(1<<51) != 0
			if k.bits == 16 {
				quiet = bits&0x40 != 0
			} else if k.bits == 32 {
				quiet = bits&0x400000 != 0
			}
			text = "snan"
			bits = map[int]uint64{16: 0x7f81, 32: 0x7f800001, 64: 0x7ff0000000000001}[k.bits]
			if quiet {
				text = "nan"
				bits = map[int]uint64{16: 0x7fc0, 32: 0x7fc00000, 64: 0x7ff8000000000000}[k.bits]
			}
			c.Alt = append(c.Alt, []byte("nan")) // marker: compare NaN kind only
		case math.IsInf(f, 0):
			text = "inf"
			if f < 0 {
				text = "-inf"
			}
			c.Alt = append(c.Alt, nil)
		default:
			// exact spelling of the element value in hex float notation
			bf := new(big.Float).SetFloat64(math.Abs(f))
			text = bf.Text('x', -1) // 0x1.8p+00
			if !strings.Contains(text, "p") {
				text += "p+00"
			}
			if xarr {
				text = strings.TrimPrefix(text, "0x")
			} else if rapid.Bool().Draw(t, "fdec") && f == math.Trunc(f) && math.Abs(f) < 1e15 {
				text = fmt.Sprintf("%d", int64(math.Abs(f)))
			}
			if math.Signbit(f) {
				text = "-" + text
			}
			c.Alt = append(c.Alt, nil)
		}
		elems = append(elems, text)
		c.Bytes = appendLE(c.Bytes, k.bits, bits)
	}
	name := k.name
	if xarr {
		name += "x"
		c.trait("non-decimal-base")
	}
	c.Text = "@" + name + "[" + strings.Join(elems, " ") + "]"
}

type c24Char struct {
	r         rune
	spellings []string // "lit" or an escape text; "hex" = \[hex]
}

var c24Chars = []c24Char{
	{'a', []string{"lit", "hex"}}, {'Z', []string{"lit", "hex"}}, {'9', []string{"lit"}}, {' ', []string{"lit", "hex"}},
	{0xe9, []string{"lit", "hex"}}, {0x4e2d, []string{"lit", "hex"}}, {0x1f600, []string{"lit", "hex"}}, {0x301, []string{"lit", "hex"}},
	{'"', []string{`\"`, "hex"}}, {'\\', []string{`\\`, "hex"}}, {'\n', []string{"lit", `\n`, `\N`, "hex"}}, {'\r', []string{`\r`, `\R`, "hex"}},
	{'\t', []string{"lit", `\t`, `\T`, "hex"}}, {'*', []string{"lit", `\*`}}, {'/', []string{"lit", `\/`}},
	{0xad, []string{"lit", `\-`, "hex"}}, {0xa0, []string{"lit", `\_`, "hex"}},
	{0x01, []string{"hex"}}, {0x7f, []string{"hex"}}, {0x1b, []string{"hex"}}, {0x00, []string{"hex"}}, {0x85, []string{"hex"}},
	{0x10ffff, []string{"hex"}}, {0xe000, []string{"hex"}}, {0xfffe, []string{"hex"}}, {0x2028, []string{"lit", "hex"}}, {0x200b, []string{"lit", "hex"}},
}

func genC24String(t *rapid.T, c *C24Case) {
	c.Kind = "string"
	n := rapid.IntRange(0, 12).Draw(t, "n")
	var sb strings.Builder
	var want []byte
	afterContinuation := false
	for i := 0; i < n; i++ {
		kind := rapid.IntRange(0, 11).Draw(t, "item")
		switch {
		case kind == 0: // line continuation: contributes nothing, swallows following whitespace
			c.trait("escape")
			sb.WriteString("\\")
			sb.WriteString(rapid.SampledFrom([]string{"\n", "\r\n", "\n   ", "\n\t \n "}).Draw(t, "cont"))
			afterContinuation = true
			continue
		case kind == 1: // verbatim sequence
			c.trait("escape")
			sentinel := rapid.SampledFrom([]string{"@", "##", "END", "é%", "|"}).Draw(t, "sentinel")
			sepr := rapid.SampledFrom([]string{" ", "\t", "\n", "\r\n"}).Draw(t, "vsep")
			content := rapid.SampledFrom([]string{"", "x", "a\\b\"c", "line1\nline2", "\\[41]", "tab\there ", " lead", "//not a comment", "中 ­"}).Draw(t, "vcontent")
			if strings.Contains(content, sentinel) {
				content = "x"
			}
			if content == "" && len([]rune(sentinel)) > 1 && findingOpen("S64-empty-verbatim-sequence") {
				ctx24Exclude("S64-empty-verbatim-sequence")
				content = "y"
			}
			sb.WriteString("\\." + sentinel + sepr + content + sentinel)
			want = append(want, content...)
			afterContinuation = false
			continue
		}
		ch := c24Chars[rapid.IntRange(0, len(c24Chars)-1).Draw(t, "ch")]
		sp := ch.spellings[rapid.IntRange(0, len(ch.spellings)-1).Draw(t, "sp")]
		if afterContinuation && sp == "lit" && (ch.r == ' ' || ch.r == '\n' || ch.r == '\t') {
			sp = "hex" // literal whitespace right after a continuation would be swallowed by it
		}
		afterContinuation = false
		switch sp {
		case "lit":
			sb.WriteRune(ch.r)
		case "hex":
			c.trait("escape")
			h := fmt.Sprintf("%x", ch.r)
			if rapid.Bool().Draw(t, "hexup") {
				h = strings.ToUpper(h)
			}
			h = strings.Repeat("0", rapid.IntRange(0, 2).Draw(t, "hexlz")) + h
			sb.WriteString("\\[" + h + "]")
		default:
			c.trait("escape")
			sb.WriteString(sp)
		}
		want = utf8.AppendRune(want, ch.r)
	}
	if rapid.IntRange(0, 14).Draw(t, "badcp") == 0 {
		// a code point escape that names no character: surrogates and values beyond U+10FFFF
		sb.WriteString("\\[" + rapid.SampledFrom([]string{"d800", "dfff", "D8AB", "dc00", "110000", "ffffff", "7fffffff"}).Draw(t, "badcpv") + "]")
		c.Reject = true
		c.trait("invalid-codepoint-escape")
	}
	form := rapid.IntRange(0, 8).Draw(t, "sform")
	switch form {
	case 0:
		c.Text = `@"` + sb.String() + `"`
		c.AT = uint8(events.ArrayTypeResourceID)
	case 6:
		c.Form, c.Media = "media-text", rapid.SampledFrom([]string{"text/plain", "application/x-sh", "a/b"}).Draw(t, "mtype")
		c.Text = "@" + c.Media + `"` + sb.String() + `"`
		c.trait("media-text")
	case 7:
		c.Form = "remote-ref"
		c.Text = `$"` + sb.String() + `"`
		c.AT = uint8(events.ArrayTypeReferenceRemote)
		c.trait("remote-ref")
	case 8:
		c.Form, c.Code = "custom-text", uint64(rapid.SampledFrom([]int{0, 1, 99, 65536}).Draw(t, "ccode"))
		c.Text = fmt.Sprintf(`@%d"%s"`, c.Code, sb.String())
		c.trait("custom-text")
	default:
		c.Text = `"` + sb.String() + `"`
		c.AT = uint8(events.ArrayTypeString)
	}
	if want == nil {
		want = []byte{}
	}
	c.Bytes = want
}

// c24CoeffExp returns coefficient and decimal exponent of a numeric event.
func c24CoeffExp(e *ev.Event) (*big.Int, int64, bool) {
	switch e.K {
	case ev.Int:
		return big.NewInt(e.I), 0, true
	case ev.PInt:
		return new(big.Int).SetUint64(e.U), 0, true
	case ev.NInt:
		return new(big.Int).Neg(new(big.Int).SetUint64(e.U)), 0, true
	case ev.BigInt:
		if e.Big == nil {
			return nil, 0, false
		}
		return e.Big, 0, true
	case ev.DFloat:
		if e.DF.IsSpecial() && !e.DF.IsZero() {
			return nil, 0, false
		}
		return big.NewInt(e.DF.Coefficient), int64(e.DF.Exponent), true
	case ev.BigDFloat:
		if e.BDF == nil || e.BDF.Form != apd.Finite {
			return nil, 0, false
		}
		cf := new(big.Int).Set(&e.BDF.Coeff)
		if e.BDF.Negative {
			cf.Neg(cf)
		}
		return cf, int64(e.BDF.Exponent), true
	}
	return nil, 0, false
}

func ratFromCase(c *C24Case) *big.Rat {
	v, _ := new(big.Int).SetString(c.Int, 10)
	r := new(big.Rat).SetInt(v)
	base := int64(10)
	if c.Kind == "hex" {
		base = 2
	}
	p := new(big.Rat).SetInt(new(big.Int).Exp(big.NewInt(base), big.NewInt(abs64i(c.Exp)), nil))
	if c.Exp >= 0 {
		r.Mul(r, p)
	} else {
		r.Quo(r, p)
	}
	return r
}

func init() {
	Register(&Prop{
		ID:  "C24",
		New: func() interface{} { return &C24Case{} },
		Gen: func(t *rapid.T, ctx *Ctx) interface{} {
			ctx24Exclude = func(k string) { ctx.Stats.Exclude(k) }
			c := &C24Case{}
			switch rapid.IntRange(0, 9).Draw(t, "kind") {
			case 0, 1:
				genC24Int(t, c)
			case 2, 3:
				genC24Dec(t, c)
			case 4, 5:
				genC24Hex(t, c)
			case 6:
				genC24Special(t, c)
			case 7, 8:
				genC24Array(t, c)
			default:
				genC24String(t, c)
			}
			if rapid.IntRange(0, 3).Draw(t, "prefixed") == 0 {
				c.Prefix = rapid.SampledFrom([]string{`"abc"`, `@u8x[01 02 03]`, `@"http://x.y"`, `"a string longer than fifteen bytes"`, `17`, `@i16[1 -2]`, `@a/b[01 02]`}).Draw(t, "prefix")
				c.trait("after-another-value")
			}
			return c
		},
		Check: func(ci interface{}, ctx *Ctx) error {
			c := ci.(*C24Case)
			ctx.Label("kind:" + c.Kind)
			for _, tr := range c.Traits {
				ctx.Label("trait:" + tr)
			}
			ctx.LabelIf(c.Reject, "must-reject")
			ctx.NonTrivial(len(c.Traits) > 0 || c.Reject)
			doc := []byte("c0\n" + c.Text)
			if c.Prefix != "" {
				doc = []byte("c0\n[" + c.Prefix + " " + c.Text + "]")
			}
			var evs []ev.Event
			var err error
			o := ctx.Guard(func() { evs, err = decodeCTE(doc, newCfg()) })
			if o.TimedOut || o.Panic != nil {
				return fmt.Errorf("CTE decoder: %v\ndoc=%s", o, textdump(doc))
			}
			if c.Reject {
				if err == nil {
					return fmt.Errorf("literal %q has an element outside the range of its element type (or an escape that names no character) but was accepted: %s", c.Text, ev.ListString(evs))
				}
				return nil
			}
			if err != nil && c.OrReject {
				ctx.Label("edge exponent: rejected")
				return nil
			}
			if err != nil {
				return fmt.Errorf("literal %q is valid CTE but was rejected: %v", c.Text, err)
			}
			if len(evs) < 4 {
				return fmt.Errorf("literal %q decoded to %s", c.Text, ev.ListString(evs))
			}
			tree, berr := buildTree(evs, canon.Opts{})
			if berr != nil || len(tree.Children) != 1 {
				return fmt.Errorf("literal %q decoded to a malformed document: %v %s", c.Text, berr, ev.ListString(evs))
			}
			got := tree.Children[0]
			if c.Prefix != "" {
				if got.Kind != canon.KList || len(got.Children) != 2 {
					return fmt.Errorf("list of two values %q decoded to %s", doc, got.Brief())
				}
				got = got.Children[1]
				// the event-level checks below look at the literal's own event: the last value event of the list
				evs = append(evs[:2:2], evs[len(evs)-3], evs[len(evs)-1])
			}
			bad := func(what string) error {
				return fmt.Errorf("literal %q spells %s but decoded to %s", c.Text, what, got.Brief())
			}
			switch c.Kind {
			case "int", "dec", "hex":
				if got.Kind != canon.KNum {
					return bad("a number")
				}
				if c.OrReject {
					// exponents of billions: compare coefficient and exponent after stripping trailing zeros
					ctx.Label("edge exponent: accepted")
					wc, _ := new(big.Int).SetString(c.Int, 10)
					we := c.Exp
					gc, ge, ok := c24CoeffExp(&evs[2])
					if !ok {
						return bad("a decimal float")
					}
					norm := func(cf *big.Int, e int64) (*big.Int, int64) {
						cf = new(big.Int).Set(cf)
						ten, rem := big.NewInt(10), new(big.Int)
						for cf.Sign() != 0 {
							q, r := new(big.Int).QuoRem(cf, ten, rem)
							if r.Sign() != 0 {
								break
							}
							cf, e = q, e+1
						}
						return cf, e
					}
					wc, we = norm(wc, we)
					gc, ge = norm(gc, ge)
					if wc.Sign() != 0 && (wc.Cmp(gc) != 0 || we != ge) {
						return bad(fmt.Sprintf("%s x 10^%d", wc, we))
					}
					if wc.Sign() == 0 && gc.Sign() != 0 {
						return bad("zero")
					}
					return nil
				}
				want := ratFromCase(c)
				if want.Sign() == 0 {
					if got.Num.Class != canon.NZero || got.Num.Neg != c.NegZero {
						return bad(fmt.Sprintf("zero (negative=%v)", c.NegZero))
					}
					return nil
				}
				var gr *big.Rat
				e := evs[2]
				gr, kind, _ := exactValue(&e)
				if kind != "rat" || gr.Cmp(want) != 0 {
					return bad(want.RatString())
				}
				if c.Kind == "int" && !(e.K == ev.Int || e.K == ev.PInt || e.K == ev.NInt || e.K == ev.BigInt) {
					return bad("an integer")
				}
			case "special":
				if got.Kind != canon.KNum {
					return bad(c.Special)
				}
				switch c.Special {
				case "inf", "-inf":
					if got.Num.Class != canon.NInf || got.Num.Neg != (c.Special == "-inf") {
						return bad(c.Special)
					}
				case "nan":
					if got.Num.Class != canon.NNan || got.Num.Sig {
						return bad("a quiet NaN")
					}
				default:
					if got.Num.Class != canon.NNan || !got.Num.Sig {
						return bad("a signalling NaN")
					}
				}
			case "array":
				if got.Kind != canon.KArray || uint8(got.AT) != c.AT {
					return bad(fmt.Sprintf("an array of type %v", events.ArrayType(c.AT)))
				}
				w := events.ArrayType(c.AT).ElementSize() / 8
				if len(got.Bytes) != len(c.Bytes) {
					return bad(fmt.Sprintf("%d elements %x", len(c.Bytes)/w, c.Bytes))
				}
				for i := 0; i+w <= len(c.Bytes); i += w {
					if bytes.Equal(got.Bytes[i:i+w], c.Bytes[i:i+w]) {
						continue
					}
					if len(c.Alt) > i/w && string(c.Alt[i/w]) == "nan" {
						// NaN element: kind was encoded in c.Bytes canonical pattern; compare kind only
						if arrayNaNKindEq(events.ArrayType(c.AT), got.Bytes[i:i+w], c.Bytes[i:i+w]) {
							continue
						}
					}
					return bad(fmt.Sprintf("element %d = %x (all: %x)", i/w, c.Bytes[i:i+w], c.Bytes))
				}
			case "string":
				switch c.Form {
				case "media-text":
					if got.Kind != canon.KMedia || got.Str != c.Media || !bytes.Equal(got.Bytes, c.Bytes) {
						return bad(fmt.Sprintf("media %s %q", c.Media, c.Bytes))
					}
					return nil
				case "custom-text":
					if got.Kind != canon.KCustom || got.Code != c.Code || !bytes.Equal(got.Bytes, c.Bytes) {
						return bad(fmt.Sprintf("custom text %d %q", c.Code, c.Bytes))
					}
					return nil
				}
				if got.Kind != canon.KArray || uint8(got.AT) != c.AT || !bytes.Equal(got.Bytes, c.Bytes) {
					return bad(fmt.Sprintf("%v %q", events.ArrayType(c.AT), c.Bytes))
				}
			}
			return nil
		},
	})
}

func arrayNaNKindEq(at events.ArrayType, a, b []byte) bool {
	n1 := &canon.Node{Kind: canon.KArray, AT: at, Count: 1, Bytes: a}
	n2 := &canon.Node{Kind: canon.KArray, AT: at, Count: 1, Bytes: b}
	return canon.Diff(n1, n2, canon.EqOpts{FloatArrayNaNKind: true}) == ""
}

var ctx24Exclude = func(string) {}
