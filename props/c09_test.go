package props

import (
	"bytes"
	"fmt"
	"reflect"
	"sort"
	"strings"

	"github.com/kstenerud/go-concise-encoding/ce"
	"github.com/kstenerud/go-concise-encoding/ce/events"
	"pgregory.net/rapid"

	"verif/internal/ev"
)

// C09 — truncated documents are rejected and partial results are prefixes.
//
// For a generated valid document every cut point 0 < k < len is executed: unmarshal(doc[:k]) must
// return an error, and the partial value P it returns must be a prefix of the full value F:
//   - upper bound ("nothing that was not in the document appears"): P is contained in F - lists are
//     element-wise prefixes, map entries / struct fields come from F, at most the element in progress is
//     itself a strict prefix;
//   - lower bound ("completely decoded elements are present and unchanged"): every element whose
//     encoding ended before the cut (byte offsets recorded while encoding) is present and equal, along
//     the path of containers that were still open at the cut.

type C09Val struct {
	K     string    `json:"k"` // int | str | bytes | i16s | bool | float | list | map | rec (record: Keys = the type's fields, S = type name)
	I     int64     `json:"i,omitempty"`
	S     string    `json:"s,omitempty"`
	B     []byte    `json:"b,omitempty"`
	F     float64   `json:"f,omitempty"`
	Elems []*C09Val `json:"elems,omitempty"`
	Keys  []string  `json:"keys,omitempty"`
	M     string    `json:"m,omitempty"` // marker identifier placed on this value (never referenced: invisible in the result)
	// byte offsets in the encoded document (filled while encoding): the value's first byte and the
	// offset just past its last byte; for map entries keyEnd is the offset just past the key
	start, end int
	keyEnds    []int
}

func isMapLike(k string) bool   { return k == "map" || k == "rec" }
func isContainer(k string) bool { return k == "list" || k == "map" || k == "rec" }

type C09Case struct {
	Format string  `json:"format"`
	Tmpl   string  `json:"template"`
	Doc    *C09Val `json:"doc"`
	Cut    int     `json:"cut,omitempty"` // 0 = every cut point; otherwise only this one
}

type c09ArrStruct struct {
	A int64
	T [3]string
	Z string
}

type c09Struct struct {
	A int64
	B string
	C []int64
	D map[string]int64
	E []byte
}

var c09Strings = []string{"", "a", "hello", "exactly15bytes!!", "a string longer than fifteen bytes", "né", "中文字符串", "x y", "tab\there",
	// 63 / 64 / 70 / 130 bytes: from 64 elements on the CBE chunk header takes two bytes, so a cut can fall inside it
	strings.Repeat("s", 63), strings.Repeat("t", 64), strings.Repeat("0123456789", 7), strings.Repeat("abcdefghijklm", 10)}
var c09Keys = []string{"A", "B", "C", "D", "E", "k", "key", "other", "a-longer-key-name-than-15", "é", "z9"}

func genC09Int(t *rapid.T) *C09Val {
	return &C09Val{K: "int", I: rapid.SampledFrom([]int64{0, 1, -1, 100, 101, -101, 255, 256, 65535, 65536, -70000, 1 << 32, -(1 << 40), 1<<62 + 5, -9007199254740993, 7, 42}).Draw(t, "int")}
}

func genC09Str(t *rapid.T) *C09Val {
	return &C09Val{K: "str", S: rapid.SampledFrom(c09Strings).Draw(t, "str")}
}

func genC09Leaf(t *rapid.T) *C09Val {
	switch rapid.IntRange(0, 6).Draw(t, "leaf") {
	case 0, 1:
		return genC09Int(t)
	case 2, 3:
		return genC09Str(t)
	case 4:
		n := rapid.IntRange(0, 20).Draw(t, "bytesn")
		switch rapid.IntRange(0, 40).Draw(t, "byteslong") {
		case 0, 1, 2, 3:
			n = rapid.IntRange(62, 70).Draw(t, "bytesn2") // around the two-byte chunk header
		}
		return &C09Val{K: "bytes", B: rapid.SliceOfN(rapid.Byte(), n, n).Draw(t, "bytes")}
	case 5:
		n := rapid.IntRange(0, 18).Draw(t, "i16n")
		if rapid.IntRange(0, 9).Draw(t, "i16long") == 0 {
			n = rapid.IntRange(62, 70).Draw(t, "i16n2")
		}
		return &C09Val{K: "i16s", B: rapid.SliceOfN(rapid.Byte(), 2*n, 2*n).Draw(t, "i16s")}
	default:
		if rapid.Bool().Draw(t, "isbool") {
			return &C09Val{K: "bool", I: int64(rapid.IntRange(0, 1).Draw(t, "bool"))}
		}
		return &C09Val{K: "float", F: rapid.SampledFrom([]float64{1.5, -0.25, 1e100, 3.0000001}).Draw(t, "float")}
	}
}

func genC09Keys(t *rapid.T, n int) []string {
	perm := rapid.Permutation(c09Keys).Draw(t, "keys")
	return append([]string{}, perm[:n]...)
}

func genC09Tree(t *rapid.T, depth int) *C09Val {
	if depth >= 3 || rapid.IntRange(0, 2).Draw(t, "leafy") == 0 && depth > 0 {
		return genC09Leaf(t)
	}
	n := rapid.IntRange(0, 5).Draw(t, "n")
	if rapid.Bool().Draw(t, "islist") {
		v := &C09Val{K: "list"}
		for i := 0; i < n; i++ {
			v.Elems = append(v.Elems, genC09Tree(t, depth+1))
		}
		return v
	}
	v := &C09Val{K: "map", Keys: genC09Keys(t, n)}
	if n > 0 && rapid.IntRange(0, 2).Draw(t, "isrec") == 0 {
		v.K, v.S = "rec", fmt.Sprintf("r%d", n) // the record type r<n> is declared from the first record of that name
	}
	for i := 0; i < n; i++ {
		v.Elems = append(v.Elems, genC09Tree(t, depth+1))
	}
	return v
}

func genC09Doc(t *rapid.T, tmpl string) *C09Val {
	ints := func(lo, hi int) *C09Val {
		v := &C09Val{K: "list"}
		for i, n := 0, rapid.IntRange(lo, hi).Draw(t, "n"); i < n; i++ {
			v.Elems = append(v.Elems, genC09Int(t))
		}
		return v
	}
	intMap := func() *C09Val {
		n := rapid.IntRange(0, 6).Draw(t, "mn")
		v := &C09Val{K: "map", Keys: genC09Keys(t, n)}
		for i := 0; i < n; i++ {
			v.Elems = append(v.Elems, genC09Int(t))
		}
		return v
	}
	switch tmpl {
	case "[]int64":
		return ints(0, 12)
	case "map[string]int64":
		return intMap()
	case "[][]int64":
		v := &C09Val{K: "list"}
		for i, n := 0, rapid.IntRange(0, 5).Draw(t, "outer"); i < n; i++ {
			v.Elems = append(v.Elems, ints(0, 5))
		}
		return v
	case "[]string":
		v := &C09Val{K: "list"}
		for i, n := 0, rapid.IntRange(0, 8).Draw(t, "n"); i < n; i++ {
			v.Elems = append(v.Elems, genC09Str(t))
		}
		return v
	case "[4]string":
		v := &C09Val{K: "list"}
		for i, n := 0, rapid.IntRange(0, 4).Draw(t, "n"); i < n; i++ {
			v.Elems = append(v.Elems, genC09Str(t))
		}
		return v
	case "arrstruct", "[]arrstruct":
		one := func() *C09Val {
			fields := rapid.Permutation([]string{"A", "T", "Z"}).Draw(t, "afields")
			fields = fields[:rapid.IntRange(1, 3).Draw(t, "nafields")]
			v := &C09Val{K: "map", Keys: append([]string{}, fields...)}
			for _, f := range fields {
				switch f {
				case "A":
					v.Elems = append(v.Elems, genC09Int(t))
				case "Z":
					v.Elems = append(v.Elems, genC09Str(t))
				default:
					l := &C09Val{K: "list"}
					for i, n := 0, rapid.IntRange(0, 3).Draw(t, "tn"); i < n; i++ {
						l.Elems = append(l.Elems, genC09Str(t))
					}
					v.Elems = append(v.Elems, l)
				}
			}
			return v
		}
		if tmpl == "arrstruct" {
			return one()
		}
		v := &C09Val{K: "list"}
		for i, n := 0, rapid.IntRange(0, 3).Draw(t, "nstructs"); i < n; i++ {
			v.Elems = append(v.Elems, one())
		}
		return v
	case "struct":
		fields := rapid.Permutation([]string{"A", "B", "C", "D", "E"}).Draw(t, "fields")
		fields = fields[:rapid.IntRange(0, 5).Draw(t, "nfields")]
		v := &C09Val{K: "map", Keys: append([]string{}, fields...)}
		for _, f := range fields {
			switch f {
			case "A":
				v.Elems = append(v.Elems, genC09Int(t))
			case "B":
				v.Elems = append(v.Elems, genC09Str(t))
			case "C":
				v.Elems = append(v.Elems, ints(0, 6))
			case "D":
				v.Elems = append(v.Elems, intMap())
			default:
				v.Elems = append(v.Elems, &C09Val{K: "bytes", B: rapid.SliceOfN(rapid.Byte(), 0, 20).Draw(t, "bytes")})
			}
		}
		// keys that name no field, holding any tree (nested containers included): what the builder skips must
		// neither disturb the fields around it nor outlive the call - every cut inside the skipped value is
		// followed, in the same process, by the later cuts of the same document
		for i, n := 0, rapid.IntRange(0, 2).Draw(t, "nunknown"); i < n; i++ {
			at := rapid.IntRange(0, len(v.Keys)).Draw(t, "unknownAt")
			val := genC09Tree(t, rapid.IntRange(0, 1).Draw(t, "unknownDepth"))
			v.Keys = append(v.Keys[:at:at], append([]string{fmt.Sprintf("nofield%d", i)}, v.Keys[at:]...)...)
			v.Elems = append(v.Elems[:at:at], append([]*C09Val{val}, v.Elems[at:]...)...)
		}
		return v
	}
	if tmpl == "top-scalar" {
		// the whole document is one string / array / number (untyped destination): a cut inside it leaves
		// no enclosing container that could still report the truncation
		return genC09Leaf(t)
	}
	// untyped: any tree; the top level is a container (CTE) or anything (CBE)
	for {
		v := genC09Tree(t, 0)
		if isContainer(v.K) {
			return v
		}
	}
}

func c09Template(name string) interface{} {
	switch name {
	case "[]int64":
		return []int64{}
	case "map[string]int64":
		return map[string]int64{}
	case "[][]int64":
		return [][]int64{}
	case "[]string":
		return []string{}
	case "struct":
		return c09Struct{}
	case "[4]string":
		return [4]string{}
	case "arrstruct":
		return c09ArrStruct{}
	case "[]arrstruct":
		return []c09ArrStruct{}
	}
	return nil
}

// c09Encode plays the value into the library's encoder event by event and records byte offsets.
func c09Encode(v *C09Val, format string) ([]byte, error) {
	cfg := newCfg()
	var buf bytes.Buffer
	var enc ce.Encoder
	if format == "cbe" {
		enc = ce.NewCBEEncoder(cfg)
	} else {
		enc = ce.NewCTEEncoder(cfg)
	}
	enc.PrepareToEncode(&buf)
	rules := ce.NewRules(enc, cfg)
	send := func(e ev.Event) error {
		_, err := ev.Play([]ev.Event{e}, rules)
		return err
	}
	if err := send(ev.Event{K: ev.BD}); err != nil {
		return nil, err
	}
	if err := send(ev.Event{K: ev.Version}); err != nil {
		return nil, err
	}
	// record types: one per record name, fields taken from the first record of that name (records of the
	// same name generated later reuse those field names)
	recFields := map[string][]string{}
	var collect func(v *C09Val)
	collect = func(v *C09Val) {
		if v.K == "rec" {
			if f, ok := recFields[v.S]; ok {
				v.Keys = append([]string{}, f...)
			} else {
				recFields[v.S] = append([]string{}, v.Keys...)
			}
		}
		for _, e := range v.Elems {
			collect(e)
		}
	}
	collect(v)
	names := make([]string, 0, len(recFields))
	for n := range recFields {
		names = append(names, n)
	}
	sort.Strings(names)
	for _, n := range names {
		if err := send(ev.Event{K: ev.RecordType, Bs: []byte(n)}); err != nil {
			return nil, err
		}
		for _, f := range recFields[n] {
			if err := send(ev.Event{K: ev.StringArray, AT: events.ArrayTypeString, S: f}); err != nil {
				return nil, err
			}
		}
		if err := send(ev.Event{K: ev.End}); err != nil {
			return nil, err
		}
	}
	var walk func(v *C09Val) error
	walk = func(v *C09Val) error {
		v.start = buf.Len()
		var err error
		if v.M != "" {
			if err = send(ev.Event{K: ev.Marker, Bs: []byte(v.M)}); err != nil {
				return err
			}
		}
		switch v.K {
		case "int":
			err = send(ev.Event{K: ev.Int, I: v.I})
		case "str":
			err = send(ev.Event{K: ev.StringArray, AT: events.ArrayTypeString, S: v.S})
		case "bytes":
			err = send(ev.Event{K: ev.Array, AT: events.ArrayTypeUint8, U: uint64(len(v.B)), Bs: v.B})
		case "i16s":
			err = send(ev.Event{K: ev.Array, AT: events.ArrayTypeInt16, U: uint64(len(v.B) / 2), Bs: v.B})
		case "bool":
			err = send(ev.Event{K: ev.Boolean, B: v.I != 0})
		case "float":
			err = send(ev.Event{K: ev.Float, F: v.F})
		case "list":
			if err = send(ev.Event{K: ev.List}); err != nil {
				return err
			}
			for _, e := range v.Elems {
				if err = walk(e); err != nil {
					return err
				}
			}
			err = send(ev.Event{K: ev.End})
		case "rec":
			if err = send(ev.Event{K: ev.Record, Bs: []byte(v.S)}); err != nil {
				return err
			}
			v.keyEnds = make([]int, len(v.Elems))
			for i, e := range v.Elems {
				v.keyEnds[i] = buf.Len()
				if err = walk(e); err != nil {
					return err
				}
			}
			err = send(ev.Event{K: ev.End})
		case "map":
			if err = send(ev.Event{K: ev.Map}); err != nil {
				return err
			}
			v.keyEnds = make([]int, len(v.Elems))
			for i, e := range v.Elems {
				if err = send(ev.Event{K: ev.StringArray, AT: events.ArrayTypeString, S: v.Keys[i]}); err != nil {
					return err
				}
				v.keyEnds[i] = buf.Len()
				if err = walk(e); err != nil {
					return err
				}
			}
			err = send(ev.Event{K: ev.End})
		default:
			err = fmt.Errorf("harness: unknown kind %q", v.K)
		}
		v.end = buf.Len()
		return err
	}
	if err := walk(v); err != nil {
		return nil, err
	}
	if err := send(ev.Event{K: ev.ED}); err != nil {
		return nil, err
	}
	return buf.Bytes(), nil
}

func derefAll(v reflect.Value) reflect.Value {
	for v.IsValid() && (v.Kind() == reflect.Ptr || v.Kind() == reflect.Interface) {
		if v.IsNil() {
			return reflect.Value{}
		}
		v = v.Elem()
	}
	return v
}

func isAbsent(v reflect.Value) bool {
	v = derefAll(v)
	if !v.IsValid() {
		return true
	}
	switch v.Kind() {
	case reflect.Slice, reflect.Map:
		return v.Len() == 0
	}
	return v.IsZero()
}

// c09Sub checks the upper bound: everything in p comes from f. strict reports whether p is a strict
// prefix (something of f is missing in p).
func c09Sub(p, f reflect.Value, path string, inProgressScalarFree bool) (strict bool, err error) {
	p, f = derefAll(p), derefAll(f)
	if !p.IsValid() {
		return f.IsValid() && !isAbsent(f), nil
	}
	if !f.IsValid() {
		if isAbsent(p) {
			return false, nil
		}
		return false, fmt.Errorf("%s: partial result holds %v but the full value has nothing there", path, p)
	}
	scalar := func(v reflect.Value) bool {
		switch v.Kind() {
		case reflect.Slice, reflect.Array, reflect.Map, reflect.Struct:
			return false
		}
		return true
	}
	if inProgressScalarFree && scalar(p) && scalar(f) {
		// CTE: a scalar cut mid-token reads as a different, shorter scalar ("hello -> "h, 123 -> 12,
		// 0x1.8p+00 -> 0); the caller makes sure only the element in progress may differ
		if p.Kind() == f.Kind() && looseEq(p, f, 0) {
			return false, nil
		}
		return true, nil
	}
	if p.Kind() != f.Kind() {
		return false, fmt.Errorf("%s: partial result is a %v, the full value a %v", path, p.Type(), f.Type())
	}
	switch p.Kind() {
	case reflect.Slice, reflect.Array:
		if p.Kind() == reflect.Array {
			// a Go array has all its elements from the start: elements not decoded yet are zero
			incomplete := 0
			for i := 0; i < p.Len() && i < f.Len(); i++ {
				s, err := c09Sub(p.Index(i), f.Index(i), fmt.Sprintf("%s[%d]", path, i), inProgressScalarFree)
				if err != nil {
					return false, err
				}
				if s {
					incomplete++
				}
			}
			return incomplete > 0, nil
		}
		numericElem := false
		switch p.Type().Elem().Kind() {
		case reflect.Bool, reflect.Int, reflect.Int8, reflect.Int16, reflect.Int32, reflect.Int64, reflect.Uint, reflect.Uint8, reflect.Uint16, reflect.Uint32, reflect.Uint64,
			reflect.Float32, reflect.Float64:
			numericElem = true
		}
		if p.Kind() == reflect.Slice && numericElem {
			// typed numeric slices / byte slices
			if p.Len() > f.Len() {
				return false, fmt.Errorf("%s: partial result has %d elements, the full value %d", path, p.Len(), f.Len())
			}
			for i := 0; i < p.Len(); i++ {
				if !looseEq(p.Index(i), f.Index(i), 0) {
					if inProgressScalarFree && i == p.Len()-1 {
						return true, nil // CTE: the last element read was cut mid-token
					}
					return false, fmt.Errorf("%s[%d]: partial result holds %v, the full value %v", path, i, p.Index(i), f.Index(i))
				}
			}
			return p.Len() < f.Len(), nil
		}
		if p.Len() > f.Len() {
			return false, fmt.Errorf("%s: partial result has %d elements, the full value %d", path, p.Len(), f.Len())
		}
		strict = p.Len() < f.Len()
		for i := 0; i < p.Len(); i++ {
			s, err := c09Sub(p.Index(i), f.Index(i), fmt.Sprintf("%s[%d]", path, i), inProgressScalarFree)
			if err != nil {
				return false, err
			}
			if s {
				if i != p.Len()-1 {
					return false, fmt.Errorf("%s[%d]: an element that is not the last one of the partial result is incomplete", path, i)
				}
				strict = true
			}
		}
		return strict, nil
	case reflect.Map:
		incomplete := 0
		for _, k := range p.MapKeys() {
			fv := f.MapIndex(k)
			if !fv.IsValid() {
				return false, fmt.Errorf("%s: partial result has the key %v which the full value does not have", path, k)
			}
			s, err := c09Sub(p.MapIndex(k), fv, fmt.Sprintf("%s[%v]", path, k), inProgressScalarFree)
			if err != nil {
				return false, err
			}
			if s {
				incomplete++
			}
		}
		if incomplete > 1 {
			return false, fmt.Errorf("%s: %d entries of the partial result are incomplete (at most the one in progress may be)", path, incomplete)
		}
		return incomplete > 0 || p.Len() < f.Len(), nil
	case reflect.Struct:
		incomplete := 0
		for i := 0; i < p.NumField(); i++ {
			s, err := c09Sub(p.Field(i), f.Field(i), path+"."+p.Type().Field(i).Name, inProgressScalarFree)
			if err != nil {
				return false, err
			}
			if s {
				incomplete++
			}
		}
		return incomplete > 0, nil
	case reflect.String:
		if p.String() == f.String() {
			return false, nil
		}
		if p.Len() == 0 {
			return true, nil
		}
		return false, fmt.Errorf("%s: partial result holds %q, the full value %q", path, p.String(), f.String())
	}
	if looseEq(p, f, 0) {
		return false, nil
	}
	if p.IsZero() {
		return true, nil
	}
	if inProgressScalarFree {
		return true, nil // CTE: a number cut mid-token is a different, shorter number
	}
	return false, fmt.Errorf("%s: partial result holds %v, the full value %v", path, p, f)
}

// c09Lower checks the lower bound along the path of open containers: every child of node whose
// encoding ended before the cut must be present in p and equal to the corresponding part of f.
var c09Verified int64 // completed values found present and unchanged in partial results (evidence counter)

func c09Lower(node *C09Val, p, f reflect.Value, k int, strictEnd bool, path string) error {
	done := func(end int) bool {
		if strictEnd {
			return end < k
		}
		return end <= k
	}
	p, f = derefAll(p), derefAll(f)
	if done(node.end) {
		if !p.IsValid() && isAbsent(f) {
			return nil
		}
		if !p.IsValid() || !looseEq(p, f, 0) {
			if p.IsValid() && isAbsent(p) && isAbsent(f) {
				return nil
			}
			return fmt.Errorf("%s: this value was completely decoded (its encoding ends at byte %d) but the partial result does not hold it unchanged", path, node.end)
		}
		c09Verified++
		return nil
	}
	if !isContainer(node.K) {
		return nil // in-progress scalar / array: the upper bound is all that can be said
	}
	for i, child := range node.Elems {
		if !done(child.end) {
			// the child in progress (if it started at all): descend when both sides have it
			if child.start < k && isContainer(child.K) {
				cp, cf := c09Child(node, i, p), c09Child(node, i, f)
				if cp.IsValid() && cf.IsValid() {
					return c09Lower(child, cp, cf, k, strictEnd, c09ChildPath(node, i, path))
				}
			}
			return nil
		}
		cp, cf := c09Child(node, i, p), c09Child(node, i, f)
		if !cf.IsValid() {
			continue // the full value has nothing there (an unknown struct field would be a harness bug)
		}
		if err := c09Lower(child, cp, cf, k, strictEnd, c09ChildPath(node, i, path)); err != nil {
			return err
		}
	}
	return nil
}

func c09ChildPath(node *C09Val, i int, path string) string {
	if isMapLike(node.K) {
		return fmt.Sprintf("%s[%q]", path, node.Keys[i])
	}
	return fmt.Sprintf("%s[%d]", path, i)
}

func c09Child(node *C09Val, i int, v reflect.Value) reflect.Value {
	v = derefAll(v)
	if !v.IsValid() {
		return reflect.Value{}
	}
	switch v.Kind() {
	case reflect.Slice, reflect.Array:
		if node.K != "list" || i >= v.Len() {
			return reflect.Value{}
		}
		return v.Index(i)
	case reflect.Map:
		if !isMapLike(node.K) {
			return reflect.Value{}
		}
		key := reflect.ValueOf(node.Keys[i])
		if v.Type().Key().Kind() == reflect.Interface {
			k2 := reflect.New(v.Type().Key()).Elem()
			k2.Set(key)
			key = k2
		}
		return v.MapIndex(key)
	case reflect.Struct:
		if !isMapLike(node.K) {
			return reflect.Value{}
		}
		return v.FieldByName(node.Keys[i])
	}
	return reflect.Value{}
}

var c09Templates = []string{"nil", "nil", "nil", "nil", "top-scalar", "[]int64", "map[string]int64", "[][]int64", "[]string", "struct", "[4]string", "arrstruct", "[]arrstruct"}

func init() {
	Register(&Prop{
		ID:  "C09",
		New: func() interface{} { return &C09Case{} },
		Gen: func(t *rapid.T, ctx *Ctx) interface{} {
			c := &C09Case{Format: rapid.SampledFrom([]string{"cbe", "cbe", "cte"}).Draw(t, "format"), Tmpl: rapid.SampledFrom(c09Templates).Draw(t, "template")}
			if c.Tmpl == "top-scalar" {
				c.Format = "cbe" // a prefix of a CTE number or string token is a shorter token: nothing can be demanded there
			}
			c.Doc = genC09Doc(t, c.Tmpl)
			// markers on some values (not on the top-level one); the cut may then fall between a marker and
			// the value it marks
			n := 0
			var mark func(v *C09Val, top bool)
			mark = func(v *C09Val, top bool) {
				if !top && rapid.IntRange(0, 7).Draw(t, "marker") == 0 {
					n++
					v.M = fmt.Sprintf("m%d", n)
				}
				for _, e := range v.Elems {
					mark(e, false)
				}
			}
			mark(c.Doc, true)
			return c
		},
		Check: func(ci interface{}, ctx *Ctx) error {
			c := ci.(*C09Case)
			cfg := newCfg()
			doc, err := c09Encode(c.Doc, c.Format)
			if err != nil {
				return fmt.Errorf("harness: the generated document does not encode: %v", err)
			}
			if c.Doc.end > len(doc) || c.Doc.end == 0 {
				return fmt.Errorf("harness: offsets out of range (%d of %d)", c.Doc.end, len(doc))
			}
			ctx.Label("format:" + c.Format)
			ctx.Label("template:" + c.Tmpl)
			full, ferr, bad := unmarshalDoc(ctx, c.Format, doc, c09Template(c.Tmpl), cfg)
			if bad != nil {
				return fmt.Errorf("full document: %v\ndoc=%s", bad, docdump(c.Format, doc))
			}
			if ferr != nil {
				return fmt.Errorf("the full document does not unmarshal into %s: %v\ndoc=%s", c.Tmpl, ferr, docdump(c.Format, doc))
			}
			fv := reflect.ValueOf(full)
			cuts := 0
			nontrivial := false
			lo, hi := 1, len(doc)-1
			if c.Cut > 0 {
				lo, hi = c.Cut, c.Cut
			}
			// CBE: the document ends with its top-level value; CTE: the encoder may add nothing after it either
			for k := lo; k <= hi && k < len(doc); k++ {
				if k >= c.Doc.end {
					continue // the top-level value is complete: only trailing bytes (none for CBE) are cut
				}
				cuts++
				part, perr, bad := unmarshalDoc(ctx, c.Format, append([]byte{}, doc[:k]...), c09Template(c.Tmpl), cfg)
				where := fmt.Sprintf("cut at byte %d of %d (template %s)\nfull=%s\ncut =%s", k, len(doc), c.Tmpl, docdump(c.Format, doc), docdump(c.Format, doc[:k]))
				if bad != nil {
					return fmt.Errorf("%v\n%s", bad, where)
				}
				if perr == nil {
					return fmt.Errorf("a truncated document was unmarshaled without an error\n%s", where)
				}
				pv := reflect.ValueOf(part)
				if _, err := c09Sub(pv, fv, "$", c.Format == "cte"); err != nil {
					return fmt.Errorf("the partial result is not a prefix of the full value: %v\n%s", err, where)
				}
				if err := c09Lower(c.Doc, pv, fv, k, c.Format == "cte", "$"); err != nil {
					return fmt.Errorf("the partial result lost a completely decoded element: %v\n%s", err, where)
				}
				if isContainer(c.Doc.K) && len(c.Doc.Elems) > 0 && c.Doc.Elems[0].end < k {
					nontrivial = true
				}
			}
			ctx.NonTrivial(nontrivial)
			ctx.Stats.Count("cut_points_executed", int64(cuts))
			ctx.Stats.Count("completed_values_found_unchanged_in_partial_results", c09Verified)
			c09Verified = 0
			return nil
		},
	})
}

var _ = sort.Strings
