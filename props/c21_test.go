package props

import (
	"math/big"

	"fmt"
	compact_time "github.com/kstenerud/go-compact-time"
	"reflect"
	"strings"
	"unicode"
	"unicode/utf8"

	"github.com/kstenerud/go-concise-encoding/builder"
	"github.com/kstenerud/go-concise-encoding/ce"
	"github.com/kstenerud/go-concise-encoding/ce/events"
	"github.com/kstenerud/go-concise-encoding/configuration"
	"github.com/kstenerud/go-concise-encoding/iterator"
	"pgregory.net/rapid"

	"verif/internal/canon"
	"verif/internal/ev"
	"verif/internal/gen"
)

// C21 — struct fields follow their tags and the naming configuration.
// Marshal side: the emitted (name, value) sequence equals M-FIELDS. Unmarshal side: a document built
// from the marshaler's entries — permuted, with unknown keys added and (case-insensitive mode) keys
// re-cased / underscores moved — must give the value with the kept fields set and all others zero.

type C21Extra struct {
	Pos  int    `json:"pos"`
	Key  string `json:"key"`
	Kind string `json:"kind"` // int | list | map | string | nested | ref | marked | node | edge | null | media
	// KeyKind: "" = the string Key; otherwise a key that is not a string and so can name no field:
	// int | negint | bool | uid | rid | time | bigint (distinct per extra through its index)
	KeyKind string `json:"key_kind,omitempty"`
}

type C21Case struct {
	Format          string        `json:"format"`
	Type            *gen.TypeSpec `json:"type"`
	Val             *gen.Val      `json:"val"`
	Omit            string        `json:"omit"`
	Camel           bool          `json:"camel"`
	CaseInsensitive bool          `json:"case_insensitive"`
	Perm            []int         `json:"perm"`
	Extras          []C21Extra    `json:"extras"`
	// NearMiss (case-sensitive matching only): for each entry, the index of an existing key whose upper-cased
	// spelling is added as one more key at the end of the document; it names no field and must be skipped
	NearMiss []int `json:"near_miss,omitempty"`
	Recase   []int `json:"recase"` // per kept entry: 0 none, 1 upper, 2 lower, 3 mixed, 4 add underscores, 5 drop underscores
}

var c21Names = []string{"Name", "FirstName", "ID", "UserID", "HTTPServer", "Count", "Value", "Data", "Flag", "Items", "Inner", "A", "B",
	// non-ASCII upper-case initials (single hump: the snake-case form is simply the lower-case form)
	"Überschrift", "Ärger", "Ñandu", "Éclair"}
var c21Awkward = []string{"A1B", "X_y", "Go2Go", "V2", "Under_Score"}
var c21Digits = []string{"Sha256Sum", "Field2Name", "X9Y", "Base64Data", "A1B", "Go2Go", "V2", "Utf8"}
var c21TagNames = []string{"alpha", "beta_gamma", "Delta", "epsilonZeta", "eta9", "THETA"}
var c21FieldTypes = []*gen.TypeSpec{{K: "int"}, {K: "string"}, {K: "bool"}, {K: "slice", Elem: &gen.TypeSpec{K: "uint8"}}, {K: "float64"}, {K: "uint16"},
	{K: "ptr", Elem: &gen.TypeSpec{K: "int16"}}, {K: "slice", Elem: &gen.TypeSpec{K: "string"}}, {K: "map", Key: &gen.TypeSpec{K: "string"}, Elem: &gen.TypeSpec{K: "int"}},
	{K: "iface"}, {K: "array", Elem: &gen.TypeSpec{K: "int32"}, Len: 2}}

func identOf(name string) string {
	return strings.ReplaceAll(strings.ReplaceAll(strings.ToLower(name), "_", ""), " ", "")
}

func genC21Struct(t *rapid.T, camel bool, depth int, used map[string]bool) *gen.TypeSpec {
	s := &gen.TypeSpec{K: "struct"}
	n := rapid.IntRange(1, 7).Draw(t, "nfields")
	for i := 0; i < n; i++ {
		pool := c21Names
		if camel && rapid.IntRange(0, 3).Draw(t, "awk") == 0 {
			pool = c21Awkward
		}
		if rapid.IntRange(0, 5).Draw(t, "digits") == 0 {
			pool = c21Digits // a digit directly in front of a capital letter is a word boundary too (both styles)
		}
		name := pool[rapid.IntRange(0, len(pool)-1).Draw(t, "fname")]
		if used[identOf(name)] {
			continue
		}
		f := gen.FieldSpec{Name: name}
		// embedded named struct
		if depth == 0 && rapid.IntRange(0, 7).Draw(t, "emb") == 0 && !used["embint"] {
			used["embint"], used["embname"] = true, true
			s.Fields = append(s.Fields, gen.FieldSpec{Name: "EmbA", Embedded: true, Type: embASpec()})
			continue
		}
		// an embedded struct whose own fields carry omit tags
		if depth == 0 && rapid.IntRange(0, 7).Draw(t, "embt") == 0 && !used["embkept"] {
			for _, n := range []string{"embkept", "embnz", "embne", "embplain"} {
				used[n] = true
			}
			s.Fields = append(s.Fields, gen.FieldSpec{Name: "EmbT", Embedded: true, Type: gen.NamedSpec("EmbT")})
			continue
		}
		// two / three levels of embedding (Emb1 embeds Emb2 embeds Emb3)
		if depth == 0 && rapid.IntRange(0, 7).Draw(t, "emb3") == 0 && !used["embp"] {
			for _, n := range []string{"embp", "embq", "embr", "embm", "embn"} {
				used[n] = true
			}
			en := rapid.SampledFrom([]string{"Emb1", "Emb1", "Emb2"}).Draw(t, "embdeep")
			s.Fields = append(s.Fields, gen.FieldSpec{Name: en, Embedded: true, Type: gen.NamedSpec(en)})
			continue
		}
		if depth == 0 && rapid.IntRange(0, 6).Draw(t, "nested") == 0 {
			f.Type = genC21Struct(t, camel, depth+1, map[string]bool{})
		} else {
			f.Type = c21FieldTypes[rapid.IntRange(0, len(c21FieldTypes)-1).Draw(t, "ftype")]
		}
		var tags []string
		effective := name
		if rapid.IntRange(0, 3).Draw(t, "tagname") == 0 {
			tn := c21TagNames[rapid.IntRange(0, len(c21TagNames)-1).Draw(t, "tn")]
			if !used[identOf(tn)] {
				tags = append(tags, "name="+tn)
				effective = tn
			}
		}
		if used[identOf(effective)] {
			continue
		}
		used[identOf(effective)] = true
		used[identOf(name)] = true
		switch rapid.IntRange(0, 9).Draw(t, "tagomit") {
		case 0:
			tags = append(tags, "omit")
		case 1:
			tags = append(tags, "omit_empty")
		case 2:
			tags = append(tags, "omit_zero")
		case 3:
			tags = append(tags, "omit_never")
		}
		if rapid.IntRange(0, 2).Draw(t, "tagorder") == 0 {
			tags = append(tags, fmt.Sprintf("order=%d", rapid.IntRange(-2, 5).Draw(t, "order")))
		}
		if len(tags) > 0 {
			f.Tag = `ce:"` + strings.Join(tags, ",") + `"`
		}
		s.Fields = append(s.Fields, f)
	}
	if len(s.Fields) == 0 {
		s.Fields = append(s.Fields, gen.FieldSpec{Name: "Only", Type: &gen.TypeSpec{K: "int"}})
	}
	return s
}

func embASpec() *gen.TypeSpec {
	return &gen.TypeSpec{K: "struct", Named: "EmbA", Fields: []gen.FieldSpec{{Name: "EmbInt", Type: &gen.TypeSpec{K: "int"}}, {Name: "EmbName", Type: &gen.TypeSpec{K: "string"}}}}
}

func recaseKey(key string, mode int) string {
	switch mode {
	case 1:
		return strings.ToUpper(key)
	case 2:
		return strings.ToLower(key)
	case 3:
		rs := []rune(key)
		for i := range rs {
			if i%2 == 0 {
				rs[i] = unicode.ToUpper(rs[i])
			} else {
				rs[i] = unicode.ToLower(rs[i])
			}
		}
		return string(rs)
	case 4:
		var sb strings.Builder
		for i, r := range key {
			if i > 0 && i%2 == 0 && utf8.RuneStart(key[i]) {
				sb.WriteByte('_')
			}
			sb.WriteRune(r)
		}
		return sb.String()
	case 5:
		return strings.ReplaceAll(key, "_", "")
	}
	return key
}

// zeroOmitted returns the value the unmarshaled struct must equal: omitted fields zero.
func zeroVal(s *gen.TypeSpec) *gen.Val {
	switch s.K {
	case "ptr", "slice", "map":
		return &gen.Val{Nil: true}
	case "array":
		v := &gen.Val{}
		for i := 0; i < s.Len; i++ {
			v.Elems = append(v.Elems, zeroVal(s.Elem))
		}
		return v
	case "struct":
		v := &gen.Val{}
		for _, f := range s.Fields {
			v.Elems = append(v.Elems, zeroVal(f.Type))
		}
		return v
	}
	return &gen.Val{}
}

func (m *iterModel) zeroOmitted(s *gen.TypeSpec, v *gen.Val) *gen.Val {
	if s.K != "struct" {
		return v
	}
	out := &gen.Val{}
	for i, f := range s.Fields {
		fv := v.Elems[i]
		t := parseTag(f)
		switch {
		case t.omit == "always":
			out.Elems = append(out.Elems, zeroVal(f.Type))
		case f.Embedded:
			out.Elems = append(out.Elems, m.zeroOmitted(f.Type, fv))
		case !m.keep(flatField{t, f.Type, fv}):
			out.Elems = append(out.Elems, zeroVal(f.Type))
		default:
			out.Elems = append(out.Elems, m.zeroOmitted(f.Type, fv))
		}
	}
	return out
}

type c21Entry struct {
	key   ev.Event
	value []ev.Event
}

// splitTopMap splits "bd v m (key value)* e ed" into entries.
func splitTopMap(evs []ev.Event) ([]c21Entry, error) {
	if len(evs) < 5 || evs[2].K != ev.Map {
		return nil, fmt.Errorf("not a top-level map: %s", ev.ListString(evs))
	}
	var out []c21Entry
	i := 3
	for i < len(evs)-2 {
		k := evs[i]
		i++
		depth := 0
		start := i
		for {
			e := evs[i]
			i++
			switch e.K {
			case ev.List, ev.Map, ev.Node, ev.Edge, ev.Record:
				depth++
			case ev.End:
				depth--
			}
			if depth == 0 {
				break
			}
		}
		out = append(out, c21Entry{k, evs[start:i]})
	}
	return out, nil
}

func (c *C21Case) config() (*configuration.Configuration, *iterModel) {
	cfg := newCfg()
	m := &iterModel{Snake: !c.Camel, DefaultOmit: c.Omit, RecordNames: map[string]string{}}
	if c.Camel {
		cfg.Iterator.FieldNameStyle = configuration.FieldNameCamelCase
	}
	switch c.Omit {
	case "never":
		cfg.Iterator.DefaultFieldOmitBehavior = configuration.OmitFieldNever
	case "zero":
		cfg.Iterator.DefaultFieldOmitBehavior = configuration.OmitFieldZero
	case "empty":
		cfg.Iterator.DefaultFieldOmitBehavior = configuration.OmitFieldEmpty
	case "always":
		// untagged fields are omitted; fields with their own omit_never / omit_empty / omit_zero tag
		// follow their tag, also when they are promoted from an untagged embedded struct
		cfg.Iterator.DefaultFieldOmitBehavior = configuration.OmitFieldAlways
	default:
		cfg.Iterator.DefaultFieldOmitBehavior = configuration.OmitFieldChooseDefault
		m.DefaultOmit = "never" // "choose default" with no further default: nothing is omitted by the configuration
	}
	cfg.Builder.CaseInsensitiveStructFieldNames = c.CaseInsensitive
	return cfg, m
}

func init() {
	Register(&Prop{
		ID:  "C21",
		New: func() interface{} { return &C21Case{} },
		Gen: func(t *rapid.T, ctx *Ctx) interface{} {
			c := &C21Case{Format: rapid.SampledFrom([]string{"cbe", "cte"}).Draw(t, "format")}
			c.Camel = rapid.Bool().Draw(t, "camel")
			c.Omit = rapid.SampledFrom([]string{"empty", "never", "zero", "empty", "always"}).Draw(t, "omit")
			c.CaseInsensitive = rapid.Bool().Draw(t, "ci")
			if !c.Camel && !c.CaseInsensitive && findingOpen("S29-snake-case-names-not-matched") {
				ctx.Stats.Exclude("S29-snake-case-names-not-matched")
				c.CaseInsensitive = true
			}
			c.Type = genC21Struct(t, c.Camel, 0, map[string]bool{})
			o := valOpts(ctx)
			o.NoNaN = true
			avoidVal(o, "S48-null-into-map")
			c.Val = gen.GenVal(t, o, c.Type, 0)
			n := 12
			for i := 0; i < n; i++ {
				c.Perm = append(c.Perm, rapid.IntRange(0, 1000).Draw(t, "perm"))
				mode := 0
				if c.CaseInsensitive {
					mode = rapid.IntRange(0, 5).Draw(t, "recase")
				}
				c.Recase = append(c.Recase, mode)
			}
			for i, k := 0, rapid.IntRange(0, 2).Draw(t, "nextras"); i < k; i++ {
				x := C21Extra{Pos: rapid.IntRange(0, 8).Draw(t, "xpos"), Key: fmt.Sprintf("zz_unknown_%d", i),
					Kind: rapid.SampledFrom([]string{"int", "list", "map", "string", "nested", "ref", "marked", "node", "null", "media"}).Draw(t, "xkind")} // no edge values: no builder consumes an edge's end event (open C04 finding)
				if rapid.IntRange(0, 2).Draw(t, "xnonstring") == 0 {
					x.KeyKind = rapid.SampledFrom([]string{"int", "negint", "bool", "uid", "rid", "time", "bigint"}).Draw(t, "xkeykind")
					if x.KeyKind == "bool" && i > 0 {
						x.KeyKind = "int" // at most one boolean key (true) per document
					}
				}
				c.Extras = append(c.Extras, x)
			}
			if !c.CaseInsensitive {
				for i, k := 0, rapid.IntRange(0, 2).Draw(t, "nnearmiss"); i < k; i++ {
					c.NearMiss = append(c.NearMiss, rapid.IntRange(0, 40).Draw(t, "nearmiss"))
				}
			}
			return c
		},
		Check: func(ci interface{}, ctx *Ctx) error {
			c := ci.(*C21Case)
			cfg, m := c.config()
			hasTag, hasEmb := false, false
			for _, f := range c.Type.Fields {
				if f.Tag != "" {
					hasTag = true
				}
				if f.Embedded {
					hasEmb = true
				}
			}
			ctx.NonTrivial(hasTag || hasEmb || len(c.Extras) > 0)
			ctx.LabelIf(hasTag, "tagged")
			ctx.LabelIf(hasEmb, "embedded")
			ctx.LabelIf(len(c.Extras) > 0, "unknown-keys")
			for _, x := range c.Extras {
				ctx.LabelIf(x.KeyKind != "", "unknown key that is not a string")
			}
			ctx.LabelIf(c.CaseInsensitive, "case-insensitive")
			ctx.LabelIf(c.Camel, "camel")
			ctx.Label("omit:" + c.Omit)
			value := gen.Build(c.Type, c.Val).Interface()
			// ---- marshal side
			rec := ev.NewRecorder()
			o := ctx.Guard(func() { iterator.NewSession(nil, cfg).NewIterator(ce.NewRules(rec, cfg)).Iterate(value) })
			if o.TimedOut || o.Panic != nil {
				return fmt.Errorf("marshal: %v\nevents so far: %s", o, ev.ListString(rec.Events))
			}
			got, err := buildTree(rec.Events, canon.Opts{})
			if err != nil {
				return fmt.Errorf("marshaler events malformed: %v", err)
			}
			want := &canon.Node{Kind: canon.KDoc, Children: []*canon.Node{m.tree(c.Type, c.Val)}}
			normalizeUnordered(want, got)
			if d := canon.Diff(want, got, canon.EqOpts{}); d != "" {
				return fmt.Errorf("marshal side: fields do not follow tags/naming: %s\nevents: %s\ntype=%v", d, ev.ListString(rec.Events), c.Type)
			}
			// ---- unmarshal side
			entries, err := splitTopMap(rec.Events)
			if err != nil {
				return err
			}
			// permute (stable sort by drawn keys), recase, add extras
			idx := make([]int, len(entries))
			for i := range idx {
				idx[i] = i
			}
			for i := 1; i < len(idx); i++ {
				for j := i; j > 0 && c.Perm[idx[j]%len(c.Perm)] < c.Perm[idx[j-1]%len(c.Perm)]; j-- {
					idx[j], idx[j-1] = idx[j-1], idx[j]
				}
			}
			doc := []ev.Event{{K: ev.BD}, {K: ev.Version}, {K: ev.Map}}
			extraAt := map[int][]C21Extra{}
			for _, x := range c.Extras {
				p := x.Pos
				if p > len(entries) {
					p = len(entries)
				}
				extraAt[p] = append(extraAt[p], x)
			}
			emitExtra := func(x C21Extra) {
				n := int64(len(doc)) // makes every non-string key distinct
				switch x.KeyKind {
				case "int":
					doc = append(doc, ev.Event{K: ev.Int, I: 1000 + n})
				case "negint":
					doc = append(doc, ev.Event{K: ev.Int, I: -1000 - n})
				case "bool":
					doc = append(doc, ev.Event{K: ev.True})
				case "uid":
					doc = append(doc, ev.Event{K: ev.UID, Bs: []byte{byte(n), 1, 2, 3, 4, 5, 6, 7, 8, 9, 10, 11, 12, 13, 14, 15}})
				case "rid":
					doc = append(doc, ev.Event{K: ev.Array, AT: events.ArrayTypeResourceID, U: uint64(len(x.Key)), Bs: []byte(x.Key)})
				case "time":
					doc = append(doc, ev.Event{K: ev.Time, T: compact_time.NewDate(2000+int(n), 1, 2)})
				case "bigint":
					doc = append(doc, ev.Event{K: ev.BigInt, Big: new(big.Int).Lsh(big.NewInt(1+n), 70)})
				default:
					doc = append(doc, ev.Event{K: ev.StringArray, AT: events.ArrayTypeString, S: x.Key})
				}
				switch x.Kind {
				case "int":
					doc = append(doc, ev.Event{K: ev.Int, I: 42})
				case "string":
					doc = append(doc, ev.Event{K: ev.StringArray, AT: events.ArrayTypeString, S: "ignored"})
				case "list":
					doc = append(doc, ev.Event{K: ev.List}, ev.Event{K: ev.Int, I: 1}, ev.Event{K: ev.Int, I: 2}, ev.Event{K: ev.End})
				case "map":
					doc = append(doc, ev.Event{K: ev.Map}, ev.Event{K: ev.StringArray, AT: events.ArrayTypeString, S: "k"}, ev.Event{K: ev.Null}, ev.Event{K: ev.End})
				case "ref":
					// two unknown keys: a marked value, then a reference to it
					id := fmt.Sprintf("zzm%d", n)
					doc = append(doc, ev.Event{K: ev.Marker, Bs: []byte(id)}, ev.Event{K: ev.StringArray, AT: events.ArrayTypeString, S: "ignored"},
						ev.Event{K: ev.StringArray, AT: events.ArrayTypeString, S: x.Key + "_r"}, ev.Event{K: ev.RefLocal, Bs: []byte(id)})
				case "marked":
					doc = append(doc, ev.Event{K: ev.Marker, Bs: []byte(fmt.Sprintf("zzm%d", n))}, ev.Event{K: ev.List}, ev.Event{K: ev.Int, I: 1}, ev.Event{K: ev.End})
				case "node":
					doc = append(doc, ev.Event{K: ev.Node}, ev.Event{K: ev.Int, I: 1}, ev.Event{K: ev.Node}, ev.Event{K: ev.Int, I: 2}, ev.Event{K: ev.End}, ev.Event{K: ev.Int, I: 3}, ev.Event{K: ev.End})
				case "edge":
					doc = append(doc, ev.Event{K: ev.Edge}, ev.Event{K: ev.Int, I: 1}, ev.Event{K: ev.Int, I: 2}, ev.Event{K: ev.Int, I: 3}, ev.Event{K: ev.End})
				case "null":
					doc = append(doc, ev.Event{K: ev.Null})
				case "media":
					doc = append(doc, ev.Event{K: ev.Media, S: "a/b", Bs: []byte{1, 2, 3}})
				default:
					doc = append(doc, ev.Event{K: ev.List}, ev.Event{K: ev.Map}, ev.Event{K: ev.Int, I: 1}, ev.Event{K: ev.List}, ev.Event{K: ev.End}, ev.Event{K: ev.End}, ev.Event{K: ev.Array, AT: events.ArrayTypeUint8, U: 2, Bs: []byte{1, 2}}, ev.Event{K: ev.End})
				}
			}
			for pos, i := range idx {
				for _, x := range extraAt[pos] {
					emitExtra(x)
				}
				e := entries[i]
				key := e.key
				name := key.S
				if key.K == ev.Array {
					name = string(key.Bs)
				}
				mode := c.Recase[i%len(c.Recase)]
				key = ev.Event{K: ev.StringArray, AT: events.ArrayTypeString, S: recaseKey(name, mode)}
				doc = append(doc, key)
				doc = append(doc, e.value...)
			}
			for _, x := range extraAt[len(entries)] {
				emitExtra(x)
			}
			// near-miss keys (case-sensitive matching): an existing key in upper case is a different key; it
			// comes after the real one, so a builder that wrongly matches it overwrites the field (or fails on
			// the value's type)
			if !c.CaseInsensitive && len(entries) > 0 {
				known := map[string]bool{}
				var names func(s *gen.TypeSpec)
				names = func(s *gen.TypeSpec) {
					if s == nil {
						return
					}
					for _, f := range s.Fields {
						known[f.Name] = true
						known[strings.ToLower(strings.ReplaceAll(f.Name, "_", ""))] = true
						if t := parseTag(f); t.name != "" {
							known[t.name] = true
							known[strings.ToLower(strings.ReplaceAll(t.name, "_", ""))] = true
						}
						if f.Embedded {
							names(f.Type)
						}
					}
				}
				names(c.Type)
				used := map[string]bool{}
				for _, e := range entries {
					k := e.key.S
					if e.key.K == ev.Array {
						k = string(e.key.Bs)
					}
					known[k] = true
				}
				for _, nm := range c.NearMiss {
					e := entries[nm%len(entries)]
					k := e.key.S
					if e.key.K == ev.Array {
						k = string(e.key.Bs)
					}
					up := strings.ToUpper(k)
					if known[up] || used[up] {
						continue
					}
					used[up] = true
					ctx.Label("near-miss key in case-sensitive mode")
					doc = append(doc, ev.Event{K: ev.StringArray, AT: events.ArrayTypeString, S: up}, ev.Event{K: ev.Int, I: 77})
				}
			}
			doc = append(doc, ev.Event{K: ev.End}, ev.Event{K: ev.ED})
			var bytesDoc []byte
			var eidx int
			var eerr error
			if c.Format == "cbe" {
				bytesDoc, eidx, eerr = encodeCBE(doc, cfg)
			} else {
				bytesDoc, eidx, eerr = encodeCTE(doc, cfg)
			}
			if eidx >= 0 {
				return fmt.Errorf("harness: cannot encode the test document at event %d: %v\n%s", eidx, eerr, ev.ListString(doc))
			}
			template := reflect.Zero(c.Type.Realize()).Interface()
			res, uerr, bad := unmarshalDoc(ctx, c.Format, bytesDoc, template, cfg)
			if bad != nil {
				return bad
			}
			if uerr != nil {
				return fmt.Errorf("unmarshal side: error %v\ndoc=%s\ntype=%v", uerr, docdump(c.Format, bytesDoc), c.Type)
			}
			rv := reflect.ValueOf(res)
			if rv.Kind() == reflect.Ptr && !rv.IsNil() {
				rv = rv.Elem()
			}
			expect := m.zeroOmitted(c.Type, c.Val)
			if err := gen.Check(rv, c.Type, expect, gen.EqMode{BigFloatTol: true}, "$"); err != nil {
				return fmt.Errorf("unmarshal side: %v\ndoc=%s\ntype=%v", err, docdump(c.Format, bytesDoc), c.Type)
			}
			// event route: the same events played through the validator straight into a builder (what an
			// iterator or any other event source does): string keys arrive as string events here, while both
			// decoders deliver them as byte arrays
			var built interface{}
			var perr error
			pidx := -1
			po := ctx.Guard(func() {
				b := builder.NewSession(nil, cfg).NewBuilderFor(template)
				if pidx, perr = ev.Play(doc, ce.NewRules(b, cfg)); pidx < 0 {
					built = b.GetBuiltObject()
				}
			})
			if po.TimedOut || po.Panic != nil {
				return fmt.Errorf("unmarshal side, event route: %v\n%s", po, ev.ListString(doc))
			}
			if pidx >= 0 {
				return fmt.Errorf("unmarshal side, event route: event %d rejected: %v\n%s\ntype=%v", pidx, perr, ev.ListString(doc), c.Type)
			}
			bv := reflect.ValueOf(built)
			if bv.Kind() == reflect.Ptr && !bv.IsNil() {
				bv = bv.Elem()
			}
			if err := gen.Check(bv, c.Type, expect, gen.EqMode{}, "$"); err != nil {
				return fmt.Errorf("unmarshal side, event route (events played into a builder): %v\n%s\ntype=%v", err, ev.ListString(doc), c.Type)
			}
			return nil
		},
	})
}
