package props

import (
	"fmt"
	"reflect"

	"github.com/kstenerud/go-concise-encoding/ce/events"
	"github.com/kstenerud/go-concise-encoding/configuration"
	"pgregory.net/rapid"

	"verif/internal/canon"
	"verif/internal/ev"
	"verif/internal/gen"
)

// C06 — any valid document unmarshals into an untyped value, and marshaling that value gives a
// document with the same data (records as maps, references resolved, comments dropped).

type CustomBin struct {
	Code uint64
	Data []byte
}
type CustomTxt struct {
	Code uint64
	Data string
}

type C06Case struct {
	Format string     `json:"format"`
	Events []ev.Event `json:"events"`
}

func c06Config() *configuration.Configuration {
	cfg := newCfg()
	cfg.Builder.CustomBinaryBuildFunction = func(customType uint64, src []byte, dst reflect.Value) error {
		dst.Set(reflect.ValueOf(CustomBin{Code: customType, Data: append([]byte{}, src...)}))
		return nil
	}
	cfg.Builder.CustomTextBuildFunction = func(customType uint64, src string, dst reflect.Value) error {
		dst.Set(reflect.ValueOf(CustomTxt{Code: customType, Data: src}))
		return nil
	}
	cfg.Iterator.CustomBinaryConverters[reflect.TypeOf(CustomBin{})] = func(v reflect.Value) (uint64, []byte, error) {
		c := v.Interface().(CustomBin)
		return c.Code, c.Data, nil
	}
	cfg.Iterator.CustomTextConverters[reflect.TypeOf(CustomTxt{})] = func(v reflect.Value) (uint64, []byte, error) {
		c := v.Interface().(CustomTxt)
		return c.Code, []byte(c.Data), nil
	}
	return cfg
}

func c06Opts(ctx *Ctx, format string) gen.EvOpts {
	o := gen.EvOpts{Comments: true, Padding: true, CustomBinary: true, CustomText: format == "cte", Media: true, Markers: true, Records: true, RemoteRef: true,
		FullUnicode: true, Chunked: true, MidCharSplit: true, URLRID: true, MaxDepth: 4, MaxArr: 40, Budget: 25}
	if ctx.Thorough() {
		o.MaxArr, o.Budget = 400, 80
	}
	avoid(ctx, &o, "S59-marked-node-value", "S35-key-reference", "S34-reference-in-node")
	if findingOpen("S26-untyped-array-kinds-todo") {
		ctx.Stats.Exclude("S26-untyped-array-kinds-todo")
		o.NoBitArray, o.NoUIDArray, o.RemoteRef = true, true, false
	}
	o.NoEdge = findingOpen("S4-edge-iterator-no-end")
	if o.NoEdge {
		ctx.Stats.Exclude("S4-edge-iterator-no-end")
	}
	return o
}

// c06Expected transforms the original tree into what the re-marshaled untyped value must describe.
func c06Expected(orig *canon.Node) (*canon.Node, bool) {
	t := canon.RecordsToMaps(orig)
	t, ok := canon.ResolveRefs(t, 200)
	canon.Walk(t, func(n *canon.Node) {
		if n.Kind == canon.KArray && n.AT == events.ArrayTypeReferenceRemote {
			n.AT = events.ArrayTypeResourceID // a remote reference is built as a URL, which marshals as a resource ID
		}
		if n.Kind == canon.KArray && n.AT == events.ArrayTypeFloat16 {
			// Go has no 16-bit float: the elements come back as float32 with the same values
			n.AT = events.ArrayTypeFloat32
			wide := make([]byte, 0, len(n.Bytes)*2)
			for i := 0; i+1 < len(n.Bytes); i += 2 {
				wide = append(wide, 0, 0, n.Bytes[i], n.Bytes[i+1])
			}
			n.Bytes = wide
		}
	})
	return t, ok
}

func sortAllMaps(n *canon.Node) {
	for _, c := range n.Children {
		sortAllMaps(c)
	}
	canon.SortMapPairs(n)
}

func init() {
	Register(&Prop{
		ID:  "C06",
		New: func() interface{} { return &C06Case{} },
		Gen: func(t *rapid.T, ctx *Ctx) interface{} {
			gen.NoUTCOffsetZones = func() bool {
				if findingOpen("S28-fixed-zone-offset-lost") {
					ctx.Stats.Exclude("S28-fixed-zone-offset-lost")
					return true
				}
				return false
			}
			gen.StrictCalendar = true
			defer func() { gen.NoUTCOffsetZones, gen.StrictCalendar = nil, false }()
			c := &C06Case{Format: rapid.SampledFrom([]string{"cbe", "cte"}).Draw(t, "format")}
			c.Events = gen.Document(t, c06Opts(ctx, c.Format))
			return c
		},
		Fixed: func(ctx *Ctx, report func(c interface{}, err error)) {
			// the boundary sweep shared with C01-C03, through the untyped unmarshal and back (bit arrays: S26;
			// UTC-offset zones: S28; second 60 does not exist in a time.Time; CBE has no custom text)
			for _, format := range []string{"cbe", "cte"} {
				format := format
				sweepEventCases(ctx, report, func(ci interface{}, ctx *Ctx) error {
					return c06Check(&C06Case{Format: format, Events: ci.(*EvCase).Events}, ctx)
				}, "bit-array", "time/utc-offset", "time/nanoseconds", "custom-text-type-code")
			}
		},
		Check: c06Check,
	})
}

func c06Check(ci interface{}, ctx *Ctx) error {
	{
		{
			c := ci.(*C06Case)
			cfg := c06Config()
			if idx, err := rulesAccept(c.Events, cfg); idx >= 0 {
				return genInvalid(ctx, idx, err, c.Events)
			}
			ctx.NonTrivial(features(ctx, c.Events))
			ctx.Label("format:" + c.Format)
			var doc []byte
			var idx int
			var err error
			if c.Format == "cbe" {
				doc, idx, err = encodeCBE(c.Events, cfg)
			} else {
				doc, idx, err = encodeCTE(c.Events, cfg)
			}
			if idx >= 0 {
				return fmt.Errorf("encoder failed at event %d: %v", idx, err)
			}
			res, uerr, bad := unmarshalDoc(ctx, c.Format, doc, nil, cfg)
			if bad != nil {
				return fmt.Errorf("%v\ndoc=%s", bad, docdump(c.Format, doc))
			}
			if uerr != nil {
				return fmt.Errorf("a valid document could not be unmarshaled into an untyped value: %v\ndoc=%s\nevents=%s", uerr, docdump(c.Format, doc), ev.ListString(c.Events))
			}
			orig, err := buildTree(c.Events, canon.Opts{DropComments: true, DropPadding: true})
			if err != nil {
				return fmt.Errorf("harness: %v", err)
			}
			want, ok := c06Expected(orig)
			if !ok {
				ctx.Label("cyclic-skipped")
				return nil
			}
			doc2, merr, bad := marshalDoc(ctx, c.Format, res, cfg)
			if bad != nil {
				return bad
			}
			if merr != nil {
				return fmt.Errorf("the unmarshaled untyped value could not be marshaled again: %v\ndoc=%s", merr, docdump(c.Format, doc))
			}
			var evs2 []ev.Event
			var derr error
			o := ctx.Guard(func() {
				if c.Format == "cbe" {
					evs2, derr = decodeCBE(doc2, cfg)
				} else {
					evs2, derr = decodeCTE(doc2, cfg)
				}
			})
			if o.TimedOut || o.Panic != nil {
				return fmt.Errorf("decode of re-marshaled document: %v", o)
			}
			if derr != nil {
				return fmt.Errorf("the re-marshaled document does not decode: %v\ndoc2=%s", derr, docdump(c.Format, doc2))
			}
			got, err := buildTree(evs2, canon.Opts{DropComments: true, DropPadding: true})
			if err != nil {
				return fmt.Errorf("re-marshaled events malformed: %v", err)
			}
			sortAllMaps(want)
			sortAllMaps(got)
			if d := canon.Diff(want, got, canon.EqOpts{TolBigFloat: c.Format == "cbe", FloatArrayNaNAny: true}); d != "" {
				return fmt.Errorf("untyped round trip changed the data: %s\ndoc=%s\ndoc2=%s", d, docdump(c.Format, doc), docdump(c.Format, doc2))
			}
			return nil
		}
	}
}
